//! C05 — components: arguments checked and bound, scope isolated, recursion bounded.
//!
//! Streams
//!   B  binding product space: declared × typed × default × rest × supplied × extra × body.  The bound
//!      context is observed inside the component body with `{{ __tera_context | probe }}` and compared
//!      (a) with the Lean model of `build_context` (`drv_c05 bind`) and (b) with a direct oracle: the
//!      binding rules of the property written down independently here (`spec_bind`).
//!   S  call sites: explicit / string / shorthand / spread attributes in every order (right-most wins),
//!      with body, nested, from includes, blocks, other components; same two comparisons.
//!   I  isolation: the same call rendered with and without poisoned caller scopes (context, global
//!      context, set / loop variables, include parent) must give identical text.
//!   E  escaping: body rendered in the caller's scope and escaping mode, result not escaped again.
//!   P  priority: fallback-prefix configurations vs the model (`drv_c05 prio`) and vs the rendered text,
//!      the call being made from every template of the set (defining ones included), through includes,
//!      through fallback-resolved names and from a one-off template redefining the name.
//!   H  history: ok-add → rejected add (overrides / defines components and contains something invalid)
//!      → registry unchanged (template call, render_str, render_component, get_component_definition).
//!   N  captures nested 1–3 (4 thorough) deep — call bodies, set blocks, filter sections, bodies printed
//!      twice around an include — around includes / calls / loops / blocks: text comes out where written.
//!   X  a result / body kept in a variable (set, set_global, loop variable, argument, rest map) by a
//!      template of one escaping mode and printed by an included template of the other: inserted as is.
//!   R  recursion: self / mutual / through-include recursion ends in the recursion error, not in a stack
//!      overflow (child process, 2 MiB-stack thread, release profile); chains of exactly MAX and MAX+1
//!      nested renders; vs the model (`drv_c05 rec`).
//!   A  API: `Tera::render_component` = the equivalent template call.
use std::cell::RefCell;
use std::collections::BTreeMap;
use tera::value::{Key, ValueKind};
use tera::{Context, Kwargs, State, Tera, Value};
use tera_verif_harness::report::{out_path, replay_path, Report};
use tera_verif_harness::rng::Rng;
use tera_verif_harness::wire::{decode, encode};
use tera_verif_harness::{catch, driver, quiet_panics, Env};

thread_local! {
    static PROBE: RefCell<Vec<Value>> = const { RefCell::new(Vec::new()) };
}

fn new_tera() -> Tera {
    let mut tera = Tera::default();
    tera.register_filter("probe", |v: Value, _: Kwargs, _: &State| {
        PROBE.with(|p| p.borrow_mut().push(v.clone()));
        ""
    });
    // custom builtins that go back to the `State` they are given: another filter by name, a variable
    tera.register_filter("viaupper", |v: Value, _: Kwargs, st: &State| st.call_filter("upper", &v, Kwargs::default()));
    tera.register_filter("viadefault", |v: Value, _: Kwargs, st: &State| st.call_filter("str", &v, Kwargs::default()));
    tera.register_function("peek_a", |_: Kwargs, st: &State| match st.get::<Value>("a") {
        Ok(Some(v)) => format!("{}", v.name()),
        Ok(None) => "undefined".to_string(),
        Err(_) => "error".to_string(),
    });
    tera.register_test("has_a", |_: Value, _: Kwargs, st: &State| matches!(st.get::<Value>("a"), Ok(Some(_))));
    tera
}

const MAX_DEPTH: usize = 20; // compared with the model, which takes it from the generated table

// ------------------------------------------------------------------ definitions

const TYPES: [&str; 8] = ["string", "bool", "integer", "float", "number", "array", "map", "bytes"];

#[derive(Clone, Debug, PartialEq)]
struct Param {
    name: String,
    ty: Option<&'static str>,
    /// (template literal, value)
    dflt: Option<(String, Value)>,
}

#[derive(Clone, Debug)]
struct Def {
    /// in the order they are written
    params: Vec<Param>,
    rest: Option<String>,
}

fn default_pool() -> Vec<(String, Value)> {
    let mut m = tera::Map::new();
    m.insert("k".into(), Value::from(1));
    vec![
        ("1".into(), Value::from(1)),
        ("\"d<\"".into(), Value::from("d<")),
        ("true".into(), Value::from(true)),
        ("1.5".into(), Value::from(1.5)),
        ("none".into(), Value::none()),
        ("[1, \"x\"]".into(), Value::from(vec![Value::from(1), Value::from("x")])),
        ("{\"k\": 1}".into(), Value::from(m)),
    ]
}

fn value_pool() -> Vec<Value> {
    let mut m = tera::Map::new();
    m.insert("k".into(), Value::from("v"));
    vec![
        Value::from("s<&"),
        Value::from(7i64),
        Value::from(2.5f64),
        Value::from(true),
        Value::none(),
        Value::undefined(),
        Value::from(vec![Value::from(1)]),
        Value::from(m),
        Value::bytes(vec![104, 105]),
        Value::from(9u64),
        Value::from(1i128 << 100),
        Value::from(u128::MAX),
    ]
}

impl Def {
    fn signature(&self) -> String {
        let mut parts: Vec<String> = self
            .params
            .iter()
            .map(|p| {
                let mut s = p.name.clone();
                if let Some(t) = p.ty {
                    s.push_str(": ");
                    s.push_str(t);
                }
                if let Some((lit, _)) = &p.dflt {
                    s.push_str(" = ");
                    s.push_str(lit);
                }
                s
            })
            .collect();
        if let Some(r) = &self.rest {
            parts.push(format!("...{r}"));
        }
        parts.join(", ")
    }
    fn source(&self, name: &str, body: &str) -> String {
        format!("{{% component {name}({}) %}}{body}{{% endcomponent {name} %}}", self.signature())
    }
    fn model(&self) -> String {
        let mut s = format!("D{}", self.params.len());
        for p in &self.params {
            s.push_str(&format!(" {} {} ", p.name, p.ty.unwrap_or("_")));
            match &p.dflt {
                Some((_, v)) => s.push_str(&format!("= {}", encode(v))),
                None => s.push('_'),
            }
        }
        match &self.rest {
            Some(r) => s.push_str(&format!(" R:{r}")),
            None => s.push_str(" R_"),
        }
        s
    }
}

// ------------------------------------------------------------------ the binding rules, written down directly

fn type_accepts(t: &str, v: &Value) -> bool {
    let k = v.kind();
    match t {
        "string" => k == ValueKind::String,
        "bool" => k == ValueKind::Bool,
        "integer" => matches!(k, ValueKind::I64 | ValueKind::U64 | ValueKind::I128 | ValueKind::U128),
        "float" => k == ValueKind::F64,
        "number" => matches!(k, ValueKind::I64 | ValueKind::U64 | ValueKind::I128 | ValueKind::U128 | ValueKind::F64),
        "array" => k == ValueKind::Array,
        "map" => k == ValueKind::Map,
        "bytes" => k == ValueKind::Bytes,
        _ => false,
    }
}

fn inferred(v: &Value) -> Option<&'static str> {
    Some(match v.kind() {
        ValueKind::String => "string",
        ValueKind::Bool => "bool",
        ValueKind::I64 | ValueKind::U64 | ValueKind::I128 | ValueKind::U128 => "integer",
        ValueKind::F64 => "float",
        ValueKind::Array => "array",
        ValueKind::Map => "map",
        ValueKind::Bytes => "bytes",
        _ => return None,
    })
}

/// What the property demands.  Ok(context) or the *set* of error classes that apply (the engine may
/// report any one of them).
fn spec_bind(def: &Def, kwargs: &[(Key<'static>, Value)], body: Option<&Value>) -> Result<BTreeMap<String, Value>, Vec<&'static str>> {
    let supplied: BTreeMap<String, Value> = kwargs.iter().filter_map(|(k, v)| k.as_str().map(|s| (s.to_string(), v.clone()))).collect();
    let mut errs = Vec::new();
    let mut ctx = BTreeMap::new();
    let declared: Vec<&str> = def.params.iter().map(|p| p.name.as_str()).collect();
    let extras: BTreeMap<String, Value> = supplied.iter().filter(|(k, _)| !declared.contains(&k.as_str())).map(|(k, v)| (k.clone(), v.clone())).collect();
    if def.rest.is_none() && !extras.is_empty() {
        errs.push("unknown");
    }
    for p in &def.params {
        let ty = p.ty.or_else(|| p.dflt.as_ref().and_then(|d| inferred(&d.1)));
        match supplied.get(&p.name) {
            Some(v) => {
                if ty.is_some_and(|t| !type_accepts(t, v)) {
                    errs.push("mismatch");
                } else {
                    ctx.insert(p.name.clone(), v.clone());
                }
            }
            None => match &p.dflt {
                Some((_, d)) => {
                    ctx.insert(p.name.clone(), d.clone());
                }
                None => errs.push("missing"),
            },
        }
    }
    if let Some(r) = &def.rest {
        let mut m = tera::Map::new();
        for (k, v) in extras {
            m.insert(k.into(), v);
        }
        ctx.insert(r.clone(), Value::from(m));
    }
    if let Some(b) = body {
        ctx.insert("body".into(), b.clone());
    }
    if errs.is_empty() { Ok(ctx) } else { Err(errs) }
}

fn classify(msg: &str) -> &'static str {
    if msg.contains("Unknown argument") {
        "unknown"
    } else if msg.contains("missing.") {
        "missing"
    } else if msg.contains("does not match expected type") {
        "mismatch"
    } else if msg.contains("Maximum render recursion depth") {
        "recursion"
    } else {
        "other"
    }
}

fn err_text(e: &tera::Error) -> String {
    match e.kind() {
        tera::ErrorKind::RenderingError(r) => r.message().to_string(),
        _ => e.to_string(),
    }
}

fn map_value(entries: &[(Key<'static>, Value)]) -> Value {
    let mut m = tera::Map::new();
    for (k, v) in entries {
        m.insert(k.clone(), v.clone());
    }
    Value::from(m)
}

fn ctx_to_value(c: &BTreeMap<String, Value>) -> Value {
    let mut m = tera::Map::new();
    for (k, v) in c {
        m.insert(k.clone().into(), v.clone());
    }
    Value::from(m)
}

// ------------------------------------------------------------------ stream B: product space

#[derive(Clone)]
struct BindCase {
    def: Def,
    kwargs: Vec<(Key<'static>, Value)>,
    with_body: bool,
    /// how the call is written: 0 = one spread of a context map, 1 = explicit attributes (values from
    /// the context), 2 = mixture with overrides (see `call_text`)
    style: u8,
    /// where the call is written: 0 top level, 1 in an included template, 2 in a block of a child
    /// template, 3 in the body of another component call, 4 in a loop, 5 in a set block printed later,
    /// 6 in a filter section, 7 in an include inside a loop inside a block
    site: u8,
}

/// (main template, extra templates) placing `call` at the call site
fn place(site: u8, call: &str) -> (String, Vec<(String, String)>) {
    match site % 8 {
        1 => ("{% include \"site_inc.txt\" %}".into(), vec![("site_inc.txt".into(), call.to_string())]),
        2 => (format!("{{% extends \"site_base.txt\" %}}{{% block content %}}{call}{{% endblock content %}}"), vec![("site_base.txt".into(), "<{% block content %}{% endblock content %}>".into())]),
        3 => (format!("{{% <sitewrap> %}}{call}{{% </sitewrap> %}}"), vec![("site_defs.txt".into(), "{% component sitewrap() %}{{ body }}{% endcomponent sitewrap %}".into())]),
        4 => (format!("{{% for only in [1] %}}{call}{{% endfor %}}"), vec![]),
        5 => (format!("{{% set captured %}}{call}{{% endset %}}{{{{ captured }}}}"), vec![]),
        6 => (format!("{{% filter upper %}}{call}{{% endfilter %}}"), vec![]),
        7 => (
            "{% extends \"site_base.txt\" %}{% block content %}{% for only in [1] %}{% include \"site_inc.txt\" %}{% endfor %}{% endblock content %}".into(),
            vec![("site_base.txt".into(), "<{% block content %}{% endblock content %}>".into()), ("site_inc.txt".into(), call.to_string())],
        ),
        _ => (call.to_string(), vec![]),
    }
}

/// the attribute list of a call in the model's wire form: `A<n> {kv <name> <value> | sp <map>}×n`
fn attrs_wire(items: &[String]) -> String {
    let mut s = format!("A{}", items.len());
    for i in items {
        s.push(' ');
        s.push_str(i);
    }
    s
}

/// (call template text, context additions, the kwargs map the call denotes — right-most attribute
/// wins —, the attributes as written for the model)
fn call_text(c: &BindCase, cname: &str) -> (String, Vec<(String, Value)>, Vec<(Key<'static>, Value)>, String) {
    let mut ctx: Vec<(String, Value)> = Vec::new();
    let mut attrs = String::new();
    let mut wire: Vec<String> = Vec::new();
    let mut denoted: Vec<(Key<'static>, Value)>;
    let all_str_idents = c.kwargs.iter().all(|(k, _)| k.as_str().is_some_and(|s| s.chars().all(|ch| ch.is_ascii_alphanumeric() || ch == '_')));
    let style = if all_str_idents { c.style } else { 0 };
    match style {
        1 | 3 => {
            if style == 3 {
                // the first key written twice, without any spread (`BuildMap`): the later one wins
                if let Some((k, _)) = c.kwargs.first() {
                    let k = k.as_str().unwrap();
                    attrs.push_str(&format!(" {k}=\"EARLY\""));
                    wire.push(format!("kv {k} {}", encode(&Value::from("EARLY"))));
                }
            }
            for (i, (k, v)) in c.kwargs.iter().enumerate() {
                let k = k.as_str().unwrap();
                wire.push(format!("kv {k} {}", encode(v)));
                if v.is_undefined() {
                    attrs.push_str(&format!(" {k}={{nope_{i}}}"));
                } else if i % 3 == 1 && v.as_str().is_some_and(|s| !s.contains('"')) {
                    attrs.push_str(&format!(" {k}=\"{}\"", v.as_str().unwrap()));
                } else if i % 3 == 2 {
                    // shorthand: the caller has a variable of that name
                    ctx.push((k.to_string(), v.clone()));
                    attrs.push_str(&format!(" {k}"));
                } else {
                    ctx.push((format!("val_{i}"), v.clone()));
                    attrs.push_str(&format!(" {k}={{val_{i}}}"));
                }
            }
            denoted = c.kwargs.clone();
        }
        2 => {
            // every key first through a spread with a decoy value, then explicitly (explicit wins),
            // then once more through a trailing spread for the last key (spread wins)
            let decoy: Vec<(Key<'static>, Value)> = c.kwargs.iter().map(|(k, _)| (k.clone(), Value::from("DECOY"))).collect();
            ctx.push(("decoys".into(), map_value(&decoy)));
            attrs.push_str(" {...decoys}");
            wire.push(format!("sp {}", encode(&map_value(&decoy))));
            for (i, (k, v)) in c.kwargs.iter().enumerate() {
                let k = k.as_str().unwrap();
                wire.push(format!("kv {k} {}", encode(v)));
                ctx.push((format!("val_{i}"), v.clone()));
                attrs.push_str(&format!(" {k}={{val_{i}}}"));
            }
            denoted = c.kwargs.clone();
            if let Some((k, _)) = c.kwargs.last() {
                let last = vec![(k.clone(), Value::from("LATE"))];
                ctx.push(("late".into(), map_value(&last)));
                attrs.push_str(" {...late}");
                wire.push(format!("sp {}", encode(&map_value(&last))));
                denoted.last_mut().unwrap().1 = Value::from("LATE");
            }
        }
        _ => {
            ctx.push(("kw".into(), map_value(&c.kwargs)));
            attrs.push_str(" {...kw}");
            wire.push(format!("sp {}", encode(&map_value(&c.kwargs))));
            denoted = c.kwargs.clone();
        }
    }
    let text = if c.with_body {
        format!("{{% <{cname}{attrs}> %}}B:{{{{ bodyvar }}}}{{% </{cname}> %}}")
    } else {
        format!("{{{{ <{cname}{attrs}/> }}}}")
    };
    ctx.push(("bodyvar".into(), Value::from("<bv>")));
    (text, ctx, denoted, attrs_wire(&wire))
}

struct BindOutcome {
    imp: String,
    req: String,
    spec: String,
    spec_ok: bool,
}

fn run_bind(c: &BindCase) -> BindOutcome {
    let (call, ctxadd, denoted, attrs_model) = call_text(c, "comp");
    let body_val = if c.with_body { Some(Value::safe_string("B:<bv>")) } else { None };
    let r = catch(std::panic::AssertUnwindSafe(|| {
        let mut tera = new_tera();
        let (main, mut extra) = place(c.site, &call);
        extra.push(("defs.txt".to_string(), c.def.source("comp", "{{ __tera_context | probe }}")));
        extra.push(("main.txt".to_string(), main));
        tera.add_raw_templates(extra).map_err(|e| format!("add: {e:?}"))?;
        let mut ctx = Context::new();
        for (k, v) in &ctxadd {
            ctx.insert_value(k.clone(), v.clone());
        }
        PROBE.with(|p| p.borrow_mut().clear());
        match tera.render("main.txt", &ctx) {
            Ok(_) => {
                let vs = PROBE.with(|p| std::mem::take(&mut *p.borrow_mut()));
                if vs.len() == 1 { Ok(format!("ok {}", encode(&vs[0]))) } else { Ok(format!("probes {}", vs.len())) }
            }
            Err(e) => Ok::<String, String>(format!("err {}", classify(&err_text(&e)))),
        }
    }));
    let imp = match r {
        Ok(Ok(s)) => s,
        Ok(Err(e)) => format!("adderr {e}"),
        Err(p) => format!("panic {p}"),
    };
    let req = format!(
        "bind {} {} {}",
        c.def.model(),
        attrs_model,
        body_val.as_ref().map(encode).unwrap_or_else(|| "-".into())
    );
    let (spec, spec_ok) = match spec_bind(&c.def, &denoted, body_val.as_ref()) {
        Ok(ctx) => {
            let want = format!("ok {}", encode(&ctx_to_value(&ctx)));
            let ok = want == imp;
            (want, ok)
        }
        Err(classes) => {
            let ok = classes.iter().any(|cl| imp == format!("err {cl}"));
            (format!("err one of {classes:?}"), ok)
        }
    };
    BindOutcome { imp, req, spec, spec_ok }
}

fn bind_replay(c: &BindCase) -> serde_json::Value {
    serde_json::json!({
        "stream": "bind",
        "signature": c.def.signature(),
        "params": c.def.params.iter().map(|p| serde_json::json!({"name": p.name, "ty": p.ty, "dflt": p.dflt.as_ref().map(|d| (d.0.clone(), encode(&d.1)))})).collect::<Vec<_>>(),
        "rest": c.def.rest,
        "kwargs": c.kwargs.iter().map(|(k, v)| (encode(&k.as_value()), encode(v))).collect::<Vec<_>>(),
        "with_body": c.with_body,
        "style": c.style,
        "site": c.site,
    })
}

fn bind_from_replay(j: &serde_json::Value) -> Option<BindCase> {
    let params = j["params"]
        .as_array()?
        .iter()
        .map(|p| {
            let ty = p["ty"].as_str().and_then(|t| TYPES.iter().find(|x| **x == t).copied());
            let dflt = p["dflt"].as_array().map(|d| (d[0].as_str().unwrap().to_string(), decode(d[1].as_str().unwrap()).unwrap()));
            Param { name: p["name"].as_str().unwrap().to_string(), ty, dflt }
        })
        .collect();
    let kwargs = j["kwargs"]
        .as_array()?
        .iter()
        .map(|kv| {
            let k = decode(kv[0].as_str().unwrap()).unwrap();
            (tera_verif_harness::wire::value_to_key(&k).unwrap(), decode(kv[1].as_str().unwrap()).unwrap())
        })
        .collect();
    Some(BindCase {
        def: Def { params, rest: j["rest"].as_str().map(|s| s.to_string()) },
        kwargs,
        with_body: j["with_body"].as_bool()?,
        style: j["style"].as_u64()? as u8,
        site: j["site"].as_u64().unwrap_or(0) as u8,
    })
}

/// the product space for `n` parameters over the given per-parameter lattices
fn product(
    names: &[&str],
    types: &[Option<&'static str>],
    defaults: &[Option<(String, Value)>],
    supplied: &[Option<Value>],
    extras: &[Vec<(Key<'static>, Value)>],
    out: &mut Vec<BindCase>,
) {
    let per: Vec<(Option<&'static str>, Option<(String, Value)>, Option<Value>)> = types
        .iter()
        .flat_map(|t| defaults.iter().flat_map(move |d| supplied.iter().map(move |s| (*t, d.clone(), s.clone()))))
        .collect();
    let n = names.len();
    let mut idx = vec![0usize; n];
    loop {
        for rest in [None, Some("rest".to_string())] {
            for (ei, extra) in extras.iter().enumerate() {
                let mut params = Vec::new();
                let mut kwargs: Vec<(Key<'static>, Value)> = Vec::new();
                for (i, name) in names.iter().enumerate() {
                    let (t, d, s) = &per[idx[i]];
                    params.push(Param { name: name.to_string(), ty: *t, dflt: d.clone() });
                    if let Some(v) = s {
                        kwargs.push((Key::from(name.to_string()), v.clone()));
                    }
                }
                kwargs.extend(extra.iter().cloned());
                let k = out.len();
                out.push(BindCase { def: Def { params, rest: rest.clone() }, kwargs, with_body: (k + ei) % 4 == 0, style: (k % 4) as u8, site: ((k / 4) % 8) as u8 });
            }
        }
        // next index
        let mut i = 0;
        loop {
            if i == n {
                return;
            }
            idx[i] += 1;
            if idx[i] < per.len() {
                break;
            }
            idx[i] = 0;
            i += 1;
        }
    }
}

// ------------------------------------------------------------------ other streams

fn render_with(tera: &Tera, name: &str, ctx: &Context) -> String {
    match catch(std::panic::AssertUnwindSafe(|| tera.render(name, ctx))) {
        Ok(Ok(s)) => format!("ok {s}"),
        Ok(Err(e)) => format!("err {}", classify(&err_text(&e))),
        Err(p) => format!("panic {p}"),
    }
}

/// Stream I: isolation.  Returns (checks, failure)
fn isolation(rng: &mut Rng, n: usize) -> (u64, Option<(String, serde_json::Value)>) {
    let mut checks = 0;
    // component bodies that try to see everything a caller could have
    let bodies = [
        "[{{ a }}|{{ leak | default(value=\"none\") }}|{{ g | default(value=\"none\") }}|{{ lv | default(value=\"none\") }}|{{ sv | default(value=\"none\") }}|{{ loop | default(value=\"none\") }}]",
        "[{{ a }}|{% if leak is defined %}LEAK{% endif %}{% if g is defined %}G{% endif %}{% if sv is defined %}SV{% endif %}{% if lv is defined %}LV{% endif %}|{{ __tera_context }}]",
        "[{{ a }}|{% include \"peek.txt\" %}]",
        "[{{ a }}|{{ <inner /> }}]",
    ];
    let callers = [
        // (template text, name)
        ("{{ <c a={x}/> }}", "plain"),
        ("{% set sv = \"SETVAR\" %}{% set leak = \"L2\" %}{{ <c a={x}/> }}", "set"),
        ("{% for lv in [1] %}{% set leak = lv %}{{ <c a={x}/> }}{% endfor %}", "loop"),
        ("{% set sv = 1 %}{% include \"inc.txt\" %}", "include"),
        ("{% set sv = 1 %}{% <wrap> %}{% set leak = 3 %}{{ <c a={x}/> }}{% </wrap> %}", "in-body"),
        ("{% extends \"base.txt\" %}{% block b %}{% set sv = 1 %}{{ <c a={x}/> }}{% endblock b %}", "block"),
        ("{% set_global sv = 1 %}{% filter upper %}{{ <c a={x}/> }}{% endfilter %}", "filter-section"),
    ];
    for _ in 0..n {
        let body = bodies[rng.below(bodies.len())];
        let (caller, cname) = callers[rng.below(callers.len())];
        let x = ["v1", "<x>", "7"][rng.below(3)];
        let build = |poison: bool| -> String {
            let mut tera = new_tera();
            if poison {
                tera.global_context().insert("g", "GLOBAL");
                tera.global_context().insert("leak", "GLEAK");
            }
            let r = tera.add_raw_templates(vec![
                ("defs.txt".to_string(), format!("{{% component c(a) %}}{body}{{% endcomponent c %}}{{% component inner() %}}<{{{{ leak | default(value=\"none\") }}}}{{{{ a | default(value=\"none\") }}}}>{{% endcomponent inner %}}{{% component wrap() %}}{{{{ body }}}}{{% endcomponent wrap %}}")),
                ("peek.txt".to_string(), "{{ leak | default(value=\"none\") }}{{ g | default(value=\"none\") }}{{ sv | default(value=\"none\") }}".to_string()),
                ("inc.txt".to_string(), "{% set leak = 5 %}{{ <c a={x}/> }}".to_string()),
                ("base.txt".to_string(), "{% block b %}{% endblock b %}".to_string()),
                ("main.txt".to_string(), caller.to_string()),
            ]);
            if let Err(e) = r {
                return format!("adderr {e:?}");
            }
            let mut ctx = Context::new();
            ctx.insert("x", x);
            if poison {
                ctx.insert("leak", "CTXLEAK");
                ctx.insert("a_", "zz");
            }
            render_with(&tera, "main.txt", &ctx)
        };
        // the caller's own set / loop variables are part of both renders; what must not matter is
        // the poisoned context and global context — and in neither render may the component see
        // the caller's variables
        let clean = build(false);
        let poisoned = build(true);
        checks += 2;
        let leaks = ["CTXLEAK", "GLEAK", "GLOBAL", "SETVAR", "LEAK", "SV", "LV", "L2"];
        let inside: String = clean.split('[').nth(1).unwrap_or("").split(']').next().unwrap_or("").to_string();
        if clean != poisoned || !clean.starts_with("ok") {
            return (checks, Some((format!("isolation: caller `{cname}`: clean render {clean:?}, with poisoned context / global context {poisoned:?}"), serde_json::json!({"stream": "isolation", "body": body, "caller": caller, "x": x}))));
        }
        if let Some(l) = leaks.iter().find(|l| inside.to_uppercase().contains(&l.to_uppercase()) && !x.contains(*l)) {
            // `{{ __tera_context }}` prints key names too: `leak`, `sv`, `lv` would show up there
            return (checks, Some((format!("isolation: caller `{cname}`: the component saw `{l}`: {clean:?}"), serde_json::json!({"stream": "isolation", "body": body, "caller": caller, "x": x}))));
        }
    }
    (checks, None)
}

/// Stream E: body in caller scope and escaping mode, result not escaped again
fn escaping(report: &mut Report) -> Option<(String, serde_json::Value)> {
    let data = ["<>&\"'", "a<b", "plain", "'\"", "日<本"];
    for d in data {
        for (caller_sfx, def_sfx) in [(".html", ".html"), (".html", ".txt"), (".txt", ".html"), (".txt", ".txt")] {
            let mut tera = new_tera();
            let main = format!("main{caller_sfx}");
            let r = tera.add_raw_templates(vec![
                (format!("defs{def_sfx}"), "{% component card(t) %}<div>{{ t }}|{{ body }}</div>{% endcomponent card %}{% component lit() %}<b>&</b>{% endcomponent lit %}".to_string()),
                (main.clone(), "{% set local = d %}{% <card t={d}> %}<i>{{ local }}</i>{{ <lit/> }}{% </card> %}#{{ <lit/> }}#{% set r = <lit/> %}{{ r }}#<i>{{ local }}</i>".to_string()),
            ]);
            if let Err(e) = r {
                return Some((format!("escaping: add failed {e:?}"), serde_json::json!({"stream": "escaping"})));
            }
            let mut ctx = Context::new();
            ctx.insert("d", d);
            let out = render_with(&tera, &main, &ctx);
            report.oracle_checks += 1;
            report.evaluations += 1;
            // the component is rendered by the caller's VM: the caller's escaping mode applies to the
            // body, to the component's own `{{ t }}`, and the result is inserted as is
            let esc = |s: &str| -> String {
                if caller_sfx == ".html" {
                    s.replace('&', "&amp;").replace('<', "&lt;").replace('>', "&gt;").replace('"', "&quot;").replace('\'', "&#39;")
                } else {
                    s.to_string()
                }
            };
            let inline = format!("<i>{}</i>", esc(d));
            let want = format!("ok <div>{}|{}<b>&</b></div>#<b>&</b>#<b>&</b>#{}", esc(d), inline, inline);
            // which escaping mode the component's *own* `{{ t }}` gets when the defining template and
            // the caller disagree is not part of the property: compare from the body on in that case
            let (out_cmp, want_cmp) = if caller_sfx == def_sfx {
                (out.clone(), want.clone())
            } else {
                let cut = |s: &str| s.find('|').map(|i| s[i..].to_string()).unwrap_or_else(|| s.to_string());
                (cut(&out), cut(&want))
            };
            if out_cmp != want_cmp {
                return Some((
                    format!("escaping: caller main{caller_sfx}, definition in defs{def_sfx}, data {d:?}: got {out:?}, want {want:?} (body = the same text rendered inline in the caller; result inserted unescaped)"),
                    serde_json::json!({"stream": "escaping", "data": d, "caller_sfx": caller_sfx, "def_sfx": def_sfx}),
                ));
            }
        }
    }
    None
}

/// Stream P: priority
struct PrioCase {
    prefixes: Vec<String>,
    /// (template name, defines Btn?, text)
    tpls: Vec<(String, bool)>,
}

/// (outcome seen from a neutral template, model request, [(call site, output, expected)] for calls
/// made from every template of the set — the defining ones included —, through includes, through
/// fallback-resolved names and through a one-off template that redefines the name inline)
fn run_prio(c: &PrioCase) -> (String, String, Vec<(String, String, String)>) {
    let mut tera = new_tera();
    let _ = tera.set_fallback_prefixes(c.prefixes.clone());
    let mut list: Vec<(String, String)> = c
        .tpls
        .iter()
        .map(|(n, defines)| {
            (n.clone(), if *defines { format!("{{% component Btn() %}}from:{n}{{% endcomponent Btn %}}[{{{{ <Btn/> }}}}]") } else { "[{{ <Btn/> }}]".to_string() })
        })
        .collect();
    list.push(("zz_main.txt".into(), "{{ <Btn/> }}".into()));
    list.push(("zz_inc_all.txt".into(), c.tpls.iter().map(|(n, _)| format!("{{% include \"{n}\" %}}")).collect::<String>()));
    let mut sites = Vec::new();
    let imp = match catch(std::panic::AssertUnwindSafe(|| tera.add_raw_templates(list))) {
        Err(p) => format!("panic {p}"),
        Ok(Err(e)) => {
            let m = e.to_string();
            if m.contains("is defined in both") { "err duplicate".to_string() } else { format!("err other {m}") }
        }
        Ok(Ok(())) => match tera.render("zz_main.txt", &Context::new()) {
            Ok(s) => {
                let best = s.trim_start_matches("from:").to_string();
                let want = format!("[from:{best}]");
                let show = |r: Result<String, tera::Error>| r.unwrap_or_else(|e| format!("error {}", err_text(&e)));
                for (n, _) in &c.tpls {
                    sites.push((format!("render(\"{n}\")"), show(tera.render(n, &Context::new())), want.clone()));
                    // by the name a fallback prefix resolves (whichever template that is, it makes the same call)
                    for p in &c.prefixes {
                        if !p.is_empty() && n.starts_with(p.as_str()) {
                            let short = &n[p.len()..];
                            if let Ok(out) = tera.render(short, &Context::new()) {
                                sites.push((format!("render(\"{short}\") resolved through the prefixes"), out, want.clone()));
                            }
                        }
                    }
                }
                sites.push(("a template including every template of the set".into(), show(tera.render("zz_inc_all.txt", &Context::new())), want.repeat(c.tpls.len())));
                // a one-off template that defines the name itself: on the engine the registered table
                // is consulted first (`tera.components.get(name)` before `template.components`)
                sites.push((
                    "render_str with an inline definition of the same name".into(),
                    show(tera.render_str("{% component Btn() %}from:inline{% endcomponent Btn %}[{{ <Btn/> }}]", &Context::new(), false)),
                    want.clone(),
                ));
                sites.push(("render_str calling the registered name".into(), show(tera.render_str("[{{ <Btn/> }}]{% include \"zz_main.txt\" %}", &Context::new(), false)), format!("{want}from:{best}")));
                format!("ok {best}")
            }
            Err(e) => format!("err render {}", err_text(&e)),
        },
    };
    let mut names: Vec<&(String, bool)> = c.tpls.iter().filter(|t| t.1).collect();
    names.sort();
    let mut req = format!("prio {}", c.prefixes.len());
    for p in &c.prefixes {
        req.push_str(" p:");
        req.push_str(p);
    }
    req.push_str(&format!(" {}", names.len()));
    for (n, _) in names {
        req.push_str(&format!(" Btn {n}"));
    }
    (imp, req, sites)
}

/// the property, directly: the definition of (strictly) highest priority is used; two at the
/// highest priority cannot be told apart ⇒ the set is rejected
fn spec_prio(c: &PrioCase) -> Option<String> {
    let prio = |n: &str| c.prefixes.iter().position(|p| n.starts_with(p.as_str())).map(|i| i + 1).unwrap_or(0);
    let defs: Vec<&String> = c.tpls.iter().filter(|t| t.1).map(|t| &t.0).collect();
    let best = defs.iter().map(|n| prio(n)).min()?;
    let at_best: Vec<&&String> = defs.iter().filter(|n| prio(n) == best).collect();
    if at_best.len() == 1 { Some(format!("ok {}", at_best[0])) } else { Some("err duplicate".into()) }
}

// ------------------------------------------------------------------ stream N: bodies nested in captures

/// Wrap `inner` (template text, expected text) in one more capture of kind `k` at nesting level `lvl`:
/// 0 = body of a component call, 1 = set block printed afterwards, 2 = filter section, 3 = body of a
/// component call whose definition prints the body twice around an include
fn wrap_capture(k: usize, lvl: usize, inner: (String, String)) -> (String, String) {
    let (t, e) = inner;
    match k % 4 {
        0 => (format!("{lvl}({{% <w{lvl}> %}}{lvl}a{t}{lvl}b{{% </w{lvl}> %}}){lvl}"), format!("{lvl}([w{lvl}:{lvl}a{e}{lvl}b]){lvl}")),
        1 => (format!("{lvl}({{% set s{lvl} %}}{lvl}a{t}{lvl}b{{% endset %}}{{{{ s{lvl} }}}}){lvl}"), format!("{lvl}({lvl}a{e}{lvl}b){lvl}")),
        2 => (format!("{lvl}({{% filter upper %}}{lvl}a{t}{lvl}b{{% endfilter %}}){lvl}"), format!("{lvl}({}){lvl}", format!("{lvl}a{e}{lvl}b").to_uppercase())),
        _ => (format!("{lvl}({{% <d{lvl}> %}}{lvl}a{t}{lvl}b{{% </d{lvl}> %}}){lvl}"), format!("{lvl}([d{lvl}:{lvl}a{e}{lvl}b|P|{lvl}a{e}{lvl}b]){lvl}")),
    }
}

/// every nesting of 1–3 captures of every kind around a body that contains an include, a component
/// call (inline and with a body that includes), a block, and an include of a template that itself
/// captures: the text must come out where it was written (expected text by construction); rendered
/// in a non-escaping and in an escaping template (the texts contain no special characters)
fn nested_capture_stream(report: &mut Report, max_levels: usize) -> Option<(String, serde_json::Value)> {
    let inners: Vec<(String, String)> = vec![
        ("x{% include \"part.txt\" %}y".into(), "xPy".into()),
        ("x{{ <leaf/> }}y".into(), "xLy".into()),
        ("x{% <w9> %}m{% include \"part.txt\" %}n{% </w9> %}y".into(), "x[w9:mPn]y".into()),
        ("x{% include \"capt.txt\" %}y".into(), "x(cPc)[w9:qPq]y".into()),
        ("x{% for i in [1, 2] %}{% include \"part.txt\" %}{{ i }}{% endfor %}y".into(), "xP1P2y".into()),
        ("x{% include \"part.txt\" %}{% include \"part.txt\" %}y".into(), "xPPy".into()),
    ];
    let mut defs = String::from("{% component leaf() %}L{% endcomponent leaf %}");
    for l in 0..=9 {
        defs.push_str(&format!("{{% component w{l}() %}}[w{l}:{{{{ body }}}}]{{% endcomponent w{l} %}}"));
        defs.push_str(&format!("{{% component d{l}() %}}[d{l}:{{{{ body }}}}|{{% include \"part.txt\" %}}|{{{{ body }}}}]{{% endcomponent d{l} %}}"));
    }
    let mut cases: Vec<(String, String, String)> = Vec::new(); // (description, template, expected)
    for (ii, inner) in inners.iter().enumerate() {
        for levels in 1..=max_levels {
            let combos = 4usize.pow(levels as u32);
            for combo in 0..combos {
                let mut cur = inner.clone();
                let mut kinds = Vec::new();
                let mut c = combo;
                for lvl in (1..=levels).rev() {
                    let k = c % 4;
                    c /= 4;
                    kinds.push(k);
                    cur = wrap_capture(k, lvl, cur);
                }
                cases.push((format!("inner #{ii} inside captures {kinds:?} (innermost first; 0 call body, 1 set block, 2 filter section, 3 call body printed twice around an include)"), cur.0, cur.1));
            }
        }
    }
    let mut first = None;
    for sfx in [".txt", ".html"] {
        let mut tera = new_tera();
        let mut list: Vec<(String, String)> = vec![
            ("defs.txt".into(), defs.clone()),
            ("part.txt".into(), "P".into()),
            ("capt.txt".into(), "{% set z %}c{% include \"part.txt\" %}c{% endset %}({{ z }}){% <w9> %}q{% include \"part.txt\" %}q{% </w9> %}".into()),
        ];
        for (i, (_, t, _)) in cases.iter().enumerate() {
            list.push((format!("n{i}{sfx}"), t.clone()));
            // the same inside a block of a child template, and as the body of an included template
            list.push((format!("nb{i}{sfx}"), format!("{{% extends \"nbase.txt\" %}}{{% block c %}}{t}{{% endblock c %}}")));
        }
        list.push(("nbase.txt".into(), "<{% block c %}{% endblock c %}>".into()));
        if let Err(e) = tera.add_raw_templates(list) {
            return Some((format!("nested captures: templates do not register: {e:?}"), serde_json::json!({"stream": "nested"})));
        }
        for (i, (desc, t, want)) in cases.iter().enumerate() {
            for (name, want) in [(format!("n{i}{sfx}"), want.clone()), (format!("nb{i}{sfx}"), format!("<{want}>"))] {
                report.evaluations += 1;
                report.oracle_checks += 1;
                let got = render_with(&tera, &name, &Context::new());
                if got != format!("ok {want}") {
                    report.oracle_failures += 1;
                    if first.is_none() {
                        first = Some((format!("nested captures: {desc}: `{t}` (in {name}) renders `{got}`, the text written there is `{want}`"), serde_json::json!({"stream": "nested", "template": t, "want": want})));
                    }
                }
            }
        }
    }
    report.count_n("nested-captures.templates", cases.len() as u64);
    first
}

// ------------------------------------------------------------------ stream X: results across autoescape boundaries

/// A component result / body / argument kept in a variable by one template and printed by another
/// one with the *other* escaping mode (include), via set, set_global, loop variable, component
/// argument and rest map: it is inserted as is — what was (or was not) escaped when the component ran
/// in the caller's mode stays exactly that.
fn boundary_stream(report: &mut Report) -> Option<(String, serde_json::Value)> {
    let data = ["<>&\"'", "a<b", "plain", "x' onmouseover=\"y"];
    let mut first = None;
    for d in data {
        for caller_html in [false, true] {
            let (csfx, psfx) = if caller_html { (".html", ".txt") } else { (".txt", ".html") };
            let esc = |s: &str| if caller_html { s.replace('&', "&amp;").replace('<', "&lt;").replace('>', "&gt;").replace('"', "&quot;").replace('\'', "&#39;") } else { s.to_string() };
            // what the component calls produce in the caller's mode
            let res = format!("<b>{}&</b>", esc(d));
            let bod = format!("[w:<i>{}</i>]", esc(d));
            let routes: Vec<(&str, String, String)> = vec![
                ("set", format!("{{% set r = <show d={{d}}/> %}}{{% include \"p_r{psfx}\" %}}"), res.clone()),
                ("set_global", format!("{{% for i in [1] %}}{{% set_global r = <show d={{d}}/> %}}{{% endfor %}}{{% include \"p_r{psfx}\" %}}"), res.clone()),
                ("loop variable", format!("{{% for r in [<show d={{d}}/>] %}}{{% include \"p_r{psfx}\" %}}{{% endfor %}}"), res.clone()),
                ("component argument", format!("{{% set r = <show d={{d}}/> %}}{{{{ <via a={{r}}/> }}}}"), res.clone()),
                ("rest map", format!("{{% set r = <show d={{d}}/> %}}{{{{ <via_rest a={{r}}/> }}}}"), res.clone()),
                ("result of a call with body, set", format!("{{% set r %}}{{% <wrap> %}}<i>{{{{ d }}}}</i>{{% </wrap> %}}{{% endset %}}{{% include \"p_r{psfx}\" %}}"), bod.clone()),
                ("body printed by an included template", format!("{{% <wrap_inc> %}}<i>{{{{ d }}}}</i>{{% </wrap_inc> %}}"), bod.clone()),
                ("result printed directly and through the include", format!("{{{{ <show d={{d}}/> }}}}|{{% set r = <show d={{d}}/> %}}{{% include \"p_r{psfx}\" %}}"), format!("{res}|{res}")),
            ];
            for api in ["render", "render_str"] {
                if api == "render_str" && caller_html {
                    // covered by render; render_str(.., true) of a template including a .txt partial is the same route
                }
                let mut tera = new_tera();
                let mut list: Vec<(String, String)> = vec![
                    (format!("defs{psfx}"), format!("{{% component show(d) %}}<b>{{{{ d }}}}&</b>{{% endcomponent show %}}{{% component wrap() %}}[w:{{{{ body }}}}]{{% endcomponent wrap %}}{{% component wrap_inc() %}}{{% include \"p_body{psfx}\" %}}{{% endcomponent wrap_inc %}}{{% component via(a) %}}{{% include \"p_a{psfx}\" %}}{{% endcomponent via %}}{{% component via_rest(...rest) %}}{{% set a = rest.a %}}{{% include \"p_a{psfx}\" %}}{{% endcomponent via_rest %}}")),
                    (format!("p_r{psfx}"), "{{ r }}".into()),
                    (format!("p_a{psfx}"), "{{ a }}".into()),
                    (format!("p_body{psfx}"), "[w:{{ body }}]".into()),
                ];
                for (k, (_, t, _)) in routes.iter().enumerate() {
                    list.push((format!("m{k}{csfx}"), t.clone()));
                }
                if let Err(e) = tera.add_raw_templates(list) {
                    return Some((format!("boundary: templates do not register: {e:?}"), serde_json::json!({"stream": "boundary"})));
                }
                let mut ctx = Context::new();
                ctx.insert("d", d);
                for (k, (route, t, want)) in routes.iter().enumerate() {
                    report.evaluations += 1;
                    report.oracle_checks += 1;
                    let got = if api == "render" {
                        render_with(&tera, &format!("m{k}{csfx}"), &ctx)
                    } else {
                        match catch(std::panic::AssertUnwindSafe(|| tera.render_str(t, &ctx, caller_html))) {
                            Ok(Ok(s)) => format!("ok {s}"),
                            Ok(Err(e)) => format!("err {}", err_text(&e)),
                            Err(p) => format!("panic {p}"),
                        }
                    };
                    if got != format!("ok {want}") {
                        report.oracle_failures += 1;
                        if first.is_none() {
                            first = Some((
                                format!("result not escaped again, across an autoescape boundary: caller m{k}{csfx} ({api}), route `{route}`, printed by a {psfx} partial, data {d:?}: got `{got}`, the component's text is `{want}` (`{t}`)"),
                                serde_json::json!({"stream": "boundary", "route": route, "data": d, "caller_html": caller_html}),
                            ));
                        }
                    }
                }
            }
        }
    }
    first
}

// ------------------------------------------------------------------ stream H: the registry after a rejected add

/// everything one can observe of the component registry
fn observe_registry(tera: &Tera) -> Vec<String> {
    let mut out = Vec::new();
    // a panic (e.g. a registry entry whose source template is gone) is an observation, not a crash
    let show = |f: &dyn Fn() -> Result<String, tera::Error>| match catch(std::panic::AssertUnwindSafe(f)) {
        Ok(Ok(s)) => format!("ok {s}"),
        Ok(Err(e)) => format!("err {}", if err_text(&e).contains("not") || e.to_string().contains("not") { "unknown-or-missing" } else { "other" }),
        Err(p) => format!("panic {p}"),
    };
    for name in ["K", "K2", "Only"] {
        out.push(format!("render_str call {name}: {}", show(&|| tera.render_str(&format!("[{{{{ <{name}/> }}}}]"), &Context::new(), false))));
        out.push(format!("render_component {name}: {}", show(&|| tera.render_component(name, &Context::new(), None, false))));
        out.push(format!(
            "get_component_definition {name}: {:?}",
            tera.get_component_definition(name).map(|i| (i.args().iter().map(|a| (a.name().to_string(), a.default().map(|d| format!("{d}")))).collect::<Vec<_>>(), i.rest_param().map(|s| s.to_string())))
        ));
    }
    for t in ["main.txt", "theme/page.txt"] {
        out.push(format!("render {t}: {}", show(&|| tera.render(t, &Context::new()))));
    }
    out
}

/// ok-add (a theme defines K) → REJECTED add (the batch overrides K and / or defines K2 and contains
/// something invalid) → the registry is what it was: same text from a template, from render_str, from
/// the API, same introspection; K2 stays unknown
fn history_stream(report: &mut Report) -> Option<(String, serde_json::Value)> {
    let overrides: Vec<(&str, Vec<(&str, &str)>)> = vec![
        ("override K at higher priority", vec![("k_user.txt", "{% component K(a=2, ...more) %}user{{ a }}{% endcomponent K %}")]),
        ("define new K2", vec![("k2.txt", "{% component K2(z) %}k2{% endcomponent K2 %}")]),
        ("override K and define K2 in one template", vec![("both.txt", "{% component K() %}both{% endcomponent K %}{% component K2() %}k2{% endcomponent K2 %}")]),
        ("replace the defining template by one that no longer defines K", vec![("theme/k.txt", "nothing here")]),
        ("replace the defining template by a different K", vec![("theme/k.txt", "{% component K(b=9) %}changed{{ b }}{% endcomponent K %}")]),
    ];
    let invalids: Vec<(&str, Vec<(&str, &str)>)> = vec![
        ("unknown filter in another template", vec![("bad.txt", "{{ 1 | nosuchfilter }}")]),
        ("unknown component call", vec![("bad.txt", "{{ <Nope/> }}")]),
        ("include of a missing template", vec![("bad.txt", "{% include \"missing.txt\" %}")]),
        ("extends a missing parent", vec![("bad.txt", "{% extends \"missing.txt\" %}")]),
        ("syntax error", vec![("bad.txt", "{% if %}")]),
        ("unknown test", vec![("bad.txt", "{{ 1 is nosuchtest }}")]),
        ("unknown function", vec![("bad.txt", "{{ nosuchfn() }}")]),
        ("duplicate definition at equal priority", vec![("dup1.txt", "{% component D() %}1{% endcomponent D %}"), ("dup2.txt", "{% component D() %}2{% endcomponent D %}")]),
        ("include cycle", vec![("c1.txt", "{% include \"c2.txt\" %}"), ("c2.txt", "{% include \"c1.txt\" %}")]),
    ];
    let mut first = None;
    for (oname, ov) in &overrides {
        for (iname, inv) in &invalids {
            for order in 0..2 {
                for single in [false, true] {
                    let mut tera = new_tera();
                    let _ = tera.set_fallback_prefixes(vec!["theme/".to_string()]);
                    if let Err(e) = tera.add_raw_templates(vec![
                        ("theme/k.txt", "{% component K(a=1) %}theme{{ a }}{% endcomponent K %}{% component Only() %}only{% endcomponent Only %}"),
                        ("theme/page.txt", "p:{{ <K a={5}/> }}{{ <Only/> }}"),
                        ("main.txt", "m:{{ <K/> }}"),
                    ]) {
                        return Some((format!("history: the first add fails: {e:?}"), serde_json::json!({"stream": "history"})));
                    }
                    let before = observe_registry(&tera);
                    // the rejected add
                    let mut batch: Vec<(String, String)> = ov.iter().map(|(n, t)| (n.to_string(), t.to_string())).collect();
                    let mut bad: Vec<(String, String)> = inv.iter().map(|(n, t)| (n.to_string(), t.to_string())).collect();
                    if single {
                        // everything in ONE template added with add_raw_template (only when the invalid part is a reference)
                        if inv.len() != 1 || ov.len() != 1 || *iname == "syntax error" || iname.starts_with("extends") {
                            continue;
                        }
                        let name = batch[0].0.clone();
                        let src = format!("{}{}", batch[0].1, bad[0].1);
                        let r = catch(std::panic::AssertUnwindSafe(|| tera.add_raw_template(&name, &src)));
                        if !matches!(r, Ok(Err(_))) {
                            report.count("history.add-not-rejected");
                            continue;
                        }
                    } else {
                        if order == 1 {
                            bad.extend(batch.drain(..));
                            batch = bad;
                        } else {
                            batch.extend(bad);
                        }
                        let r = catch(std::panic::AssertUnwindSafe(|| tera.add_raw_templates(batch.clone())));
                        if !matches!(r, Ok(Err(_))) {
                            report.count("history.add-not-rejected");
                            continue;
                        }
                    }
                    report.count("history.rejected-adds");
                    report.evaluations += 1;
                    let after = observe_registry(&tera);
                    report.oracle_checks += after.len() as u64;
                    if after != before {
                        report.oracle_failures += 1;
                        if first.is_none() {
                            let diff: Vec<String> = before.iter().zip(after.iter()).filter(|(a, b)| a != b).map(|(a, b)| format!("before `{a}` / after `{b}`")).collect();
                            first = Some((
                                format!("registry after a REJECTED add ({oname}; rejected for: {iname}; {}) differs from the one before: {}", if single { "one template, add_raw_template" } else { "batch, add_raw_templates" }, diff.join("; ")),
                                serde_json::json!({"stream": "history", "override": oname, "invalid": iname, "single": single, "order": order}),
                            ));
                        }
                    }
                    // and a later valid add still sees the old registry
                    if tera.add_raw_template("later.txt", "l:{{ <K/> }}").is_ok() {
                        report.oracle_checks += 1;
                        let got = render_with(&tera, "later.txt", &Context::new());
                        let want = before.iter().find(|l| l.starts_with("render main.txt")).map(|l| l.replace("render main.txt: ok m:", "ok l:")).unwrap_or_default();
                        if got != want {
                            report.oracle_failures += 1;
                            if first.is_none() {
                                first = Some((format!("after a rejected add ({oname}; {iname}) and a later valid add, `l:{{{{ <K/> }}}}` renders `{got}`, expected `{want}`"), serde_json::json!({"stream": "history", "override": oname, "invalid": iname})));
                            }
                        }
                    }
                }
            }
        }
    }
    first
}

// ------------------------------------------------------------------ stream B: break / continue and captures

/// `break` / `continue` may not leave a capture (component-call body, filter section, set block) that was
/// opened inside the loop: such a template is rejected at add time, however the loop itself is nested
/// (inside another capture, a block, a component definition); a jump that stays inside its capture is fine.
fn break_stream(report: &mut Report) -> Option<(String, serde_json::Value)> {
    let open_close: [(&str, &str, &str); 4] = [
        ("call body", "{% <w> %}", "{% </w> %}"),
        ("filter section", "{% filter upper %}", "{% endfilter %}"),
        ("set block", "{% set s %}", "{% endset %}"),
        ("nothing", "", ""),
    ];
    let defs = "{% component w() %}[{{ body }}]{% endcomponent w %}";
    let mut first = None;
    for (oname, oo, oc) in open_close {
        for (mname, mo, mc) in open_close {
            for (iname, io, ic) in open_close {
                for kw in ["break", "continue"] {
                    for place in ["top", "block", "component definition"] {
                        // outer capture > [middle capture >] for > inner capture > break
                        let body = format!("{oo}{mo}{{% for i in [1, 2, 3] %}}a{io}b{{% {kw} %}}c{ic}d{{% endfor %}}{mc}{oc}");
                        let src = match place {
                            "block" => format!("{{% block b %}}{body}{{% endblock b %}}"),
                            "component definition" => format!("{{% component host() %}}{body}{{% endcomponent host %}}{{{{ <host/> }}}}"),
                            _ => body.clone(),
                        };
                        let must_reject = iname != "nothing";
                        let mut tera = new_tera();
                        let r = catch(std::panic::AssertUnwindSafe(|| tera.add_raw_templates(vec![("defs.txt", defs), ("t.txt", src.as_str())])));
                        report.evaluations += 1;
                        report.oracle_checks += 1;
                        let verdict = match &r {
                            Err(p) => format!("panic {p}"),
                            Ok(Err(_)) => "rejected".to_string(),
                            Ok(Ok(())) => format!("accepted, renders {:?}", render_with(&tera, "t.txt", &Context::new())),
                        };
                        let ok = if must_reject { verdict == "rejected" } else { verdict.starts_with("accepted, renders \"ok ") };
                        report.count(if must_reject { "break.must-reject" } else { "break.must-accept" });
                        if !ok {
                            report.oracle_failures += 1;
                            if first.is_none() {
                                first = Some((
                                    format!("`{kw}` inside a {iname} opened inside the loop (loop inside: {mname} inside {oname}, at {place}): `{src}` is {verdict}; {}", if must_reject { "the jump would leave the capture open: it must be rejected at add time" } else { "the jump stays inside its capture: it must be accepted and render" }),
                                    serde_json::json!({"stream": "break", "template": src}),
                                ));
                            }
                        }
                    }
                }
            }
        }
    }
    first
}

// ------------------------------------------------------------------ stream O: one-off callers (render_str)

/// `render_str(.., autoescape)` sets the flag of the one-off template only: components it calls are
/// rendered in that mode (like for any caller), templates they include decide by their OWN suffix.
/// Oracle: the same text as a registered caller template of the same escaping mode, and the text
/// known by construction.
fn oneoff_stream(report: &mut Report) -> Option<(String, serde_json::Value)> {
    let mut first = None;
    let esc = |s: &str| s.replace('&', "&amp;").replace('<', "&lt;").replace('>', "&gt;").replace('"', "&quot;").replace('\'', "&#39;");
    let calls = [
        "{{ <outer a={d}/> }}",
        "{% set a = d %}{% <outerb a={d}> %}b:{{ d }}{% include \"part.txt\" %}{% include \"part.html\" %}{% </outerb> %}",
        "{% set a = d %}{% include \"part.txt\" %}|{% include \"part.html\" %}|{% include \"viacomp.txt\" %}|{% include \"viacomp.html\" %}",
        "{% set r = <outer a={d}/> %}{% for x in [r] %}{{ x }}{% endfor %}",
    ];
    for def_sfx in [".txt", ".html"] {
        let mut tera = new_tera();
        let mut list: Vec<(String, String)> = vec![
            (format!("defs{def_sfx}"), "{% component outer(a) %}c:{{ a }}|{% include \"part.txt\" %}|{% include \"part.html\" %}|{{ <inner a={a}/> }}{% endcomponent outer %}{% component inner(a) %}n:{{ a }}{% include \"part.txt\" %}{% include \"part.html\" %}{% endcomponent inner %}{% component outerb(a) %}[{{ body }}]{{ <inner a={a}/> }}{% endcomponent outerb %}".to_string()),
            ("part.txt".into(), "t:{{ a }}".into()),
            ("part.html".into(), "h:{{ a }}".into()),
            ("viacomp.txt".into(), "vt:{{ <inner a={a}/> }}".into()),
            ("viacomp.html".into(), "vh:{{ <inner a={a}/> }}".into()),
        ];
        for (k, c) in calls.iter().enumerate() {
            list.push((format!("main{k}.html"), c.to_string()));
            list.push((format!("main{k}.txt"), c.to_string()));
        }
        if let Err(e) = tera.add_raw_templates(list) {
            return Some((format!("one-off stream: templates do not register: {e:?}"), serde_json::json!({"stream": "oneoff"})));
        }
        for d in ["<>&\"'", "a<b", "plain"] {
            let mut ctx = Context::new();
            ctx.insert("d", d);
            for flag in [true, false] {
                let m = |s: &str| if flag { esc(s) } else { s.to_string() }; // the caller's mode
                let inner_by = |mode_on: bool| { let x = if mode_on { esc(d) } else { d.to_string() }; format!("n:{x}t:{d}h:{}", esc(d)) };
                let outer = format!("c:{}|t:{d}|h:{}|{}", m(d), esc(d), inner_by(flag));
                let wants = [
                    outer.clone(),
                    format!("[b:{}t:{d}h:{}]{}", m(d), esc(d), inner_by(flag)),
                    format!("t:{d}|h:{}|vt:{}|vh:{}", esc(d), inner_by(false), inner_by(true)),
                    outer.clone(),
                ];
                for (k, c) in calls.iter().enumerate() {
                    report.evaluations += 1;
                    report.oracle_checks += 2;
                    let one = match catch(std::panic::AssertUnwindSafe(|| tera.render_str(c, &ctx, flag))) {
                        Ok(Ok(s)) => format!("ok {s}"),
                        Ok(Err(e)) => format!("err {}", err_text(&e)),
                        Err(p) => format!("panic {p}"),
                    };
                    let reg = render_with(&tera, &format!("main{k}{}", if flag { ".html" } else { ".txt" }), &ctx);
                    let want = format!("ok {}", wants[k]);
                    if one != reg || one != want {
                        report.oracle_failures += 1;
                        if first.is_none() {
                            first = Some((
                                format!("one-off caller: render_str(`{c}`, autoescape = {flag}) with d = {d:?} (components defined in defs{def_sfx}) gives `{one}`; the registered caller main{k}{} in the same escaping mode gives `{reg}`; by construction (component in the caller's mode, every included template by its own suffix) `{want}`", if flag { ".html" } else { ".txt" }),
                                serde_json::json!({"stream": "oneoff", "call": c, "flag": flag, "data": d}),
                            ));
                        }
                    }
                }
            }
        }
    }
    first
}

// ------------------------------------------------------------------ recursion (child process)

#[derive(Clone, Debug)]
struct RecCase {
    name: &'static str,
    /// (template name, source)
    tpls: Vec<(String, String)>,
    /// model request
    req: String,
    want: String,
}

fn rec_cases() -> Vec<RecCase> {
    let mut v = Vec::new();
    v.push(RecCase {
        name: "self",
        tpls: vec![("d.txt".into(), "{% component f() %}x{{ <f/> }}{% endcomponent f %}".into()), ("main.txt".into(), "{{ <f/> }}".into())],
        req: "rec 2000 1 f 2 t c:f 0 1 c:f".into(),
        want: "err recursion".into(),
    });
    v.push(RecCase {
        name: "mutual",
        tpls: vec![
            ("d.txt".into(), "{% component f() %}{{ <g/> }}{% endcomponent f %}{% component g() %}{{ <f/> }}{% endcomponent g %}".into()),
            ("main.txt".into(), "{{ <f/> }}".into()),
        ],
        req: "rec 2000 2 f 1 c:g g 1 c:f 0 1 c:f".into(),
        want: "err recursion".into(),
    });
    v.push(RecCase {
        name: "through-include",
        tpls: vec![
            ("d.txt".into(), "{% component f() %}{% include \"t.txt\" %}{% endcomponent f %}".into()),
            ("t.txt".into(), "i{{ <f/> }}".into()),
            ("main.txt".into(), "{% include \"t.txt\" %}".into()),
        ],
        req: "rec 2000 1 f 1 i:t.txt 1 t.txt 2 t c:f 1 i:t.txt".into(),
        want: "err recursion".into(),
    });
    v.push(RecCase {
        name: "through-body-and-block",
        tpls: vec![
            ("d.txt".into(), "{% component f() %}{% <w> %}{{ <f/> }}{% </w> %}{% endcomponent f %}{% component w() %}{{ body }}{% endcomponent w %}".into()),
            ("base.txt".into(), "{% block b %}{% endblock b %}".into()),
            ("main.txt".into(), "{% extends \"base.txt\" %}{% block b %}{{ <f/> }}{% endblock b %}".into()),
        ],
        // the body `{{ <f/> }}` is evaluated by f's VM before w is called
        req: "rec 4000 2 f 2 c:f c:w w 1 t 0 1 c:f".into(),
        want: "err recursion".into(),
    });
    v.push(RecCase {
        name: "self-in-loop-and-capture",
        tpls: vec![
            ("d.txt".into(), "{% component f(n) %}{% for i in [1, 2] %}{% set c %}{{ <f n={n + 1}/> }}{% endset %}{{ c }}{% endfor %}{% endcomponent f %}".into()),
            ("main.txt".into(), "{{ <f n={0}/> }}".into()),
        ],
        req: "rec 4000 1 f 2 c:f c:f 0 1 c:f".into(),
        want: "err recursion".into(),
    });
    // chains of distinct components: exactly MAX nested renders is fine, MAX + 1 is the error
    for depth in [MAX_DEPTH - 1, MAX_DEPTH, MAX_DEPTH + 1, MAX_DEPTH + 5] {
        let mut src = String::new();
        let mut req = format!("rec 4000 {depth}");
        for i in 0..depth {
            if i + 1 < depth {
                src.push_str(&format!("{{% component f{i}() %}}{i},{{{{ <f{}/> }}}}{{% endcomponent f{i} %}}", i + 1));
                req.push_str(&format!(" f{i} 2 t c:f{}", i + 1));
            } else {
                src.push_str(&format!("{{% component f{i}() %}}{i}.{{% endcomponent f{i} %}}"));
                req.push_str(&format!(" f{i} 1 t"));
            }
        }
        req.push_str(" 0 1 c:f0");
        v.push(RecCase {
            name: if depth <= MAX_DEPTH { "chain-within-limit" } else { "chain-beyond-limit" },
            tpls: vec![("d.txt".into(), src), ("main.txt".into(), "{{ <f0/> }}".into())],
            req,
            want: if depth <= MAX_DEPTH { format!("ok {depth}") } else { "err recursion".into() },
        });
    }
    // the same chain alternating with includes: the counter is carried, not reset
    for depth in [MAX_DEPTH, MAX_DEPTH + 1] {
        let mut tpls = Vec::new();
        let mut src = String::new();
        let mut req_c = String::new();
        let mut req_t = String::new();
        for i in 0..depth {
            src.push_str(&format!("{{% component f{i}() %}}{{% include \"t{i}.txt\" %}}{{% endcomponent f{i} %}}"));
            req_c.push_str(&format!(" f{i} 1 i:t{i}.txt"));
            if i + 1 < depth {
                tpls.push((format!("t{i}.txt"), format!("{i},{{{{ <f{}/> }}}}", i + 1)));
                req_t.push_str(&format!(" t{i}.txt 2 t c:f{}", i + 1));
            } else {
                tpls.push((format!("t{i}.txt"), format!("{i}.")));
                req_t.push_str(&format!(" t{i}.txt 1 t"));
            }
        }
        tpls.push(("d.txt".into(), src));
        tpls.push(("main.txt".into(), "{{ <f0/> }}".into()));
        v.push(RecCase {
            name: if depth <= MAX_DEPTH { "include-chain-within-limit" } else { "include-chain-beyond-limit" },
            tpls,
            req: format!("rec 8000 {depth}{req_c} {depth}{req_t} 1 c:f0"),
            want: if depth <= MAX_DEPTH { format!("ok {depth}") } else { "err recursion".into() },
        });
    }
    v
}

/// conditional self recursion `f(n)` that stops at `k`: nesting depth k + 1
fn bounded_self(k: usize) -> Vec<(String, String)> {
    vec![
        ("d.txt".into(), format!("{{% component f(n) %}}{{{{ n }}}}{{% if n < {k} %}},{{{{ <f n={{n + 1}}/> }}}}{{% endif %}}{{% endcomponent f %}}")),
        ("main.txt".into(), "{{ <f n={0}/> }}".into()),
    ]
}

fn child_render(tpls: Vec<(String, String)>) -> String {
    // 2 MiB stack: what a spawned std / tokio worker thread has
    let h = std::thread::Builder::new()
        .stack_size(2 * 1024 * 1024)
        .spawn(move || {
            let mut tera = Tera::default();
            if let Err(e) = tera.add_raw_templates(tpls) {
                return format!("adderr {e:?}");
            }
            match tera.render("main.txt", &Context::new()) {
                Ok(s) => format!("ok {s}"),
                Err(e) => {
                    let mut msg = err_text(&e);
                    let mut src: Option<&dyn std::error::Error> = std::error::Error::source(&e);
                    while let Some(s) = src {
                        msg.push_str(&s.to_string());
                        src = s.source();
                    }
                    format!("err {}", classify(&msg))
                }
            }
        })
        .unwrap();
    h.join().unwrap_or_else(|_| "panic".into())
}

/// run one recursion shape in a child process; "crash <status>" when the child died, "timeout" when
/// it did not finish within a minute
fn run_in_child(arg: &str) -> String {
    use std::io::Read;
    let exe = std::env::current_exe().unwrap();
    let child = std::process::Command::new(exe)
        .arg("--child")
        .arg(arg)
        .stdout(std::process::Stdio::piped())
        .stderr(std::process::Stdio::piped())
        .spawn();
    let mut child = match child {
        Ok(c) => c,
        Err(e) => return format!("crash spawn {e}"),
    };
    let start = std::time::Instant::now();
    let status = loop {
        match child.try_wait() {
            Ok(Some(st)) => break st,
            Ok(None) => {
                if start.elapsed().as_secs() > 60 {
                    let _ = child.kill();
                    let _ = child.wait();
                    return "timeout".into();
                }
                std::thread::sleep(std::time::Duration::from_millis(10));
            }
            Err(e) => return format!("crash wait {e}"),
        }
    };
    let mut out = String::new();
    let mut err = String::new();
    if let Some(mut o) = child.stdout.take() {
        let _ = o.read_to_string(&mut out);
    }
    if let Some(mut e) = child.stderr.take() {
        let _ = e.read_to_string(&mut err);
    }
    let text = out.trim().to_string();
    if status.success() && !text.is_empty() { text } else { format!("crash {status:?} {}", err.chars().take(200).collect::<String>()) }
}

// ------------------------------------------------------------------ API equivalence

fn api_equiv(rng: &mut Rng, n: usize, report: &mut Report) -> Option<(String, serde_json::Value)> {
    let defs = default_pool();
    let vals = value_pool();
    for k in 0..n {
        let np = 1 + rng.below(2);
        let names = ["a", "b"];
        let mut params = Vec::new();
        let mut kwargs: Vec<(Key<'static>, Value)> = Vec::new();
        for name in names.iter().take(np) {
            let ty = if rng.chance(1, 2) { Some(TYPES[rng.below(TYPES.len())]) } else { None };
            let dflt = if rng.chance(1, 2) { Some(defs[rng.below(defs.len())].clone()) } else { None };
            if rng.chance(if dflt.is_some() { 1 } else { 5 }, if dflt.is_some() { 2 } else { 6 }) {
                let mut v = vals[rng.below(vals.len())].clone();
                if let Some(t) = ty.or_else(|| dflt.as_ref().and_then(|d| inferred(&d.1))) {
                    if rng.chance(4, 5) {
                        if let Some(ok) = vals.iter().find(|x| type_accepts(t, x)) {
                            v = ok.clone();
                        }
                    }
                }
                if !v.is_undefined() {
                    kwargs.push((Key::from(name.to_string()), v));
                }
            }
            params.push(Param { name: name.to_string(), ty, dflt });
        }
        if rng.chance(1, 6) {
            kwargs.push((Key::from("zextra".to_string()), Value::from("<e>")));
        }
        let def = Def { params, rest: if rng.chance(1, 2) { Some("rest".into()) } else { None } };
        let with_body = rng.chance(1, 2);
        let ae = rng.chance(1, 2);
        let body_text = ["<u>body & text</u>", "", " ", "\n", "x"][k % 5];
        let sfx = if ae { ".html" } else { ".txt" };
        // the defining template's own suffix must not matter: the caller's mode / the API flag decides,
        // also for a nested component and (through the carried override) for an include
        let def_sfx = if rng.chance(1, 2) { ".html" } else { ".txt" };
        let comp_body = format!("{{% for k, v in __tera_context %}}{{{{ k }}}}={{{{ v }}}};{{% endfor %}}|{{% if body is defined %}}B[{{{{ body }}}}]{{% else %}}NB{{% endif %}}|{{{{ \"via\" | viaupper }}}}{{{{ 7 | viadefault }}}}|{{{{ peek_a() }}}}{{% if 1 is has_a %}}T{{% else %}}F{{% endif %}}|{{{{ a | default(value=\"-\") }}}}|{{{{ <nested v={{a | default(value=\"<n>\")}}/> }}}}|{{% include \"apiinc{sfx}\" %}}");
        let comp_body = comp_body.as_str();
        let mut tera = new_tera();
        let call = if with_body { format!("{{% <comp {{...kw}}> %}}{body_text}{{% </comp> %}}") } else { "{{ <comp {...kw}/> }}".to_string() };
        if let Err(e) = tera.add_raw_templates(vec![
            (format!("defs{def_sfx}"), format!("{}{{% component nested(v) %}}n:{{{{ v }}}}{{% endcomponent nested %}}", def.source("comp", comp_body))),
            (format!("apiinc{sfx}"), "i:{{ a | default(value=\"<i>\") }}{{ <nested v=\"<lit>\"/> }}".to_string()),
            (format!("main{sfx}"), call.clone()),
        ]) {
            return Some((format!("api: add failed {e:?}"), serde_json::json!({"stream": "api"})));
        }
        let mut cctx = Context::new();
        for (k, v) in &kwargs {
            cctx.insert_value(k.as_str().unwrap().to_string(), v.clone());
        }
        let api = match catch(std::panic::AssertUnwindSafe(|| tera.render_component("comp", &cctx, if with_body { Some(body_text) } else { None }, ae))) {
            Ok(Ok(s)) => format!("ok {s}"),
            Ok(Err(e)) => format!("err {}", classify(&e.to_string())),
            Err(p) => format!("panic {p}"),
        };
        let mut tctx = Context::new();
        tctx.insert_value("kw", map_value(&kwargs));
        let tpl = render_with(&tera, &format!("main{sfx}"), &tctx);
        // also through render_str with the flag
        let rs = match catch(std::panic::AssertUnwindSafe(|| tera.render_str(&call, &tctx, ae))) {
            Ok(Ok(s)) => format!("ok {s}"),
            Ok(Err(e)) => format!("err {}", classify(&err_text(&e))),
            Err(p) => format!("panic {p}"),
        };
        report.oracle_checks += 2;
        report.evaluations += 1;
        report.count(&format!("api.{}", api.split(' ').take(if api.starts_with("err") { 2 } else { 1 }).collect::<Vec<_>>().join(".")));
        if api != tpl || api != rs {
            return Some((
                format!("api: render_component gives {api:?}, the equivalent template call {tpl:?}, through render_str {rs:?} (signature `{}`, autoescape {ae}, body {with_body})", def.signature()),
                serde_json::json!({"stream": "api", "signature": def.signature(), "kwargs": kwargs.iter().map(|(k, v)| (k.to_string(), encode(v))).collect::<Vec<_>>(), "autoescape": ae, "with_body": with_body, "case": k}),
            ));
        }
    }
    None
}

// ------------------------------------------------------------------ main

fn main() {
    quiet_panics();
    let args: Vec<String> = std::env::args().collect();
    if let Some(i) = args.iter().position(|a| a == "--child") {
        let what = args.get(i + 1).cloned().unwrap_or_default();
        let out = if let Some(k) = what.strip_prefix("bounded:") {
            child_render(bounded_self(k.parse().unwrap()))
        } else {
            match rec_cases().into_iter().nth(what.parse::<usize>().unwrap_or(usize::MAX)) {
                Some(c) => child_render(c.tpls),
                None => "bad-child-arg".into(),
            }
        };
        println!("{out}");
        return;
    }
    let env = Env::from_env();
    let mut report = Report::new("C05");
    let exe = driver::driver_path(&env.verif_dir, "drv_c05");

    if let Some(path) = replay_path() {
        let text = std::fs::read_to_string(&path).expect("replay file");
        let j: serde_json::Value = serde_json::from_str(&text).expect("replay json");
        let j = if j.get("replay").is_some() { j["replay"].clone() } else { j };
        match j["stream"].as_str() {
            Some("bind") => {
                let c = bind_from_replay(&j).expect("bind case");
                let (call, _, _, _) = call_text(&c, "comp");
                let call = format!("{:?}", place(c.site, &call));
                let o = run_bind(&c);
                println!("definition: {}\ncall: {call}\nimplementation: {}\nproperty (direct): {}\nmodel request: {}\nmodel: {:?}", c.def.source("comp", "{{ __tera_context | probe }}"), o.imp, o.spec, o.req, driver::run_batch(&exe, &[o.req.clone()]));
            }
            Some("recursion") => {
                let k = j["case"].as_u64().unwrap_or(0) as usize;
                if let Some(c) = rec_cases().into_iter().nth(k) {
                    println!("templates: {:?}\nimplementation (child, 2 MiB stack): {}\nwanted: {}\nmodel: {:?}", c.tpls, run_in_child(&k.to_string()), c.want, driver::run_batch(&exe, &[c.req.clone()]));
                } else if let Some(b) = j["bounded"].as_u64() {
                    println!("templates: {:?}\nimplementation (child, 2 MiB stack): {}", bounded_self(b as usize), run_in_child(&format!("bounded:{b}")));
                }
            }
            Some(other) => {
                // the remaining streams are deterministic in the seed: re-run them
                let mut rng = Rng::new(env.seed);
                match other {
                    "isolation" => println!("{:?}", isolation(&mut rng, 2000).1),
                    "escaping" => println!("{:?}", escaping(&mut report)),
                    "oneoff" => println!("{:?}", oneoff_stream(&mut report)),
                    "break" => println!("{:?}", break_stream(&mut report)),
                    "history" => println!("{:?}", history_stream(&mut report)),
                    "nested" => println!("{:?}", nested_capture_stream(&mut report, 3)),
                    "boundary" => println!("{:?}", boundary_stream(&mut report)),
                    "api" => println!("{:?}", api_equiv(&mut rng, 5000, &mut report)),
                    _ => println!("unknown stream"),
                }
            }
            None => println!("no stream in replay file"),
        }
        return;
    }

    let mut rng = Rng::new(env.seed);
    let threads = std::thread::available_parallelism().map(|n| n.get()).unwrap_or(8).min(16);

    // ---- stream B
    let mut cases: Vec<BindCase> = Vec::new();
    let dp = default_pool();
    let vp = value_pool();
    let none_t: Vec<Option<&'static str>> = std::iter::once(None).chain(TYPES.iter().map(|t| Some(*t))).collect();
    let all_defaults: Vec<Option<(String, Value)>> = std::iter::once(None).chain(dp.iter().cloned().map(Some)).collect();
    let all_supplied: Vec<Option<Value>> = std::iter::once(None).chain(vp.iter().cloned().map(Some)).collect();
    let mut intkey = tera::Map::new();
    intkey.insert(Key::I64(3), Value::from("dropped"));
    let no_extra: Vec<(Key<'static>, Value)> = vec![];
    let extras_full: Vec<Vec<(Key<'static>, Value)>> = vec![
        no_extra.clone(),
        vec![(Key::from("zextra".to_string()), Value::from("<e>"))],
        vec![(Key::I64(3), Value::from("int key")), (Key::Bool(true), Value::from("bool key"))],
        vec![(Key::from("zextra".to_string()), Value::from(1)), (Key::from("body".to_string()), Value::from("fake body")), (Key::U64(1), Value::none())],
    ];
    // one parameter: every type × every default × every supplied kind × rest × extras
    product(&["a"], &none_t, &all_defaults, &all_supplied, &extras_full, &mut cases);
    let n1 = cases.len();
    // two parameters (written `b, a`: the engine goes by name order): reduced lattices
    let t2: Vec<Option<&'static str>> = vec![None, Some("string"), Some("integer"), Some("number")];
    let d2: Vec<Option<(String, Value)>> = vec![None, Some(dp[0].clone()), Some(dp[1].clone()), Some(dp[4].clone())];
    let s2: Vec<Option<Value>> = vec![None, Some(vp[0].clone()), Some(vp[1].clone()), Some(vp[2].clone()), Some(vp[5].clone())];
    let e2 = vec![extras_full[0].clone(), extras_full[1].clone(), extras_full[2].clone()];
    product(&["b", "a"], &t2, &d2, &s2, &e2, &mut cases);
    let n2 = cases.len() - n1;
    // three parameters
    let t3: Vec<Option<&'static str>> = vec![None, Some("integer")];
    let d3: Vec<Option<(String, Value)>> = vec![None, Some(dp[0].clone())];
    let s3: Vec<Option<Value>> = if env.quick() { vec![None, Some(vp[1].clone()), Some(vp[0].clone())] } else { vec![None, Some(vp[1].clone()), Some(vp[0].clone()), Some(vp[5].clone()), Some(vp[4].clone())] };
    product(&["c", "a", "b"], &t3, &d3, &s3, &e2, &mut cases);
    let n3 = cases.len() - n1 - n2;
    report.count_n("bind.cases.1-param(exhaustive)", n1 as u64);
    report.count_n("bind.cases.2-params(exhaustive)", n2 as u64);
    report.count_n("bind.cases.3-params(exhaustive)", n3 as u64);

    let mut distinct: std::collections::HashSet<u64> = std::collections::HashSet::new();
    let hash_of = |s: &str| -> u64 {
        use std::hash::{Hash, Hasher};
        let mut h = std::collections::hash_map::DefaultHasher::new();
        s.hash(&mut h);
        h.finish()
    };
    let mut spec_fail: Option<(BindCase, String, String)> = None;
    let mut model_fail: Option<(BindCase, String, String)> = None;
    let mut reached = 0u64;
    let mut total_bind = 0u64;
    let mut driver_ok = true;
    let mut process = |cases: &[BindCase], report: &mut Report, sample_at: &[usize]| {
        total_bind += cases.len() as u64;
        let chunk = cases.len().div_ceil(threads).max(1);
        let outs: Vec<BindOutcome> = std::thread::scope(|s| {
            let hs: Vec<_> = cases.chunks(chunk).map(|cs| s.spawn(move || cs.iter().map(run_bind).collect::<Vec<_>>())).collect();
            hs.into_iter().flat_map(|h| h.join().unwrap()).collect()
        });
        let reqs: Vec<String> = outs.iter().map(|o| o.req.clone()).collect();
        let model = if !driver_ok { Vec::new() } else {
            match driver::run_batch_parallel(&exe, &reqs, threads) {
                Ok(m) => m,
                Err(e) => {
                    driver_ok = false;
                    report.violation("model-mismatch", format!("model driver could not be run: {e}"), serde_json::json!({"detail": {"stage": "driver"}}));
                    Vec::new()
                }
            }
        };
        for (i, o) in outs.iter().enumerate() {
            report.evaluations += 1;
            let class = o.imp.split(' ').take(if o.imp.starts_with("err") { 2 } else { 1 }).collect::<Vec<_>>().join(".");
            report.count(&format!("bind.outcome.{class}"));
            report.count(&format!("bind.style.{}", ["spread", "explicit+string+shorthand", "spread/explicit/spread overrides", "duplicate explicit attribute"][cases[i].style as usize % 4]));
            report.count(&format!("bind.site.{}", ["top", "include", "child-block", "component-body", "loop", "set-block", "filter-section", "block>loop>include"][cases[i].site as usize % 8]));
            report.count(&format!("bind.params.{}", cases[i].def.params.len()));
            if !o.imp.starts_with("adderr") && !o.imp.starts_with("panic") {
                reached += 1;
                if distinct.insert(hash_of(&o.req)) {
                    report.distinct_nontrivial += 1;
                }
            }
            report.oracle_checks += 1;
            if !o.spec_ok {
                report.oracle_failures += 1;
                if spec_fail.is_none() {
                    spec_fail = Some((cases[i].clone(), o.imp.clone(), o.spec.clone()));
                }
            }
            if !model.is_empty() {
                report.model_comparisons += 1;
                if model[i] != o.imp {
                    report.model_disagreements += 1;
                    if model_fail.is_none() {
                        model_fail = Some((cases[i].clone(), o.imp.clone(), model[i].clone()));
                    }
                }
            }
        }
        for &i in sample_at {
            if i < cases.len() {
                let (call, _, _, _) = call_text(&cases[i], "comp");
                report.sample(serde_json::json!({"definition": cases[i].def.signature(), "call": call, "kwargs": encode(&map_value(&cases[i].kwargs)), "implementation": outs[i].imp, "model": model.get(i)}));
            }
        }
    };
    process(&cases, &mut report, &[0, n1 / 2, n1 + n2 / 2, n1 + n2 + n3 / 2]);
    drop(cases);

    // random: up to 4 parameters over the full lattices
    let n_random = env.budget(20_000, 12_000_000);
    report.count_n("bind.cases.random", n_random as u64);
    let mut left = n_random;
    while left > 0 {
        let take = left.min(250_000);
        left -= take;
        let mut batch: Vec<BindCase> = Vec::with_capacity(take);
        for _ in 0..take {
            let np = rng.below(5);
            let names = ["p", "a", "z", "m"];
            let mut params = Vec::new();
            let mut kwargs = Vec::new();
            for name in names.iter().take(np) {
                let ty = if rng.chance(1, 2) { Some(TYPES[rng.below(TYPES.len())]) } else { None };
                let dflt = if rng.chance(1, 2) { Some(dp[rng.below(dp.len())].clone()) } else { None };
                if rng.chance(3, 4) {
                    // mostly type-correct supplies
                    let mut v = vp[rng.below(vp.len())].clone();
                    if let Some(t) = ty.or_else(|| dflt.as_ref().and_then(|d| inferred(&d.1))) {
                        if rng.chance(3, 4) {
                            if let Some(ok) = vp.iter().find(|x| type_accepts(t, x)) {
                                v = ok.clone();
                            }
                        }
                    }
                    kwargs.push((Key::from(name.to_string()), v));
                }
                params.push(Param { name: name.to_string(), ty, dflt });
            }
            let rest = if rng.chance(1, 2) { Some("rest".to_string()) } else { None };
            if rng.chance(1, 3) {
                kwargs.extend(extras_full[1 + rng.below(3)].iter().cloned());
            }
            // shuffle the kwargs order
            for i in (1..kwargs.len()).rev() {
                kwargs.swap(i, rng.below(i + 1));
            }
            batch.push(BindCase { def: Def { params, rest }, kwargs, with_body: rng.chance(1, 3), style: rng.below(4) as u8, site: rng.below(8) as u8 });
        }
        process(&batch, &mut report, &[take - 1]);
    }
    drop(process);
    report.count_n("bind.reached-build_context", reached);
    if let Some((c, imp, spec)) = &spec_fail {
        report.violation(
            "property",
            format!("binding: `{}` called with {} gives `{imp}`, the binding rules give `{spec}`", c.def.signature(), encode(&map_value(&c.kwargs))),
            bind_replay(c),
        );
    } else if let Some((c, imp, m)) = &model_fail {
        let mut r = bind_replay(c);
        r["detail"] = serde_json::json!({"stage": "correspondence:build_context", "model": m, "implementation": imp});
        report.violation("model-mismatch", format!("build_context model `{m}` vs implementation `{imp}` for `{}`", c.def.signature()), r);
    }

    // ---- stream I
    let (checks, fail) = isolation(&mut rng, env.budget(1500, 150_000));
    report.oracle_checks += checks;
    report.evaluations += checks;
    report.count_n("isolation.renders", checks);
    if let Some((msg, r)) = fail {
        report.oracle_failures += 1;
        report.violation("property", msg, r);
    }

    // ---- stream E
    if let Some((msg, r)) = escaping(&mut report) {
        report.oracle_failures += 1;
        report.violation("property", msg, r);
    }

    // ---- stream O: one-off callers
    if let Some((msg, r)) = oneoff_stream(&mut report) {
        report.violation("property", msg, r);
    }

    // ---- stream B: break / continue must not leave a capture opened inside the loop
    if let Some((msg, r)) = break_stream(&mut report) {
        report.violation("property", msg, r);
    }

    // ---- stream H: the registry after a rejected add equals the one before
    if let Some((msg, r)) = history_stream(&mut report) {
        report.violation("property", msg, r);
    }

    // ---- stream N: captures nested around includes / calls / blocks
    if let Some((msg, r)) = nested_capture_stream(&mut report, env.budget(3, 4)) {
        report.violation("property", msg, r);
    }

    // ---- stream X: results kept in variables across autoescape boundaries
    if let Some((msg, r)) = boundary_stream(&mut report) {
        report.violation("property", msg, r);
    }

    // ---- stream P
    {
        let names = ["btn.html", "a/btn.html", "b/btn.html", "a/x/btn.html", "b/y.html", "c.html", "a/z.html", "a0.html"];
        let prefix_sets: Vec<Vec<String>> = vec![
            vec![],
            vec!["a/".into()],
            vec!["a/".into(), "b/".into()],
            vec!["b/".into(), "a/".into()],
            vec!["a/x/".into(), "a/".into(), "b/".into()],
            vec!["a/".into(), "a/x/".into()],
            vec!["".into()],
            vec!["b/".into(), "".into()],
        ];
        let mut pc = Vec::new();
        for ps in &prefix_sets {
            // every subset of the 7 templates defining Btn
            for mask in 1u32..(1 << names.len()) {
                if env.quick() && mask.count_ones() > 4 {
                    continue;
                }
                let tpls: Vec<(String, bool)> = names.iter().enumerate().map(|(i, n)| (n.to_string(), mask >> i & 1 == 1)).collect();
                pc.push(PrioCase { prefixes: ps.clone(), tpls });
            }
        }
        let results: Vec<(String, String, Vec<(String, String, String)>)> = pc.iter().map(run_prio).collect();
        let reqs: Vec<String> = results.iter().map(|r| r.1.clone()).collect();
        let model = driver::run_batch_parallel(&exe, &reqs, threads).unwrap_or_default();
        let mut order_dependent = 0u64;
        for (i, (imp, _, sites)) in results.iter().enumerate() {
            // the same definition is used wherever the call is made from
            for (site, got, want) in sites {
                report.oracle_checks += 1;
                report.count("priority.call-sites");
                if got != want {
                    report.oracle_failures += 1;
                    let tag = if site.starts_with("render_str with an inline") { "priority call site (one-off template redefining the name; the engine consults the registered table first)" } else { "priority call site" };
                    if report.violations.iter().all(|v| !v.summary.starts_with(&format!("{tag}:"))) {
                        report.violation(
                            "property",
                            format!("{tag}: prefixes {:?}, definitions in {:?}: the call made from {site} gives `{got}`, the highest-priority definition gives `{want}`", pc[i].prefixes, pc[i].tpls.iter().filter(|t| t.1).map(|t| &t.0).collect::<Vec<_>>()),
                            serde_json::json!({"stream": "priority", "request": reqs[i], "site": site}),
                        );
                    }
                }
            }
            report.evaluations += 1;
            report.count(&format!("priority.{}", imp.split(' ').take(if imp.starts_with("err") { 2 } else { 1 }).collect::<Vec<_>>().join(".")));
            if distinct.insert(hash_of(&reqs[i])) {
                report.distinct_nontrivial += 1;
            }
            // model: "ok Btn=<tpl>@<p>"
            if let Some(m) = model.get(i) {
                report.model_comparisons += 1;
                let m_cmp = match m.strip_prefix("ok Btn=") {
                    Some(r) => format!("ok {}", r.split('@').next().unwrap_or("")),
                    None => m.clone(),
                };
                if &m_cmp != imp {
                    report.model_disagreements += 1;
                    if report.violations.iter().all(|v| v.kind != "model-mismatch") {
                        report.violation("model-mismatch", format!("component table: model `{m}` vs implementation `{imp}` for `{}`", reqs[i]), serde_json::json!({"detail": {"stage": "correspondence:component-table"}, "stream": "priority", "request": reqs[i]}));
                    }
                }
            }
            report.oracle_checks += 1;
            let want = spec_prio(&pc[i]).unwrap();
            if &want != imp {
                // a duplicate at a *non-minimal* priority is reported by the engine only when the
                // sorted-name loop meets it before the better definition: the property does not
                // speak about it (the highest-priority definition is still the one used)
                if imp == "err duplicate" && want.starts_with("ok") {
                    order_dependent += 1;
                } else {
                    report.oracle_failures += 1;
                    if report.violations.iter().all(|v| v.kind != "property") {
                        report.violation("property", format!("priority: prefixes {:?}, definitions in {:?}: engine `{imp}`, highest priority gives `{want}`", pc[i].prefixes, pc[i].tpls.iter().filter(|t| t.1).map(|t| &t.0).collect::<Vec<_>>()), serde_json::json!({"stream": "priority", "request": reqs[i]}));
                    }
                }
            }
        }
        report.count_n("priority.rejected-for-a-duplicate-below-the-best-definition", order_dependent);
    }

    // ---- stream R (child processes)
    {
        let cases = rec_cases();
        let reqs: Vec<String> = cases.iter().map(|c| c.req.clone()).collect();
        let model = driver::run_batch(&exe, &reqs).unwrap_or_default();
        let imps: Vec<String> = std::thread::scope(|s| {
            let hs: Vec<_> = (0..cases.len()).map(|k| s.spawn(move || run_in_child(&k.to_string()))).collect();
            hs.into_iter().map(|h| h.join().unwrap()).collect()
        });
        for (k, c) in cases.iter().enumerate() {
            report.evaluations += 1;
            report.oracle_checks += 1;
            let imp = &imps[k];
            report.count(&format!("recursion.{}.{}", c.name, imp.split(' ').take(if imp.starts_with("err") { 2 } else { 1 }).collect::<Vec<_>>().join(".")));
            let imp_cmp = if imp.starts_with("ok ") { format!("ok {}", imp.matches(|ch| ch == ',' || ch == '.').count()) } else { imp.clone() };
            if imp_cmp != c.want {
                report.oracle_failures += 1;
                report.violation("property", format!("recursion `{}`: implementation `{imp}` (child process, 2 MiB stack), wanted `{}`", c.name, c.want), serde_json::json!({"stream": "recursion", "case": k}));
            }
            if let Some(m) = model.get(k) {
                report.model_comparisons += 1;
                let m_cmp = if m.starts_with("err recursion") { "err recursion".to_string() } else { m.clone() };
                if m_cmp != imp_cmp {
                    report.model_disagreements += 1;
                    report.violation("model-mismatch", format!("recursion `{}`: model `{m}` vs implementation `{imp}`", c.name), serde_json::json!({"detail": {"stage": "correspondence:recursion-depth"}, "stream": "recursion", "case": k}));
                }
            }
        }
        // conditional self recursion: nesting k + 1 — the boundary is exactly the limit
        for k in [0usize, 5, MAX_DEPTH - 2, MAX_DEPTH - 1, MAX_DEPTH, MAX_DEPTH + 1, 50] {
            let imp = run_in_child(&format!("bounded:{k}"));
            report.evaluations += 1;
            report.oracle_checks += 1;
            let ok = if k + 1 <= MAX_DEPTH { imp == format!("ok {}", (0..=k).map(|i| i.to_string()).collect::<Vec<_>>().join(",")) } else { imp == "err recursion" };
            report.count(&format!("recursion.bounded.{}", imp.split(' ').take(if imp.starts_with("err") { 2 } else { 1 }).collect::<Vec<_>>().join(".")));
            if !ok {
                report.oracle_failures += 1;
                report.violation("property", format!("recursion: f(n) nesting {} deep gives `{imp}` (limit {MAX_DEPTH})", k + 1), serde_json::json!({"stream": "recursion", "bounded": k}));
            }
        }
    }

    // ---- stream A
    if let Some((msg, r)) = api_equiv(&mut rng, env.budget(3000, 500_000), &mut report) {
        report.oracle_failures += 1;
        report.violation("property", msg, r);
    }

    report.exhaustive = true;
    report.notes.push(format!(
        "exhaustive: 1 parameter over 9 type annotations × 8 defaults × 13 supplies × rest × 4 extras ({n1}); 2 parameters over 4×4×5 each × rest × 3 extras ({n2}); 3 parameters over 2×2×{} each × rest × 3 extras ({n3}); every subset (≤ 4 in quick) of 8 templates defining the component under 8 fallback-prefix lists; {reached} of {} binding cases reached build_context ({:.1} %)",
        s3.len(), total_bind, 100.0 * reached as f64 / total_bind.max(1) as f64
    ));
    report.notes.push("observation (not counted as a violation): a default that does not match the declared type of its parameter is accepted at definition time and bound as is (`c(a: integer = \"x\")` called without `a` binds the string); the binding rules used as oracle follow the engine here".into());
    report.notes.push("observation: arguments arriving through a spread under a bool / integer key are silently dropped (theorem C05_nonstring_keys_dropped); a second definition of a component below the best priority is rejected or ignored depending on the sorted-name order finalize meets it in (counted in the histogram)".into());
    report.rule = "a binding case is a (signature, kwargs map, body?, call syntax) tuple whose templates register; non-trivial when the call reaches build_context (bound or one of the three errors); distinct by the model request (signature, kwargs, body)".into();
    report.write(&out_path());
}
