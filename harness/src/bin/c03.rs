//! C03 — control flow, scoping, captures, includes (and, as extra coverage, the evaluation rules of
//! C02).  The harness itself is the shared module `tera_verif_harness::evalh` (also used by
//! `c02e`, which runs the evaluation-rule streams under property C02).
fn main() {
    tera_verif_harness::evalh::run("C03");
}
