//! COPY of the program generator of harness/src/evalh.rs (the C03 / C02e harness): `Ex`, `St`, the
//! pretty printer, `Case`, the value / context generators and `gen_program`.  Everything in
//! evalh.rs is private to that module, so the sections "program trees", "a case" (up to
//! `autoescapes`) and "generators" (up to `gen_program`) are copied verbatim instead of being
//! called; only the `use` lines and the visibility of the items cvm needs were changed.
#![allow(dead_code)]
use std::collections::BTreeMap;
use tera::Value;
use tera_verif_harness::rng::Rng;

// ------------------------------------------------------------------ program trees

#[derive(Clone, Debug, PartialEq)]
pub enum Ex {
    /// source text of an atom (literal, variable, `loop.index`)
    Atom(String),
    Bin(&'static str, Box<Ex>, Box<Ex>),
    Un(&'static str, Box<Ex>),
    Attr(Box<Ex>, String, bool),
    Index(Box<Ex>, Box<Ex>, bool),
    Slice(Box<Ex>, Option<Box<Ex>>, Option<Box<Ex>>, Option<Box<Ex>>, bool),
    Filter(Box<Ex>, String, Vec<(String, Ex)>),
    Test(Box<Ex>, String, bool),
    Call(String, Vec<(String, Ex)>),
    Ternary(Box<Ex>, Box<Ex>, Box<Ex>),
    Array(Vec<(bool, Ex)>),
    MapLit(Vec<(String, Ex)>),
    Compr(Box<Ex>, String, Box<Ex>, Option<Box<Ex>>),
}

#[derive(Clone, Debug, PartialEq)]
pub enum St {
    Text(String),
    Print(Ex),
    Set(String, Ex, bool),
    SetBlock(String, Vec<String>, Vec<St>, bool),
    If(Vec<(Ex, Vec<St>)>, Option<Vec<St>>),
    For(Option<String>, String, Ex, Vec<St>, Vec<St>),
    Break,
    Continue,
    Include(String),
    FilterSection(String, Vec<St>),
}

fn b(e: Ex) -> Box<Ex> {
    Box::new(e)
}
/// `?.` / `?[` are only accepted after a name or another postfix access
fn postfix_base(e: &Ex) -> bool {
    match e {
        Ex::Atom(a) => a.chars().next().is_some_and(|c| c.is_ascii_alphabetic()) && !matches!(a.as_str(), "none" | "true" | "false"),
        Ex::Attr(x, ..) | Ex::Index(x, ..) | Ex::Slice(x, ..) => postfix_base(x),
        _ => false,
    }
}
/// the parser rejects a unary operation as the right operand of `~` (also through parentheses,
/// and `not in` / `is not` are unary `not`s)
fn concat_rhs(e: Ex) -> Ex {
    match &e {
        Ex::Un(..) => Ex::Filter(b(e), "str".into(), vec![]),
        Ex::Bin(op, ..) if *op == "not in" => Ex::Filter(b(e), "str".into(), vec![]),
        Ex::Test(_, _, true) => Ex::Filter(b(e), "str".into(), vec![]),
        _ => e,
    }
}
/// normalise a generated expression so that the parser accepts it
fn legal(e: Ex) -> Ex {
    match e {
        Ex::Attr(x, n, o) => { let x = legal(*x); let o = o && postfix_base(&x); Ex::Attr(b(x), n, o) }
        Ex::Index(x, i, o) => { let x = legal(*x); let o = o && postfix_base(&x); Ex::Index(b(x), b(legal(*i)), o) }
        Ex::Slice(x, a, c, d, o) => { let x = legal(*x); let o = o && postfix_base(&x); Ex::Slice(b(x), a.map(|e| b(legal(*e))), c.map(|e| b(legal(*e))), d.map(|e| b(legal(*e))), o) }
        Ex::Bin(op, l, r) => { let r = legal(*r); Ex::Bin(op, b(legal(*l)), b(if op == "~" { concat_rhs(r) } else { r })) }
        Ex::Un(op, x) => Ex::Un(op, b(legal(*x))),
        Ex::Test(x, n, o) => Ex::Test(b(legal(*x)), n, o),
        Ex::Filter(x, n, kw) => Ex::Filter(b(legal(*x)), n, kw.into_iter().map(|(k, e)| (k, legal(e))).collect()),
        Ex::Call(n, kw) => Ex::Call(n, kw.into_iter().map(|(k, e)| (k, legal(e))).collect()),
        Ex::Ternary(c, t, f) => Ex::Ternary(b(legal(*c)), b(legal(*t)), b(legal(*f))),
        Ex::Array(items) => Ex::Array(items.into_iter().map(|(s, e)| (s, legal(e))).collect()),
        Ex::MapLit(items) => Ex::MapLit(items.into_iter().map(|(k, e)| (k, legal(e))).collect()),
        Ex::Compr(bd, v, t, c) => Ex::Compr(b(legal(*bd)), v, b(legal(*t)), c.map(|e| b(legal(*e)))),
        a => a,
    }
}
fn atom(s: &str) -> Ex {
    Ex::Atom(s.to_string())
}
fn str_lit(s: &str) -> Ex {
    // only characters that need no escaping in a template string literal are generated
    Ex::Atom(format!("\"{s}\""))
}

fn kwargs_src(kw: &[(String, Ex)]) -> String {
    kw.iter().map(|(k, v)| format!("{k}={}", ex_src(v))).collect::<Vec<_>>().join(", ")
}

fn ex_src(e: &Ex) -> String {
    match e {
        Ex::Atom(s) => s.clone(),
        Ex::Bin(op, l, r) => format!("({} {op} {})", ex_src(l), ex_src(r)),
        Ex::Un(op, x) => format!("({op} {})", ex_src(x)),
        Ex::Attr(x, n, opt) => format!("{}{}{n}", ex_src(x), if *opt { "?." } else { "." }),
        Ex::Index(x, i, opt) => format!("{}{}{}]", ex_src(x), if *opt { "?[" } else { "[" }, ex_src(i)),
        Ex::Slice(x, a, bb, c, opt) => {
            let p = |o: &Option<Box<Ex>>| o.as_ref().map(|e| ex_src(e)).unwrap_or_default();
            let mut s = format!("{}{}{}:{}", ex_src(x), if *opt { "?[" } else { "[" }, p(a), p(bb));
            if c.is_some() {
                s.push(':');
                s.push_str(&p(c));
            }
            s.push(']');
            s
        }
        Ex::Filter(x, n, kw) => {
            if kw.is_empty() {
                format!("({} | {n})", ex_src(x))
            } else {
                format!("({} | {n}({}))", ex_src(x), kwargs_src(kw))
            }
        }
        Ex::Test(x, n, neg) => format!("({} is {}{n})", ex_src(x), if *neg { "not " } else { "" }),
        Ex::Call(n, kw) => format!("{n}({})", kwargs_src(kw)),
        Ex::Ternary(c, t, f) => format!("({} if {} else {})", ex_src(t), ex_src(c), ex_src(f)),
        Ex::Array(items) => format!(
            "[{}]",
            items.iter().map(|(sp, e)| format!("{}{}", if *sp { "..." } else { "" }, ex_src(e))).collect::<Vec<_>>().join(", ")
        ),
        Ex::MapLit(items) => format!(
            "{{ {} }}",
            items.iter().map(|(k, e)| if k == "..." { format!("...{}", ex_src(e)) } else { format!("\"{k}\": {}", ex_src(e)) }).collect::<Vec<_>>().join(", ")
        ),
        Ex::Compr(body, var, target, cond) => match cond {
            Some(c) => format!("[{} for {var} in {} if {}]", ex_src(body), ex_src(target), ex_src(c)),
            None => format!("[{} for {var} in {}]", ex_src(body), ex_src(target)),
        },
    }
}

fn stmts_src(ss: &[St], out: &mut String) {
    for s in ss {
        match s {
            St::Text(t) => out.push_str(t),
            St::Print(e) => out.push_str(&format!("{{{{ {} }}}}", ex_src(e))),
            St::Set(n, e, g) => out.push_str(&format!("{{% {} {n} = {} %}}", if *g { "set_global" } else { "set" }, ex_src(e))),
            St::SetBlock(n, filters, body, g) => {
                let f: String = filters.iter().map(|f| format!(" | {f}")).collect();
                out.push_str(&format!("{{% {} {n}{f} %}}", if *g { "set_global" } else { "set" }));
                stmts_src(body, out);
                out.push_str("{% endset %}");
            }
            St::If(branches, els) => {
                for (i, (c, body)) in branches.iter().enumerate() {
                    out.push_str(&format!("{{% {} {} %}}", if i == 0 { "if" } else { "elif" }, ex_src(c)));
                    stmts_src(body, out);
                }
                if let Some(e) = els {
                    out.push_str("{% else %}");
                    stmts_src(e, out);
                }
                out.push_str("{% endif %}");
            }
            St::For(k, v, target, body, els) => {
                match k {
                    Some(k) => out.push_str(&format!("{{% for {k}, {v} in {} %}}", ex_src(target))),
                    None => out.push_str(&format!("{{% for {v} in {} %}}", ex_src(target))),
                }
                stmts_src(body, out);
                if !els.is_empty() {
                    out.push_str("{% else %}");
                    stmts_src(els, out);
                }
                out.push_str("{% endfor %}");
            }
            St::Break => out.push_str("{% break %}"),
            St::Continue => out.push_str("{% continue %}"),
            St::Include(n) => out.push_str(&format!("{{% include \"{n}\" %}}")),
            St::FilterSection(f, body) => {
                out.push_str(&format!("{{% filter {f} %}}"));
                stmts_src(body, out);
                out.push_str("{% endfilter %}");
            }
        }
    }
}

fn src_of(ss: &[St]) -> String {
    let mut s = String::new();
    stmts_src(ss, &mut s);
    s
}

/// number of statements and expression nodes (size measure for the histogram and the shrinker)
fn ex_size(e: &Ex) -> usize {
    1 + match e {
        Ex::Atom(_) => 0,
        Ex::Bin(_, l, r) => ex_size(l) + ex_size(r),
        Ex::Un(_, x) | Ex::Attr(x, _, _) | Ex::Test(x, _, _) => ex_size(x),
        Ex::Index(x, i, _) => ex_size(x) + ex_size(i),
        Ex::Slice(x, a, bb, c, _) => ex_size(x) + [a, bb, c].iter().map(|o| o.as_ref().map(|e| ex_size(e)).unwrap_or(0)).sum::<usize>(),
        Ex::Filter(x, _, kw) => ex_size(x) + kw.iter().map(|(_, e)| ex_size(e)).sum::<usize>(),
        Ex::Call(_, kw) => kw.iter().map(|(_, e)| ex_size(e)).sum::<usize>(),
        Ex::Ternary(c, t, f) => ex_size(c) + ex_size(t) + ex_size(f),
        Ex::Array(items) => items.iter().map(|(_, e)| ex_size(e)).sum::<usize>(),
        Ex::MapLit(items) => items.iter().map(|(_, e)| ex_size(e)).sum::<usize>(),
        Ex::Compr(bd, _, t, c) => ex_size(bd) + ex_size(t) + c.as_ref().map(|e| ex_size(e)).unwrap_or(0),
    }
}
fn stmts_size(ss: &[St]) -> usize {
    ss.iter()
        .map(|s| {
            1 + match s {
                St::Text(_) | St::Break | St::Continue | St::Include(_) => 0,
                St::Print(e) => ex_size(e),
                St::Set(_, e, _) => ex_size(e),
                St::SetBlock(_, _, body, _) | St::FilterSection(_, body) => stmts_size(body),
                St::If(br, els) => br.iter().map(|(c, bd)| ex_size(c) + stmts_size(bd)).sum::<usize>() + els.as_ref().map(|e| stmts_size(e)).unwrap_or(0),
                St::For(_, _, t, body, els) => ex_size(t) + stmts_size(body) + stmts_size(els),
            }
        })
        .sum()
}

// ------------------------------------------------------------------ a case

#[derive(Clone, Debug)]
pub struct Case {
    /// (name, body); the first one is rendered
    pub templates: Vec<(String, Vec<St>)>,
    pub ctx: Vec<(String, Value)>,
    pub global: Vec<(String, Value)>,
    /// stream the case came from (histogram / replay)
    pub stream: String,
}

impl Case {
    pub fn sources(&self) -> Vec<(String, String)> {
        self.templates.iter().map(|(n, b)| (n.clone(), src_of(b))).collect()
    }
    fn size(&self) -> usize {
        self.templates.iter().map(|(_, b)| stmts_size(b)).sum()
    }
}

fn autoescapes(name: &str) -> bool {
    name.ends_with(".html") || name.ends_with(".htm") || name.ends_with(".xml")
}

// ------------------------------------------------------------------ generators

#[derive(Clone, Copy, PartialEq, Eq, Debug)]
pub enum K {
    Int,
    Float,
    Str,
    Bool,
    ArrInt,
    ArrStr,
    Map,
    Bytes,
    NoneK,
    Undef,
}
pub const ALL_K: [K; 10] = [K::Int, K::Float, K::Str, K::Bool, K::ArrInt, K::ArrStr, K::Map, K::Bytes, K::NoneK, K::Undef];

const STR_ALPHABET: [&str; 20] = ["a", "b", "Z", "q", "0", "7", " ", " ", "<", "&", "\"", "'", "日", "本", "🦀", "€", "x", "y", "\n", "-"];
/// characters allowed inside a template string literal (no quote, no backslash)
const LIT_ALPHABET: [&str; 14] = ["a", "b", "Z", "q", "0", "7", " ", "<", "&", "日", "🦀", "x", "'", "-"];
const MAP_KEYS: [&str; 5] = ["a", "b", "k1", "zip", "name"];
const POOL: [&str; 4] = ["p0", "p1", "p2", "p3"];

fn gen_string(rng: &mut Rng, alphabet: &[&str]) -> String {
    let n = if rng.chance(1, 8) { 0 } else { rng.below(6) + 1 };
    (0..n).map(|_| *rng.pick(alphabet)).collect()
}

fn gen_int_value(rng: &mut Rng) -> Value {
    match rng.below(20) {
        0 => Value::from(i64::MAX),
        1 => Value::from(u64::MAX),
        2 => Value::from(i128::MIN),
        3 => Value::from(u128::MAX),
        4 => Value::from(0u64),
        5 => Value::from(rng.range(-1000, 1000) as i128),
        6..=12 => Value::from(rng.range(-3, 12)),
        _ => Value::from(rng.below(9) as u64),
    }
}

fn gen_float_value(rng: &mut Rng) -> Value {
    const FS: [f64; 17] = [0.5, 1.5, -2.25, 0.1, 3.0, 1e20, 1e-7, 0.0, -0.0, 2.0, 123456.789, 1e16, 1e-17, -2e-16, 1e-300, 5e-324, 2.220446049250313e-16];
    match rng.below(24) {
        0 => Value::from(f64::NAN),
        1 => Value::from(f64::INFINITY),
        2 => Value::from(f64::from_bits(rng.next_u64())),
        _ => Value::from(*rng.pick(&FS)),
    }
}

pub fn gen_value(rng: &mut Rng, k: K) -> Value {
    match k {
        K::Int => gen_int_value(rng),
        K::Float => gen_float_value(rng),
        K::Str => {
            let s = gen_string(rng, &STR_ALPHABET);
            if rng.chance(1, 6) { Value::safe_string(&s) } else { Value::from(s) }
        }
        K::Bool => Value::from(rng.chance(1, 2)),
        K::ArrInt => {
            let n = if rng.chance(1, 6) { 0 } else { rng.below(4) + 1 };
            Value::from((0..n).map(|_| Value::from(rng.range(0, 6))).collect::<Vec<_>>())
        }
        K::ArrStr => {
            let n = if rng.chance(1, 6) { 0 } else { rng.below(3) + 1 };
            Value::from((0..n).map(|_| Value::from(gen_string(rng, &STR_ALPHABET))).collect::<Vec<_>>())
        }
        K::Map => {
            let mut m = tera::Map::new();
            let n = if rng.chance(1, 6) { 0 } else { rng.below(4) + 1 };
            for _ in 0..n {
                if rng.chance(1, 6) {
                    m.insert(tera::value::Key::I64(rng.range(-2, 5)), Value::from(rng.range(0, 9)));
                } else {
                    m.insert(tera::value::Key::from(rng.pick(&MAP_KEYS).to_string()), if rng.chance(1, 4) { Value::from(gen_string(rng, &STR_ALPHABET)) } else { Value::from(rng.range(0, 9)) });
                }
            }
            Value::from(m)
        }
        K::Bytes => {
            let n = rng.below(5);
            let bs: Vec<u8> = (0..n).map(|_| *rng.pick(&[0x41u8, 0x62, 0xe6, 0x97, 0xa5, 0xff, 0xc2, 0x28, 0xf0, 0x9f])).collect();
            Value::bytes(bs)
        }
        K::NoneK => Value::none(),
        K::Undef => Value::undefined(),
    }
}

/// names of the generated contexts and the kind a directed context binds them to
const CTX_VARS: [(&str, K); 14] = [
    ("i", K::Int),
    ("j", K::Int),
    ("f", K::Float),
    ("s", K::Str),
    ("t", K::Str),
    ("b", K::Bool),
    ("c", K::Bool),
    ("xs", K::ArrInt),
    ("ys", K::ArrStr),
    ("m", K::Map),
    ("by", K::Bytes),
    ("n", K::NoneK),
    ("g", K::Str),   // only in the global context
    ("gi", K::Int),  // only in the global context
];
const UNBOUND: [&str; 2] = ["u", "w"];

pub fn gen_contexts(rng: &mut Rng, adversarial: bool) -> (Vec<(String, Value)>, Vec<(String, Value)>) {
    let mut ctx = Vec::new();
    let mut global = Vec::new();
    for (name, k) in CTX_VARS.iter() {
        let kind = if adversarial && rng.chance(1, 3) { *rng.pick(&ALL_K) } else { *k };
        let v = gen_value(rng, kind);
        if *name == "g" || *name == "gi" {
            global.push((name.to_string(), v));
        } else {
            if adversarial && rng.chance(1, 8) {
                continue; // left unbound
            }
            ctx.push((name.to_string(), v));
            // shadowing between context and global context
            if rng.chance(1, 5) {
                global.push((name.to_string(), gen_value(rng, *k)));
            }
        }
    }
    // a nested map for `user.name`, `user.zip` (missing), `user.tags`
    let mut user = tera::Map::new();
    user.insert("name".into(), Value::from(gen_string(rng, &STR_ALPHABET)));
    user.insert("age".into(), Value::from(rng.range(0, 99)));
    user.insert("tags".into(), gen_value(rng, K::ArrStr));
    if rng.chance(1, 4) {
        user.insert("nick".into(), Value::undefined());
    }
    ctx.push(("user".into(), Value::from(user)));
    // pool names sometimes pre-exist in a context (shadowed later by assignments)
    for p in POOL.iter() {
        if rng.chance(1, 6) {
            let k = *rng.pick(&[K::Int, K::Str]);
            ctx.push((p.to_string(), gen_value(rng, k)));
        } else if rng.chance(1, 10) {
            let k = *rng.pick(&[K::Int, K::Str]);
            global.push((p.to_string(), gen_value(rng, k)));
        }
    }
    (ctx, global)
}

/// names the generator assigns to (pool names, shadowed context names, loop variables)
fn is_assignable(n: &str) -> bool {
    POOL.contains(&n) || matches!(n, "s" | "i" | "g") || ((n.starts_with('x') || n.starts_with('k') || n.starts_with('e')) && n.len() == 2 && n.as_bytes()[1].is_ascii_digit())
}

/// A render-wide assignment inside a loop whose value reads an assigned name can carry a growing
/// value from one iteration to the next (exponential work in the nesting depth): such programs are
/// not generated, and a non-returning render of one (e.g. a shrink variant) is not a verdict
fn has_growth_carrier(ss: &[St], in_loop: bool) -> bool {
    ss.iter().any(|s| match s {
        St::Set(_, e, true) if in_loop => ["p0", "p1", "p2", "p3", "s", "i", "g", "x0", "x1", "x2", "x3", "k0", "k1", "k2", "cap"].iter().any(|n| ex_mentions(e, n)),
        St::SetBlock(_, _, _, true) if in_loop => true,
        St::SetBlock(_, _, b, _) | St::FilterSection(_, b) => has_growth_carrier(b, in_loop),
        St::If(br, els) => br.iter().any(|(_, bd)| has_growth_carrier(bd, in_loop)) || els.as_ref().is_some_and(|e| has_growth_carrier(e, in_loop)),
        St::For(_, _, _, b, e) => has_growth_carrier(b, true) || has_growth_carrier(e, in_loop),
        _ => false,
    })
}

#[derive(Clone)]
struct Scope {
    vars: Vec<(String, K)>,
    /// lexically inside a for loop (loop.* available)
    in_loop: bool,
    /// break / continue allowed here (inside a loop with no capture in between)
    can_break: bool,
    loop_depth: usize,
}

impl Scope {
    fn base() -> Scope {
        let mut vars: Vec<(String, K)> = CTX_VARS.iter().map(|(n, k)| (n.to_string(), *k)).collect();
        vars.push(("user".into(), K::Map));
        Scope { vars, in_loop: false, can_break: false, loop_depth: 0 }
    }
    fn of_kind(&self, k: K) -> Vec<&str> {
        // the latest binding of a name decides its kind
        let mut seen = std::collections::HashSet::new();
        let mut out = Vec::new();
        for (n, kk) in self.vars.iter().rev() {
            if seen.insert(n.as_str()) && *kk == k {
                out.push(n.as_str());
            }
        }
        out
    }
    fn bind(&mut self, name: &str, k: K) {
        self.vars.push((name.to_string(), k));
    }
}

/// the PRNG behind a `RefCell` so that generator methods can draw while `self` is borrowed
struct R<'a>(std::cell::RefCell<&'a mut Rng>);
impl<'a> R<'a> {
    fn below(&self, n: usize) -> usize {
        self.0.borrow_mut().below(n)
    }
    fn chance(&self, a: u32, b: u32) -> bool {
        self.0.borrow_mut().chance(a, b)
    }
    fn range(&self, lo: i64, hi: i64) -> i64 {
        self.0.borrow_mut().range(lo, hi)
    }
    fn pick<'b, T>(&self, xs: &'b [T]) -> &'b T {
        &xs[self.below(xs.len())]
    }
    fn string(&self, alphabet: &[&str]) -> String {
        gen_string(&mut self.0.borrow_mut(), alphabet)
    }
}

struct Gen<'a> {
    rng: R<'a>,
    /// percent of expression positions filled with an expression of a random kind
    adv: u32,
    hist: BTreeMap<String, u64>,
    /// templates that may be included from the one being generated
    includable: Vec<String>,
    /// no assignments at all (included templates of the include-equals-inline stream)
    no_assign: bool,
    /// assignments bind literals to pool names only (includer of that stream)
    literal_sets: bool,
    /// never mention `loop.*`
    no_loop_atoms: bool,
}

impl<'a> Gen<'a> {
    fn count(&mut self, key: &str) {
        *self.hist.entry(format!("construct.{key}")).or_insert(0) += 1;
    }

    fn var_of(&mut self, sc: &Scope, k: K) -> Option<Ex> {
        let c = sc.of_kind(k);
        if c.is_empty() { None } else { Some(atom(c[self.rng.below(c.len())])) }
    }

    fn small_int(&mut self) -> Ex {
        let v = match self.rng.below(10) {
            0 => 0,
            1 => -1,
            2 => 100,
            _ => self.rng.range(1, 9),
        };
        if v < 0 { Ex::Un("-", b(atom(&(-v).to_string()))) } else { atom(&v.to_string()) }
    }

    fn expr(&mut self, k: K, d: usize, sc: &Scope) -> Ex {
        legal(self.expr_raw(k, d, sc))
    }

    fn expr_raw(&mut self, k: K, d: usize, sc: &Scope) -> Ex {
        let k = if self.rng.chance(self.adv, 100) { *self.rng.pick(&ALL_K) } else { k };
        match k {
            K::Int => self.int(d, sc),
            K::Float => self.float(d, sc),
            K::Str => self.string(d, sc),
            K::Bool => self.boolean(d, sc),
            K::ArrInt | K::ArrStr => self.array(k, d, sc),
            K::Map => self.map(d, sc),
            K::Bytes => atom("by"),
            K::NoneK => if self.rng.chance(1, 2) { atom("none") } else { atom("n") },
            K::Undef => self.undefined(d, sc),
        }
    }

    fn undefined(&mut self, d: usize, sc: &Scope) -> Ex {
        self.count("expr.undefined");
        match self.rng.below(8) {
            // a second level on an undefined that is not a plain path (unfused LoadAttr / subscript): an error
            7 if self.rng.chance(1, 3) => Ex::Attr(b(Ex::Index(b(atom("xs")), b(atom("99")), false)), "a".into(), self.rng.chance(1, 2)),
            7 => Ex::Attr(b(Ex::Index(b(atom("user")), b(str_lit("name")), false)), "a".into(), false),
            0 => Ex::Attr(b(atom("user")), (*self.rng.pick(&["zip", "nick"])).into(), false),
            1 => Ex::Attr(b(atom(*self.rng.pick(&UNBOUND))), "a".into(), true),
            2 => Ex::Index(b(atom("xs")), b(atom("99")), false),
            3 => Ex::Attr(b(atom("n")), "a".into(), true),
            4 => Ex::Index(b(atom(*self.rng.pick(&UNBOUND))), b(self.int(d.saturating_sub(1), sc)), true),
            _ => atom(*self.rng.pick(&UNBOUND)),
        }
    }

    fn int(&mut self, d: usize, sc: &Scope) -> Ex {
        if d == 0 || self.rng.chance(1, 3) {
            return match self.rng.below(4) {
                0 => self.var_of(sc, K::Int).unwrap_or_else(|| self.small_int()),
                1 if sc.in_loop && !self.no_loop_atoms => atom(*self.rng.pick(&["loop.index", "loop.index0", "loop.length"])),
                _ => self.small_int(),
            };
        }
        self.count("expr.int");
        match self.rng.below(14) {
            0 => Ex::Bin("+", b(self.expr(K::Int, d - 1, sc)), b(self.expr(K::Int, d - 1, sc))),
            1 => Ex::Bin("-", b(self.expr(K::Int, d - 1, sc)), b(self.expr(K::Int, d - 1, sc))),
            2 => Ex::Bin("*", b(self.expr(K::Int, d - 1, sc)), b(self.expr(K::Int, d - 1, sc))),
            3 => {
                let den = if self.rng.chance(1, 12) { self.expr(K::Int, d - 1, sc) } else { atom(&self.rng.range(1, 5).to_string()) };
                Ex::Bin(*self.rng.pick(&["//", "%"]), b(self.expr(K::Int, d - 1, sc)), b(den))
            }
            4 => Ex::Filter(b(self.expr(*self.rng.pick(&[K::ArrInt, K::ArrStr, K::Str, K::Map]), d - 1, sc)), "length".into(), vec![]),
            5 => Ex::Index(b(self.expr(K::ArrInt, d - 1, sc)), b(atom(&self.rng.range(-1, 1).to_string())), self.rng.chance(1, 5)),
            6 => Ex::Un("-", b(self.expr(K::Int, d - 1, sc))),
            7 => Ex::Ternary(b(self.expr(K::Bool, d - 1, sc)), b(self.expr(K::Int, d - 1, sc)), b(self.expr(K::Int, d - 1, sc))),
            8 => Ex::Attr(b(atom("user")), "age".into(), self.rng.chance(1, 5)),
            9 => Ex::Bin("**", b(self.expr(K::Int, d - 1, sc)), b(atom(&self.rng.below(4).to_string()))),
            10 => Ex::Filter(b(self.expr(K::ArrInt, d - 1, sc)), (*self.rng.pick(&["first", "last"])).into(), vec![]),
            11 => Ex::Filter(b(self.undefined(d - 1, sc)), "default".into(), vec![("value".into(), self.expr(K::Int, d - 1, sc))]),
            12 => Ex::Bin("or", b(self.undefined(d - 1, sc)), b(self.expr(K::Int, d - 1, sc))),
            _ => Ex::Index(b(atom("m")), b(str_lit(*self.rng.pick(&MAP_KEYS))), false),
        }
    }

    fn float(&mut self, d: usize, sc: &Scope) -> Ex {
        if d == 0 || self.rng.chance(1, 3) {
            return match self.rng.below(3) {
                0 => atom("f"),
                _ => atom(*self.rng.pick(&["0.5", "1.25", "3.0", "0.1", "10.75"])),
            };
        }
        self.count("expr.float");
        match self.rng.below(5) {
            0 => Ex::Bin("/", b(self.expr(K::Int, d - 1, sc)), b(atom(&self.rng.range(1, 7).to_string()))),
            1 => Ex::Bin(*self.rng.pick(&["+", "-", "*"]), b(self.expr(K::Float, d - 1, sc)), b(self.expr(K::Int, d - 1, sc))),
            2 => Ex::Bin(*self.rng.pick(&["+", "*", "/"]), b(self.expr(K::Float, d - 1, sc)), b(self.expr(K::Float, d - 1, sc))),
            3 => Ex::Un("-", b(self.expr(K::Float, d - 1, sc))),
            _ => Ex::Bin(*self.rng.pick(&["//", "%"]), b(self.expr(K::Float, d - 1, sc)), b(atom(*self.rng.pick(&["2", "0.5", "3"])))),
        }
    }

    fn string(&mut self, d: usize, sc: &Scope) -> Ex {
        if d == 0 || self.rng.chance(1, 3) {
            return match self.rng.below(3) {
                0 => self.var_of(sc, K::Str).unwrap_or_else(|| str_lit("lit")),
                _ => {
                    let s = self.rng.string(&LIT_ALPHABET);
                    str_lit(&s)
                }
            };
        }
        self.count("expr.str");
        match self.rng.below(13) {
            0 => Ex::Bin("~", b(self.expr(K::Str, d - 1, sc)), b(self.expr(K::Str, d - 1, sc))),
            1 => {
                let k = *self.rng.pick(&[K::Int, K::Bool, K::Float, K::NoneK, K::ArrInt, K::Undef]);
                Ex::Bin("~", b(self.expr(k, d - 1, sc)), b(self.expr(K::Str, d - 1, sc)))
            }
            2 => Ex::Filter(b(self.expr(K::Str, d - 1, sc)), (*self.rng.pick(&["upper", "lower", "trim"])).into(), vec![]),
            3 => {
                let a = if self.rng.chance(1, 3) { None } else { Some(b(atom(&self.rng.range(-3, 3).to_string()))) };
                let e = if self.rng.chance(1, 3) { None } else { Some(b(atom(&self.rng.range(-3, 4).to_string()))) };
                let st = if self.rng.chance(2, 3) { None } else { Some(b(atom(*self.rng.pick(&["-1", "2", "1", "-2"])))) };
                Ex::Slice(b(self.expr(K::Str, d - 1, sc)), a, e, st, self.rng.chance(1, 6))
            }
            4 => Ex::Index(b(self.expr(K::Str, d - 1, sc)), b(atom(&self.rng.range(-2, 2).to_string())), false),
            5 => {
                let kw = if self.rng.chance(1, 2) { vec![("sep".to_string(), str_lit(", "))] } else { vec![] };
                Ex::Filter(b(self.expr(*self.rng.pick(&[K::ArrStr, K::ArrInt]), d - 1, sc)), "join".into(), kw)
            }
            6 => Ex::Filter(b(self.expr(*self.rng.pick(&ALL_K), d - 1, sc)), "str".into(), vec![]),
            7 => Ex::Filter(b(self.undefined(d - 1, sc)), "default".into(), vec![("value".into(), self.expr(K::Str, d - 1, sc))]),
            8 => Ex::Ternary(b(self.expr(K::Bool, d - 1, sc)), b(self.expr(K::Str, d - 1, sc)), b(self.expr(K::Str, d - 1, sc))),
            9 => Ex::Attr(b(atom("user")), "name".into(), self.rng.chance(1, 4)),
            10 => Ex::Filter(b(self.expr(K::Str, d - 1, sc)), "safe".into(), vec![]),
            11 => Ex::Bin("or", b(self.expr(K::Str, d - 1, sc)), b(self.expr(K::Str, d - 1, sc))),
            _ => Ex::Index(b(self.expr(K::ArrStr, d - 1, sc)), b(atom("0")), false),
        }
    }

    fn boolean(&mut self, d: usize, sc: &Scope) -> Ex {
        if d == 0 || self.rng.chance(1, 4) {
            return match self.rng.below(4) {
                0 => atom("true"),
                1 => atom("false"),
                2 if sc.in_loop && !self.no_loop_atoms => atom(*self.rng.pick(&["loop.first", "loop.last"])),
                _ => self.var_of(sc, K::Bool).unwrap_or_else(|| atom("true")),
            };
        }
        self.count("expr.bool");
        match self.rng.below(14) {
            0 => Ex::Bin(*self.rng.pick(&["<", ">", "<=", ">=", "==", "!="]), b(self.expr(K::Int, d - 1, sc)), b(self.expr(K::Int, d - 1, sc))),
            1 => Ex::Bin(*self.rng.pick(&["<", ">=", "=="]), b(self.expr(K::Int, d - 1, sc)), b(self.expr(K::Float, d - 1, sc))),
            2 => Ex::Bin(*self.rng.pick(&["==", "!=", "<", ">"]), b(self.expr(K::Str, d - 1, sc)), b(self.expr(K::Str, d - 1, sc))),
            3 => Ex::Un("not", b(self.expr(K::Bool, d - 1, sc))),
            4 => Ex::Bin("and", b(self.expr(K::Bool, d - 1, sc)), b(self.expr(K::Bool, d - 1, sc))),
            5 => Ex::Bin("or", b(self.expr(K::Bool, d - 1, sc)), b(self.expr(K::Bool, d - 1, sc))),
            6 => {
                let k = *self.rng.pick(&ALL_K);
                Ex::Test(b(self.expr(k, d - 1, sc)), (*self.rng.pick(&["defined", "undefined"])).into(), self.rng.chance(1, 4))
            }
            7 => Ex::Test(b(self.expr(K::Int, d - 1, sc)), (*self.rng.pick(&["odd", "even"])).into(), false),
            8 => Ex::Bin(*self.rng.pick(&["in", "not in"]), b(self.expr(K::Str, d - 1, sc)), b(self.expr(K::Str, d - 1, sc))),
            9 => Ex::Bin(*self.rng.pick(&["in", "not in"]), b(self.expr(K::Int, d - 1, sc)), b(self.expr(K::ArrInt, d - 1, sc))),
            10 => Ex::Bin("in", b(str_lit(*self.rng.pick(&MAP_KEYS))), b(self.expr(K::Map, d - 1, sc))),
            11 => {
                let k = *self.rng.pick(&ALL_K);
                Ex::Test(b(self.expr(k, d - 1, sc)), (*self.rng.pick(&["string", "number", "integer", "float", "bool", "array", "map", "iterable", "none"])).into(), false)
            }
            12 => Ex::Bin("==", b(self.expr(K::ArrInt, d - 1, sc)), b(self.expr(K::ArrInt, d - 1, sc))),
            _ => {
                // truthiness of any kind, through a double negation
                let k = *self.rng.pick(&ALL_K);
                Ex::Un("not", b(Ex::Un("not", b(self.expr(k, d - 1, sc)))))
            }
        }
    }

    fn array(&mut self, k: K, d: usize, sc: &Scope) -> Ex {
        let elem = if k == K::ArrInt { K::Int } else { K::Str };
        if d == 0 || self.rng.chance(1, 3) {
            return match self.rng.below(3) {
                0 => {
                    let n = self.rng.below(4);
                    Ex::Array((0..n).map(|_| (false, if elem == K::Int { self.small_int() } else { str_lit(&self.rng.string(&LIT_ALPHABET)) })).collect())
                }
                _ => self.var_of(sc, k).unwrap_or_else(|| Ex::Array(vec![])),
            };
        }
        self.count("expr.array");
        match self.rng.below(8) {
            0 => {
                let n = self.rng.below(4);
                Ex::Array((0..n).map(|_| (false, self.expr(elem, d - 1, sc))).collect())
            }
            1 => Ex::Array(vec![(true, self.array(k, 0, sc)), (false, self.expr(elem, d - 1, sc))]),
            2 if k == K::ArrInt => {
                let mut kw = vec![("end".to_string(), atom(&self.rng.below(5).to_string()))];
                if self.rng.chance(1, 3) {
                    kw.push(("start".to_string(), atom(&self.rng.below(3).to_string())));
                }
                Ex::Call("range".into(), kw)
            }
            3 => {
                let mut inner = sc.clone();
                let var = format!("e{}", self.rng.below(2));
                inner.bind(&var, elem);
                let body = self.expr(elem, d - 1, &inner);
                let cond = if self.rng.chance(1, 2) { Some(b(self.expr(K::Bool, d - 1, &inner))) } else { None };
                Ex::Compr(b(body), var, b(self.expr(k, d - 1, sc)), cond)
            }
            4 => {
                let a = if self.rng.chance(1, 3) { None } else { Some(b(atom(&self.rng.range(-2, 2).to_string()))) };
                let e = if self.rng.chance(1, 2) { None } else { Some(b(atom(&self.rng.range(-2, 3).to_string()))) };
                let st = if self.rng.chance(3, 4) { None } else { Some(b(atom(*self.rng.pick(&["-1", "2"])))) };
                Ex::Slice(b(self.expr(k, d - 1, sc)), a, e, st, false)
            }
            5 => Ex::Ternary(b(self.expr(K::Bool, d - 1, sc)), b(self.expr(k, d - 1, sc)), b(self.expr(k, d - 1, sc))),
            6 if k == K::ArrStr => Ex::Attr(b(atom("user")), "tags".into(), false),
            _ => self.var_of(sc, k).unwrap_or_else(|| Ex::Array(vec![])),
        }
    }

    fn map(&mut self, d: usize, sc: &Scope) -> Ex {
        if d == 0 || self.rng.chance(1, 2) {
            return atom(*self.rng.pick(&["m", "user"]));
        }
        self.count("expr.map");
        let n = self.rng.below(3);
        let mut items: Vec<(String, Ex)> = (0..n).map(|_| (self.rng.pick(&MAP_KEYS).to_string(), self.expr(K::Int, d - 1, sc))).collect();
        if self.rng.chance(1, 2) {
            let pos = self.rng.below(items.len() + 1);
            items.insert(pos, ("...".into(), self.expr(K::Map, d - 1, sc)));
        }
        Ex::MapLit(items)
    }

    /// something that prints (or errors) — any kind
    fn printable(&mut self, d: usize, sc: &Scope) -> Ex {
        let k = *self.rng.pick(&[K::Int, K::Int, K::Str, K::Str, K::Str, K::Bool, K::Float, K::ArrInt, K::ArrStr, K::Map, K::Bytes, K::NoneK]);
        self.expr(k, d, sc)
    }

    /// `[{{ name | default(value="~") }}]`: shows what a name resolves to without ever failing
    fn probe(&mut self, sc: &Scope) -> Vec<St> {
        self.count("stmt.probe");
        let mut names: Vec<String> = POOL.iter().map(|s| s.to_string()).collect();
        names.extend(["s", "i", "g", "gi", "x0", "x1", "k0"].iter().map(|s| s.to_string()));
        let name = names[self.rng.below(names.len())].clone();
        let _ = sc;
        vec![
            St::Text("[".into()),
            St::Print(Ex::Filter(b(atom(&name)), "default".into(), vec![("value".into(), str_lit("~"))])),
            St::Text("]".into()),
        ]
    }

    fn text(&mut self) -> St {
        const T: [&str; 10] = ["a", " ", "\n", "<b>", "x=", "&", "日本", "🦀", "-", "}"];
        let n = self.rng.below(3) + 1;
        St::Text((0..n).map(|_| *self.rng.pick(&T)).collect())
    }

    fn stmts(&mut self, depth: usize, n: usize, sc: &Scope) -> Vec<St> {
        let mut sc = sc.clone();
        let mut out = Vec::new();
        for _ in 0..n {
            let choice = self.rng.below(if depth == 0 { 6 } else { 13 });
            match choice {
                0 => out.push(self.text()),
                1 | 2 => {
                    self.count("stmt.print");
                    out.push(St::Print(self.printable(2, &sc)));
                }
                3 => out.extend(self.probe(&sc)),
                4 | 5 | 6 if self.no_assign => out.extend(self.probe(&sc)),
                4 | 5 if self.literal_sets => {
                    let global = self.rng.chance(1, 3);
                    self.count(if global { "stmt.set_global" } else { "stmt.set" });
                    let name = self.rng.pick(&POOL).to_string();
                    let (e, k) = if self.rng.chance(1, 2) { (self.small_int(), K::Int) } else { (str_lit(&self.rng.string(&LIT_ALPHABET)), K::Str) };
                    let e = match e { Ex::Un(_, x) => *x, e => e };
                    out.push(St::Set(name.clone(), e, global));
                    sc.bind(&name, k);
                }
                4 | 5 => {
                    // assignment; the name may shadow a context variable or a loop variable
                    let global = self.rng.chance(1, 3);
                    self.count(if global { "stmt.set_global" } else { "stmt.set" });
                    let name: String = match self.rng.below(8) {
                        0 => "s".into(),
                        1 => "i".into(),
                        2 if sc.loop_depth > 0 => format!("x{}", sc.loop_depth - 1),
                        3 => "g".into(),
                        _ => self.rng.pick(&POOL).to_string(),
                    };
                    let k = *self.rng.pick(&[K::Int, K::Str, K::Str, K::Bool, K::ArrInt, K::Undef, K::NoneK]);
                    let k = if k == K::Undef && !self.rng.chance(1, 4) { K::Int } else { k };
                    // an assignment that survives the iteration must not feed on assigned names, or a
                    // few nested loops make the value (and the render time) grow exponentially
                    let e = if global && sc.loop_depth > 0 {
                        let mut frozen = sc.clone();
                        frozen.vars.retain(|(n, _)| !is_assignable(n));
                        self.expr(k, 2, &frozen)
                    } else {
                        self.expr(k, 2, &sc)
                    };
                    out.push(St::Set(name.clone(), e, global));
                    sc.bind(&name, k);
                }
                6 => {
                    // (block form of set_global only outside loops, for the same reason)
                    let global = sc.loop_depth == 0 && self.rng.chance(1, 4);
                    self.count("stmt.set_block");
                    let name = self.rng.pick(&POOL).to_string();
                    let filters: Vec<String> = (0..self.rng.below(3)).map(|_| self.rng.pick(&["upper", "lower", "trim"]).to_string()).collect();
                    let mut inner = sc.clone();
                    inner.can_break = false;
                    let body = self.stmts(depth - 1, self.rng.below(3) + 1, &inner);
                    out.push(St::SetBlock(name.clone(), filters, body, global));
                    sc.bind(&name, K::Str);
                }
                7 | 8 => {
                    self.count("stmt.if");
                    let nb = self.rng.below(3) + 1;
                    let mut branches = Vec::new();
                    for _ in 0..nb {
                        let cond = if self.rng.chance(1, 3) { self.printable(1, &sc) } else { self.expr(K::Bool, 2, &sc) };
                        let mut body = self.stmts(depth - 1, self.rng.below(3), &sc);
                        if sc.can_break && self.rng.chance(1, 3) {
                            self.count("stmt.break_continue");
                            body.push(if self.rng.chance(1, 2) { St::Break } else { St::Continue });
                        }
                        branches.push((cond, body));
                    }
                    let els = if self.rng.chance(1, 2) { Some(self.stmts(depth - 1, self.rng.below(3), &sc)) } else { None };
                    out.push(St::If(branches, els));
                }
                9 | 10 => {
                    self.count("stmt.for");
                    let mut inner = sc.clone();
                    inner.in_loop = true;
                    inner.can_break = true;
                    inner.loop_depth += 1;
                    let v = format!("x{}", sc.loop_depth);
                    let (key, target) = match self.rng.below(8) {
                        0 => {
                            inner.bind(&v, K::Int);
                            let kname = format!("k{}", sc.loop_depth);
                            inner.bind(&kname, K::Str);
                            self.count("stmt.for.keyvalue");
                            (Some(kname), self.expr(K::Map, 1, &sc))
                        }
                        1 => {
                            inner.bind(&v, K::Str);
                            self.count("stmt.for.string");
                            (None, self.expr(K::Str, 1, &sc))
                        }
                        2 => {
                            inner.bind(&v, K::Int);
                            self.count("stmt.for.map_or_bytes");
                            (None, if self.rng.chance(1, 2) { atom("by") } else { self.expr(K::Map, 1, &sc) })
                        }
                        3 | 4 => {
                            inner.bind(&v, K::Str);
                            (None, self.expr(K::ArrStr, 2, &sc))
                        }
                        _ => {
                            inner.bind(&v, K::Int);
                            (None, self.expr(K::ArrInt, 2, &sc))
                        }
                    };
                    let body = self.stmts(depth - 1, self.rng.below(4) + 1, &inner);
                    let els = if self.rng.chance(1, 3) { self.stmts(depth - 1, self.rng.below(2) + 1, &sc) } else { vec![] };
                    out.push(St::For(key, v, target, body, els));
                }
                11 => {
                    if self.includable.is_empty() {
                        out.push(self.text());
                    } else {
                        self.count("stmt.include");
                        let n = self.includable[self.rng.below(self.includable.len())].clone();
                        out.push(St::Include(n));
                    }
                }
                _ => {
                    self.count("stmt.filter_section");
                    let mut inner = sc.clone();
                    inner.can_break = false;
                    let body = self.stmts(depth - 1, self.rng.below(3) + 1, &inner);
                    out.push(St::FilterSection(self.rng.pick(&["upper", "lower", "trim", "safe", "length"]).to_string(), body));
                }
            }
        }
        out
    }
}

/// One random program: a main template, up to two templates it (transitively) includes, contexts
pub fn gen_program(rng: &mut Rng, adversarial: bool, autoescape: bool, restricted: bool, hist: &mut BTreeMap<String, u64>) -> Case {
    let suffix = if autoescape { ".html" } else { "" };
    let n_inc = if restricted { 1 + rng.below(2) } else { rng.below(3) };
    let mut templates: Vec<(String, Vec<St>)> = Vec::new();
    let mut includable: Vec<String> = Vec::new();
    // generate the innermost include first so that include chains are acyclic
    for k in (0..n_inc).rev() {
        let name = format!("inc{k}{}", if !restricted && rng.chance(1, 4) { ".html" } else { suffix });
        let mut g = Gen { rng: R(std::cell::RefCell::new(&mut *rng)), adv: if adversarial { 12 } else { 1 }, hist: std::mem::take(hist), includable: includable.clone(), no_assign: restricted, literal_sets: false, no_loop_atoms: restricted };
        // an included template sees the includer's loop variables; say so to the generator
        let mut sc = Scope::base();
        sc.bind("x0", K::Int);
        let n = g.rng.below(4) + 1;
        let body = g.stmts(2, n, &sc);
        *hist = g.hist;
        templates.push((name.clone(), body));
        includable.push(name);
    }
    let mut g = Gen { rng: R(std::cell::RefCell::new(&mut *rng)), adv: if adversarial { 12 } else { 1 }, hist: std::mem::take(hist), includable, no_assign: false, literal_sets: restricted, no_loop_atoms: false };
    let n = g.rng.below(6) + 2;
    let depth = 2 + g.rng.below(3);
    let body = g.stmts(depth, n, &Scope::base());
    *hist = g.hist;
    templates.push((format!("main{suffix}"), body));
    templates.reverse();
    let (ctx, global) = gen_contexts(rng, adversarial);
    Case { templates, ctx, global, stream: if restricted { "include_inline".into() } else if adversarial { "adversarial".into() } else if autoescape { "autoescape".into() } else { "directed".into() } }
}

// ------------------------------------------------------------------ direct oracles


// (from the "derived checks" section of evalh.rs; used by `has_growth_carrier`)
fn ex_mentions(e: &Ex, what: &str) -> bool {
    match e {
        Ex::Atom(s) => s.contains(what),
        Ex::Bin(_, l, r) => ex_mentions(l, what) || ex_mentions(r, what),
        Ex::Un(_, x) | Ex::Attr(x, _, _) | Ex::Test(x, _, _) => ex_mentions(x, what),
        Ex::Index(x, i, _) => ex_mentions(x, what) || ex_mentions(i, what),
        Ex::Slice(x, a, bb, c, _) => ex_mentions(x, what) || [a, bb, c].iter().any(|o| o.as_ref().is_some_and(|e| ex_mentions(e, what))),
        Ex::Filter(x, _, kw) => ex_mentions(x, what) || kw.iter().any(|(_, e)| ex_mentions(e, what)),
        Ex::Call(_, kw) => kw.iter().any(|(_, e)| ex_mentions(e, what)),
        Ex::Ternary(c, t, f) => ex_mentions(c, what) || ex_mentions(t, what) || ex_mentions(f, what),
        Ex::Array(items) => items.iter().any(|(_, e)| ex_mentions(e, what)),
        Ex::MapLit(items) => items.iter().any(|(_, e)| ex_mentions(e, what)),
        Ex::Compr(bd, _, t, c) => ex_mentions(bd, what) || ex_mentions(t, what) || c.as_ref().is_some_and(|e| ex_mentions(e, what)),
    }
}
