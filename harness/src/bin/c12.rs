//! C12 — errors identify the right template and source position and always display.
//!
//! Planted-fault generator: a valid multi-template set (inheritance, includes, nested includes,
//! components, component-in-component, component called from an include; multi-line, CRLF,
//! non-ASCII, tabs, long lines) is built from one seeded PRNG, verified to register and render,
//! then exactly ONE fault is planted at a random slot of a random template.
//!  * direct oracle (independent of the Lean model) on `Error::kind()` and `Error::to_string()`
//!  * model comparison through `drv_c12`: token spans of every source, and the quoted line and
//!    underline of the report.
//!
//! Coverage rule per fault class (`Cover`): what is asserted about `span.range` relative to the
//! planted text P and its offending token T (both byte ranges of the host template's final source).
//! Contains = range ⊇ T (an empty range at p counts when T.start ≤ p ≤ T.end: the lexer reports
//! zero-width spans); Overlaps = range ∩ T ≠ ∅; AtOrAfter = range.end ≥ P.start.
//!
//! | class                         | kind      | rule                                              |
//! |-------------------------------|-----------|---------------------------------------------------|
//! | undefined-var (T = the name), undefined-field (T = the missing field), undefined-operand    |
//! | (T = the undefined name), bad-operand (T = the operand of the wrong kind), div-zero (T = the |
//! | divisor), not-iterable / kv-on-array (T = the container expression), filter-missing-arg      |
//! | (T = filter name + args), filter-wrong-kind (T = the filtered value), filter-bad-value       |
//! | (T = filter name + args), bad-index (T = the index expression), test-wrong-kind (T = tested  |
//! | value), test-missing-arg (T = test name), function-error (T = the call), in-non-container    |
//! | (T = the container), spread-non-array (T = spread operand), super-misuse (T = `super()`),    |
//! | component-bad-call (T = `<name … />`)                                                        |
//! |                               | Rendering | Contains T                                        |
//! | … the same with T a dotted path (`a.b.c | upper`, `"x" + a.b.c`, `for q in a.n`,            |
//! | `1 in a.b.c`) or a filter result (`for q in "é" | length`)                                   |
//! |                               | Rendering | Overlaps T: a fused path load carries the span of |
//! |                               |           | its first element only, a filter result that of   |
//! |                               |           | the filter segment                                |
//! | filter-wrong-arg-type         | Rendering | Overlaps T = whole filter expression (the engine  |
//! |                               |           | points at the filtered value, not the argument)   |
//! | int-overflow, slice errors    | Rendering | Overlaps T = whole expression                     |
//! | unexpected-char (T = the char), unterminated-string (backtick string, T = the opening       |
//! | quote), bad-escape (T = the literal), unknown-tag / stray-end-tag / elif-after-else (T = the |
//! | tag name), int-literal-too-large (T = the literal)                                           |
//! |                               | Syntax    | Contains T                                        |
//! | empty-expr, missing-operand, parser-misc, extends-misplaced, duplicate-block, too-deep      |
//! |                               | Syntax    | Overlaps T (⊆ P): which token of the malformed    |
//! |                               |           | construct is named is the parser's choice         |
//! | unterminated-var/-tag/-comment/-raw, missing-end-tag                                         |
//! |                               | Syntax    | AtOrAfter only: the natural position is the       |
//! |                               |           | opener, a later token or the end of the source    |
//! | unknown-name (filter, test, function, component, include target)                             |
//! |                               | Msg       | the engine returns `ErrorKind::Msg` holding the   |
//! |                               |           | formatted report: only the text is available, so  |
//! |                               |           | file, locus inside T and quoted line are checked  |
//!
//! | component-attr (value after `=` in a component call is a bare integer / float / bool /      |
//! | identifier / operator / missing; inline and body form; T = that token), reserved-name       |
//! | (T = the reserved word), component-stray-token (a token that cannot start an attribute in   |
//! | a component call, T = that token; regression cases of the fixed finding F19, where the      |
//! | engine named the last CONSUMED token before it)                                             |
//! |                               | Syntax    | Contains T                                        |
//! | component-call-misc, component-def                                                          |
//! |                               | Syntax    | Overlaps T                                        |
//!
//! Call sites: include tags and component calls also sit inside output captures (filter section,
//! set block, body of a component call, and nestings of those) and inside component bodies; every
//! enclosing include / component call must appear as a note naming the calling template and the
//! line of the call, quoting that line of that template (`callsite.*` in the histogram).
//!
//! History: a quarter of the rendering faults are rendered on an instance that went through a
//! second `add_raw_templates` call first — a batch that redefines the host / a calling template /
//! the root / the entry with all offsets shifted and is rejected late (unknown filter, test,
//! function, component, include target), the same rejected early (syntax error), or an accepted
//! shifted replacement (then the expected source and the planted offsets are the new ones). The
//! oracle always judges against the source CURRENTLY registered under the reported name
//! (`history.*` in the histogram; the replay holds the ordered add calls with their outcomes).
//!
//! | bad-slice-bound (start / end / step bound of a slice that is a string, float, bool, array or |
//! | map, with and without the other bounds, on arrays and strings; T = that bound: the engine     |
//! | names the bound itself)       | Rendering | Contains T                                        |
//!
//! | int-overflow, arith-overflow, operand-out-of-range (`10 ** 40`, `imax * two`, `imin - one`,   |
//! | `big * two`, `two * big`, … with `big` = u128::MAX, `imax` / `imin` = the i128 bounds from the  |
//! | context; nested and multi-line): the engine names the WHOLE failing binary operation (only a   |
//! | division by zero is reported on the right operand); T = that operation                         |
//! |                               | Rendering | Contains T                                        |
//! | end-name-mismatch (`{% block content %}…{% endblock contents %}`, nested blocks, `-` markers,  |
//! | multi-line tag, `{% endcomponent other %}`; T = the mismatching NAME after the end keyword;    |
//! | planted only where a block / component definition is allowed)                                  |
//! |                               | Syntax    | Contains T                                        |
//! | set-filter-chain (`{% set x | f1 | f2 … %}…{% endset %}`, 2-4 filters, the first / a later   |
//! | one failing; T = the call of the filter that PRODUCED the refused value — the previous        |
//! | filter, or the first filter when the captured text itself is refused — and for a missing      |
//! | argument the failing filter's own call; never a filter that did not take part)                |
//! |                               | Rendering | Contains T                                        |
//!
//! Names: in one set out of five the name of the parent / component file is a SUFFIX of the name
//! of the template extending it / calling into it (`base.html` ← `admin/base.html`, `card.html`
//! used by `ui/card.html`, `xbase.html`; `naming.*` in the histogram).
//!
//! File route: one syntax fault in four and one rendering fault in ten (those without a history)
//! are written to `temp_dir()/tera_verif_c12_<pid>/c<n>/f<i>.tpl` and registered through
//! `add_template_files([(path, Some(name)) …])`: the error must carry the registered NAME, never
//! the path. Every tenth end-of-source case goes through `add_template_file(path, None)` (the name
//! IS the path) or `(path, Some(name))`. Directories are removed after each case and at the end of
//! the run (`file-route.*`; the replay records `route`).
//!
//! History shapes also include rejected batches that hold the redefined name TWICE (two shifted
//! versions in either order; rejected by a third member or by the second copy; early and late).
//!
//! Source prefixes: one template in five BEGINS with a byte order mark (also twice, followed by a
//! newline), U+200B, U+00A0, `é` or a 4-byte character (a child template only with U+00A0: nothing
//! but white space may precede `extends`); faults follow on line 1 and on later lines. Everything
//! is judged against the stored source, which is what the error quotes.
//!
//! Custom delimiters: about one case in seven is respelled (every template, the fault, the history
//! batches) in one of six delimiter sets applied with `Tera::set_delimiters` — four of them with
//! one 2-byte character per delimiter (`¿ ¡ « » § ¶`, `µ ¬ ± ¢ £ ¥`, mixed ones), one ASCII. All
//! delimiters are 2 bytes long, so byte offsets are those of the default spelling while columns
//! (counted in characters) are not. The model comparison lexes with the same delimiters.
//!
//! Special families (one size parameter each; a failing case shrinks to the smallest failing size):
//! * deep call chains: 9, 10, 12 and 16 enclosing call sites x (includes only, nested components,
//!   one recursive component, include / component alternating), some sites inside captures, plus a
//!   seeded random handful of depths 1-16; EVERY enclosing site must be named by a note
//!   (`callsite.depth.<n>`).
//! * huge chunks: a one-expression line repeated so that the fault (undefined variable, bad
//!   operand, failing include, failing component call) sits at instruction index 65534 … 65540
//!   and beyond of ONE chunk (template body, block body, component body); instructions per line
//!   are measured through `verif_hooks::stored_chunks_wire`. Sources above 20 000 bytes are not
//!   sent to the model driver.
//! * end of source: every open construct also with a comment as its LAST token (all whitespace
//!   control variants, multi-line, as the only token after the opener, followed by nothing or
//!   by whitespace only).
//! Token spans are compared with the model raw AND whitespace-filtered (`lex-spans-filtered`).
//!
//! Syntax-site coverage: the message templates of every `syntax_error(…)` / `expect_token!` site
//! are read at run time from `$VERIF_REPO` (default /repo) `tera/src/parsing/{parser,lexer}.rs`
//! and matched against the messages the planted faults produced (`syntax-site.hit / .total`, the
//! unreached ones are listed in the notes).
//!
//! A planted fault that yields no error at all, or an error of another kind, is counted
//! (`no-report-error.*`) and not judged: the property speaks about syntax / rendering errors.
//! A panic while registering / rendering / formatting is a violation.
//! Rendering faults planted directly in a component body are also reached a second way, through
//! `Tera::render_component` (same oracle, no enclosing call site).
//!
//! Span consistency: `(start_line,start_col)` must be the line/col of `range.start` recomputed
//! from the named template's source, without exception (the parser's unexpected-end-of-input
//! errors used to keep the last token's range while moving line/col to its end: finding F13,
//! fixed; `abc {{ a` and `x\ny {% if a %}\nz` are kept as regression cases in the end-of-source
//! list); `(end_line,end_col)` must be those of `range.end`.
use serde_json::{json, Value as J};
use std::collections::HashSet;
use std::ops::Range;
use tera::{Context, ErrorKind, Tera};
use tera_verif_harness::lexwire::{self, D};
use tera_verif_harness::report::{out_path, replay_path, Report};
use tera_verif_harness::rng::Rng;
use tera_verif_harness::wire::hex;
use tera_verif_harness::{catch, driver, quiet_panics, Env};

// ------------------------------------------------------------------ template set model

#[derive(Clone, Debug, PartialEq)]
enum PK {
    /// structural text (tags of the skeleton)
    Text,
    /// removable filler
    Filler,
    /// a place where a fault may be planted (empty until planted)
    Slot(usize),
    /// an include tag / component call of unit `u`; `anchor` = offset of the call site in `text`
    Call(usize),
    /// text tied to the call of unit `u`: closing tag of a body component call, opening / closing
    /// tags of the captures wrapped around the call
    CallClose(usize),
}

#[derive(Clone, Debug)]
struct Piece {
    text: String,
    kind: PK,
    anchor: usize,
    /// for a call: the output capture(s) it sits in ("" = none): filter section, set block,
    /// component-call body and combinations
    cap: &'static str,
}

fn text(s: impl Into<String>) -> Piece {
    Piece { text: s.into(), kind: PK::Text, anchor: 0, cap: "" }
}
fn fill(s: impl Into<String>) -> Piece {
    Piece { text: s.into(), kind: PK::Filler, anchor: 0, cap: "" }
}

#[derive(Clone, Debug)]
struct TplB {
    name: String,
    pieces: Vec<Piece>,
}

#[derive(Clone, Debug, PartialEq)]
enum UnitKind {
    Entry,
    Include,
    Component,
}

/// A unit is what one include / component call enters: notes are added per unit boundary.
#[derive(Clone, Debug)]
struct Unit {
    kind: UnitKind,
    /// unit in which the (single) call site of this unit sits
    caller: Option<usize>,
    /// component name, for component units
    comp: Option<&'static str>,
}

#[derive(Clone, Debug)]
struct SlotInfo {
    tpl: usize,
    unit: usize,
    /// executed when the entry template is rendered
    live: bool,
    /// the host template starts with `{% extends %}`
    child_tpl: bool,
    in_block: bool,
    in_comp_def: bool,
    base_role: &'static str,
}

#[derive(Clone, Debug)]
struct TSet {
    /// custom delimiters the set is spelled in (None = the default ones)
    delims: Option<D>,
    /// 0 = registered with `add_raw_templates`, 1 = written to disk and registered with
    /// `add_template_files([(path, Some(name)) …])`, names differing from the paths
    route: u8,
    tpls: Vec<TplB>,
    entry: usize,
    slots: Vec<SlotInfo>,
    /// slots that sit inside a `for` body (blocks / component definitions are refused there)
    loop_slots: Vec<usize>,
    units: Vec<Unit>,
    has_comp_q: bool,
}

impl TSet {
    fn sources(&self) -> Vec<(String, String)> {
        self.tpls.iter().map(|t| (t.name.clone(), t.pieces.iter().map(|p| p.text.as_str()).collect::<String>())).collect()
    }
    /// (template index, byte offset of the call site) of unit `u`
    fn call_site(&self, u: usize) -> Option<(usize, usize, &'static str)> {
        for (ti, t) in self.tpls.iter().enumerate() {
            let mut off = 0;
            for p in &t.pieces {
                if p.kind == PK::Call(u) {
                    return Some((ti, off + p.anchor, p.cap));
                }
                off += p.text.len();
            }
        }
        None
    }
    fn slot_offset(&self, slot: usize) -> (usize, usize) {
        for (ti, t) in self.tpls.iter().enumerate() {
            let mut off = 0;
            for p in &t.pieces {
                if p.kind == PK::Slot(slot) {
                    return (ti, off);
                }
                off += p.text.len();
            }
        }
        unreachable!("slot {slot} missing")
    }
}

/// Delimiter sets with one 2-byte character per delimiter (none of these characters occurs in
/// filler or fault texts), a mixed one and an ASCII one. All are 2 bytes long like the default
/// delimiters, so respelling a source keeps every byte offset.
fn delimiter_sets() -> Vec<D> {
    vec![
        D::new("¿", "¡", "«", "»", "§", "¶"),
        D::new("{%", "%}", "«", "»", "{#", "#}"),
        D::new("§", "%}", "{{", "}}", "¤", "¦"),
        D::new("µ", "¬", "±", "¢", "£", "¥"),
        D::new("¿", "%}", "«", "}}", "¤", "#}"),
        D::new("<%", "%>", "<<", ">>", "<#", "#>"),
    ]
}

/// The same source spelled with other delimiters (byte length preserved).
fn respell(src: &str, d: &D) -> String {
    let mut out = String::with_capacity(src.len());
    let b = src.as_bytes();
    let mut i = 0;
    while i < b.len() {
        let two = src.get(i..i + 2);
        let r = match two {
            Some("{{") => Some(&d.vs),
            Some("}}") => Some(&d.ve),
            Some("{%") => Some(&d.bs),
            Some("%}") => Some(&d.be),
            Some("{#") => Some(&d.cs),
            Some("#}") => Some(&d.ce),
            _ => None,
        };
        match r {
            Some(x) => {
                out.push_str(x);
                i += 2;
            }
            None => {
                let c = src[i..].chars().next().unwrap();
                out.push(c);
                i += c.len_utf8();
            }
        }
    }
    out
}

fn new_tera(delims: &Option<D>) -> Tera {
    let mut tera = Tera::default();
    if let Some(d) = delims {
        tera.set_delimiters(d.to_delimiters()).expect("delimiter set accepted");
    }
    tera
}

const PARAMS: &str = r#"x = 0, n = 5, s = "héllo", arr = [1, 2, 3], a = {"b": {"c": 1}, "n": 3}, m = {"k": "v"}"#;

fn base_context() -> J {
    json!({"a": {"b": {"c": 1}, "n": 3}, "arr": [1, 2, 3], "s": "héllo", "n": 5, "m": {"k": "v"}})
}

fn context_of(j: &J) -> Context {
    let mut ctx = Context::new();
    if let Some(o) = j.as_object() {
        for (k, v) in o {
            ctx.insert(k.clone(), v);
        }
    }
    // integers JSON cannot carry: always present (the replay needs no extra field for them)
    for (k, v) in [("one", 1i64), ("two", 2), ("ten", 10), ("forty", 40)] {
        ctx.insert_value(k, tera::Value::from(v));
    }
    ctx.insert_value("big", tera::Value::from(u128::MAX));
    ctx.insert_value("imax", tera::Value::from(i128::MAX));
    ctx.insert_value("imin", tera::Value::from(i128::MIN));
    ctx
}

// ------------------------------------------------------------------ filler

const WORDS: &[&str] = &["lorem", "ipsum", "dolor", "sit", "amet", "<p>", "</p>", "<div class=x>", "a & b", "100%", "x = y;", "}", "{", "%", "#"];
const NONASCII: &[&str] = &[
    "héllo wörld ñ",
    "日本語のテキスト",
    "emoji 😀🎉 text 𝄞",
    "e\u{301}a\u{308}o\u{302}\u{323} combining",
    "Ünï©ödé → ∑ ✓",
    "κόσμε",
    "mixed é日😀e\u{301}",
];
const EXPRS: &[&str] = &[
    "{{ n }}",
    "{{ s | upper }}",
    "{{ a.b.c + 1 }}",
    "{{- n -}}",
    "{% if n > 2 %}yes{% else %}no{% endif %}",
    "{% set q = 1 %}",
    "{{ arr | length }}",
    "{{ m.k ~ \"é\" }}",
    "{% for w in arr %}{{ w }},{% endfor %}",
    "{{ \"日本\" ~ s }}",
];

fn pk(rng: &mut Rng, xs: &[&'static str]) -> &'static str {
    xs[rng.below(xs.len())]
}

struct G<'r> {
    rng: &'r mut Rng,
    crlf: bool,
    slots: Vec<SlotInfo>,
    loop_slots: Vec<usize>,
    /// a call was wrapped in the body of `wrapq`: the set needs the template defining it
    need_wrap: bool,
}

impl G<'_> {
    fn nl(&mut self) -> &'static str {
        if self.crlf || self.rng.chance(1, 12) { "\r\n" } else { "\n" }
    }

    fn line(&mut self) -> String {
        let r = self.rng.below(100);
        let mut s = String::new();
        match r {
            0..=24 => {
                for _ in 0..1 + self.rng.below(5) {
                    s.push_str(pk(self.rng, WORDS));
                    s.push(' ');
                }
            }
            25..=44 => s.push_str(pk(self.rng, NONASCII)),
            45..=52 => {
                s.push('\t');
                s.push_str(pk(self.rng, WORDS));
                s.push('\t');
                s.push_str(pk(self.rng, NONASCII));
            }
            53..=60 => {}
            61..=64 => {
                // very long line
                let n = 20 + self.rng.below(120);
                for i in 0..n {
                    if i % 7 == 3 {
                        s.push_str(pk(self.rng, NONASCII));
                    } else {
                        s.push_str("long-line ");
                    }
                }
            }
            65..=82 => {
                s.push_str(pk(self.rng, WORDS));
                s.push(' ');
                s.push_str(pk(self.rng, EXPRS));
                if self.rng.chance(1, 2) {
                    s.push(' ');
                    s.push_str(pk(self.rng, NONASCII));
                }
            }
            83..=87 => {
                let nl = self.nl();
                s.push_str(&format!("{{# comment é{nl}\tover 日本 lines{nl}#}}"));
            }
            88..=91 => {
                let nl = self.nl();
                s.push_str(&format!("{{% raw %}}{{{{ not parsed }}}}{nl}{{% nor this 😀 %}}{{% endraw %}}"));
            }
            92..=95 => {
                let nl = self.nl();
                s.push_str(&format!("{{{{ \"multi{nl}line é\" }}}}"));
            }
            _ => {
                let nl = self.nl();
                s.push_str(&format!("{{{{ \"x\" ~{nl}\t s }}}}"));
            }
        }
        s
    }

    fn filler(&mut self, out: &mut Vec<Piece>, max: usize) {
        // one piece per line so that the shrinker can drop lines one at a time
        for _ in 0..self.rng.below(max + 1) {
            let mut l = self.line();
            l.push_str(self.nl());
            out.push(fill(l));
        }
    }

    fn prefix(&mut self) -> String {
        match self.rng.below(12) {
            0 | 1 => String::new(),
            2 => "  ".into(),
            3 => "\t".into(),
            4 => "\t\té ".into(),
            5 => "é ".into(),
            6 => "日本語".into(),
            7 => "😀 ".into(),
            8 => "e\u{301}\u{323} ".into(),
            9 => format!("{} {} ", pk(self.rng, NONASCII), pk(self.rng, EXPRS)),
            10 => "x".repeat(100 + self.rng.below(900)) + "é",
            _ => format!("{} ", pk(self.rng, WORDS)),
        }
    }

    /// `at_eof`: nothing at all may follow the slot (fault on the last line, no trailing newline)
    fn slot(&mut self, out: &mut Vec<Piece>, info: SlotInfo, bare_start: bool, at_eof: bool) {
        let id = self.slots.len();
        self.slots.push(info);
        if !bare_start {
            let p = self.prefix();
            if !p.is_empty() {
                out.push(fill(p));
            }
        }
        out.push(Piece { text: String::new(), kind: PK::Slot(id), anchor: 0, cap: "" });
        if at_eof {
            return;
        }
        let mut suf = match self.rng.below(4) {
            0 => String::new(),
            1 => format!(" {}", pk(self.rng, NONASCII)),
            _ => format!(" {}", pk(self.rng, WORDS)),
        };
        suf.push_str(self.nl());
        out.push(fill(suf));
    }
}

#[derive(Clone, Debug)]
struct CallSpec {
    unit: usize,
    open: String,
    anchor: usize,
    /// Some(close) for a body component call
    close: Option<String>,
}

fn include_call(rng: &mut Rng, unit: usize, name: &str) -> CallSpec {
    if rng.chance(1, 4) {
        CallSpec { unit, open: format!("{{%- include \"{name}\" -%}}"), anchor: 12, close: None }
    } else {
        CallSpec { unit, open: format!("{{% include \"{name}\" %}}"), anchor: 11, close: None }
    }
}

fn comp_call(rng: &mut Rng, unit: usize, name: &str, body: bool) -> CallSpec {
    if body {
        return CallSpec { unit, open: format!("{{% <{name} x={{2}} s=\"ü\"> %}}"), anchor: 3, close: Some(format!("{{% </{name}> %}}")) };
    }
    match rng.below(4) {
        0 => CallSpec { unit, open: format!("{{{{- <{name} /> -}}}}"), anchor: 4, close: None },
        1 => CallSpec { unit, open: format!("{{% set cv = <{name} x={{n}} /> %}}{{{{ cv }}}}"), anchor: 11, close: None },
        _ => CallSpec { unit, open: format!("{{{{ <{name} x={{n}} s=\"é😀\" /> }}}}"), anchor: 3, close: None },
    }
}

/// One region (template body, block body, component body): filler, slots, and the calls it hosts.
#[allow(clippy::too_many_arguments)]
fn region(g: &mut G, out: &mut Vec<Piece>, info: &SlotInfo, calls: &[CallSpec], first_bare: bool, end_eof: bool) {
    if first_bare {
        g.slot(out, info.clone(), true, false);
    }
    g.filler(out, 3);
    g.slot(out, info.clone(), false, false);
    g.filler(out, 2);
    for c in calls {
        let in_loop = g.rng.chance(1, 3);
        if in_loop {
            out.push(text("{% for it in arr %}"));
            if g.rng.chance(1, 2) {
                g.loop_slots.push(g.slots.len());
                g.slot(out, info.clone(), false, false);
            }
        }
        if g.rng.chance(1, 2) {
            let p = g.prefix();
            out.push(fill(p));
        }
        // the call may sit inside output captures: the VM renders it into a capture buffer there
        let (cap, open, close): (&'static str, &str, &str) = match g.rng.below(18) {
            0 | 1 => ("filter", "{% filter upper %}", "{% endfilter %}"),
            2 | 3 => ("set", "{% set capq %}", "{% endset %}{{ capq }}"),
            4 | 5 => ("body", "{% <wrapq> %}", "{% </wrapq> %}"),
            6 => ("filter+set", "{% filter trim %}é{% set capq %}", "{% endset %}{{ capq }}{% endfilter %}"),
            7 => ("set+body", "{% set capq %}{% <wrapq> %}\t", "{% </wrapq> %}{% endset %}{{ capq }}"),
            8 => ("body+filter", "{% <wrapq> %}{%- filter upper -%}", "{% endfilter %}{% </wrapq> %}"),
            _ => ("", "", ""),
        };
        if cap.contains("body") {
            g.need_wrap = true;
        }
        if !cap.is_empty() {
            // tied to the call (kind CallClose) so that the shrinker removes it with the call
            out.push(Piece { text: open.to_string(), kind: PK::CallClose(c.unit), anchor: 0, cap: "" });
            if g.rng.chance(1, 3) {
                let nl = g.nl();
                out.push(fill(nl));
            }
        }
        out.push(Piece { text: c.open.clone(), kind: PK::Call(c.unit), anchor: c.anchor, cap });
        if let Some(close) = &c.close {
            g.filler(out, 1);
            let mut bi = info.clone();
            bi.base_role = "component-call-body";
            g.slot(out, bi, false, false);
            out.push(Piece { text: close.clone(), kind: PK::CallClose(c.unit), anchor: 0, cap: "" });
        }
        if !cap.is_empty() {
            out.push(Piece { text: close.to_string(), kind: PK::CallClose(c.unit), anchor: 0, cap: "" });
        }
        let nl = g.nl();
        out.push(fill(nl));
        if in_loop {
            out.push(text("{% endfor %}"));
        }
        g.filler(out, 2);
    }
    if g.rng.chance(1, 2) || end_eof {
        g.slot(out, info.clone(), false, end_eof);
    }
    if !end_eof {
        g.filler(out, 2);
    }
}

/// Build a valid multi-template set.
fn gen_set(rng: &mut Rng) -> TSet {
    let inherit = rng.chance(2, 3);
    let n_inc = *rng.pick(&[0usize, 1, 1, 2, 2]);
    let comps = rng.chance(3, 4);
    let has_b = comps && rng.chance(2, 3);
    let has_c = comps && n_inc > 0 && rng.chance(2, 3);
    let has_l = rng.chance(1, 3);
    let has_q = comps && rng.chance(1, 2);

    // units: 0 = entry family
    let mut units = vec![Unit { kind: UnitKind::Entry, caller: None, comp: None }];
    let mut new_unit = |kind: UnitKind, comp: Option<&'static str>| {
        units.push(Unit { kind, caller: None, comp });
        units.len() - 1
    };
    let u_inc1 = (n_inc >= 1).then(|| new_unit(UnitKind::Include, None));
    let u_inc2 = (n_inc >= 2).then(|| new_unit(UnitKind::Include, None));
    let u_a = comps.then(|| new_unit(UnitKind::Component, Some("ui.badge")));
    let u_b = has_b.then(|| new_unit(UnitKind::Component, Some("ui.card")));
    let u_c = has_c.then(|| new_unit(UnitKind::Component, Some("inc_widget")));
    let u_l = has_l.then(|| new_unit(UnitKind::Component, Some("local_box")));

    let root_name = if inherit { *rng.pick(&["base.html", "layouts/base.html"]) } else { "page.html" };
    let child_name = *rng.pick(&["child.html", "pages/index.html"]);
    let inc1_name = *rng.pick(&["inc1.html", "partials/nav.html"]);
    let inc2_name = "partials/deep/inner.txt";
    let comps_name = *rng.pick(&["comps.html", "ui/components.html"]);
    // one set in five: the name of a parent / component file is a SUFFIX of the name of the
    // template that extends it / calls into it (same basename in another directory, or one more
    // leading character)
    let (root_name, child_name, inc1_name, inc2_name, comps_name) = if rng.chance(1, 5) {
        match (inherit, rng.below(3)) {
            (true, 0) => ("base.html", "admin/base.html", "x/admin/base.html", "partials/deep/inner.txt", "xbase.html"),
            (true, 1) => ("base.html", "xbase.html", "partials/e.html", "deep/xe.html", "e.html"),
            (true, _) => ("layouts/card.html", "ui/layouts/card.html", "partials/card.html", "xcard.html", "card.html"),
            (false, 0) => ("ui/card.html", "unused.html", "partials/card.html", "xcard.html", "card.html"),
            (false, 1) => ("xcard.html", "unused.html", "a/xcard.html", "b/a/xcard.html", "card.html"),
            (false, _) => ("page.html", "unused.html", "inc/ge.html", "inc/page.html", "ge.html"),
        }
    } else {
        (root_name, child_name, inc1_name, inc2_name, comps_name)
    };

    // blocks of the root and which ones the child overrides (with / without super())
    let blocks: Vec<&str> = if rng.chance(1, 2) { vec!["head", "main", "foot"] } else { vec!["head", "main"] };
    // 0 = not overridden, 1 = overridden with super, 2 = overridden without super
    let ov: Vec<u8> = blocks.iter().map(|_| if inherit { rng.below(3) as u8 } else { 0 }).collect();

    // hosts at entry level: (kind, block index) 0 = root top, 1 = root block, 2 = child block
    let mut hosts: Vec<(u8, usize)> = vec![(0, 0)];
    for (i, o) in ov.iter().enumerate() {
        if *o != 2 {
            hosts.push((1, i));
        }
        if *o != 0 {
            hosts.push((2, i));
        }
    }
    #[derive(Clone, Copy, PartialEq, Debug)]
    enum Host {
        Entry(u8, usize),
        Inc1,
        Inc2,
        /// body of the definition of component unit `u`
        Def(usize),
    }
    let mut placed: Vec<(Host, CallSpec)> = Vec::new();
    let pick_entry = |rng: &mut Rng| {
        let h = *rng.pick(&hosts);
        Host::Entry(h.0, h.1)
    };
    if let Some(u) = u_inc1 {
        // at entry level, or inside the body of a component that is called from entry level
        let comp_hosts: Vec<usize> = [u_b, u_l, u_a].iter().flatten().copied().collect();
        if !comp_hosts.is_empty() && rng.chance(1, 4) {
            let h = *rng.pick(&comp_hosts);
            placed.push((Host::Def(h), include_call(rng, u, inc1_name)));
            units[u].caller = Some(h);
        } else {
            placed.push((pick_entry(rng), include_call(rng, u, inc1_name)));
            units[u].caller = Some(0);
        }
    }
    if let Some(u) = u_inc2 {
        placed.push((Host::Inc1, include_call(rng, u, inc2_name)));
        units[u].caller = u_inc1;
    }
    if let Some(u) = u_b {
        placed.push((pick_entry(rng), comp_call(rng, u, "ui.card", true)));
        units[u].caller = Some(0);
    }
    if let Some(u) = u_a {
        if u_b.is_some() && rng.chance(1, 2) {
            placed.push((Host::Def(u_b.unwrap()), comp_call(rng, u, "ui.badge", false)));
            units[u].caller = u_b;
        } else {
            placed.push((pick_entry(rng), comp_call(rng, u, "ui.badge", false)));
            units[u].caller = Some(0);
        }
    }
    if let Some(u) = u_c {
        if u_inc2.is_some() && rng.chance(1, 2) {
            placed.push((Host::Inc2, comp_call(rng, u, "inc_widget", false)));
            units[u].caller = u_inc2;
        } else {
            placed.push((Host::Inc1, comp_call(rng, u, "inc_widget", false)));
            units[u].caller = u_inc1;
        }
    }
    if let Some(u) = u_l {
        placed.push((pick_entry(rng), comp_call(rng, u, "local_box", false)));
        units[u].caller = Some(0);
    }
    let calls_of = |h: Host| -> Vec<CallSpec> { placed.iter().filter(|(x, _)| *x == h).map(|(_, c)| c.clone()).collect() };

    let mut tpls: Vec<TplB> = Vec::new();
    let mut g = G { rng, crlf: false, slots: Vec::new(), loop_slots: Vec::new(), need_wrap: false };

    // ---- root
    let root_idx = 0usize;
    {
        g.crlf = g.rng.chance(1, 5);
        let mut out = Vec::new();
        let role = if inherit { "parent" } else { "entry" };
        let top = SlotInfo { tpl: root_idx, unit: 0, live: true, child_tpl: false, in_block: false, in_comp_def: false, base_role: role };
        let bare = g.rng.chance(1, 4);
        region(&mut g, &mut out, &top, &calls_of(Host::Entry(0, 0)), bare, false);
        for (i, b) in blocks.iter().enumerate() {
            let ws = if g.rng.chance(1, 4) { "-" } else { "" };
            out.push(text(format!("{{%{ws} block {b} %}}")));
            let bi = SlotInfo { live: ov[i] != 2, in_block: true, ..top.clone() };
            let calls = if ov[i] != 2 { calls_of(Host::Entry(1, i)) } else { vec![] };
            region(&mut g, &mut out, &bi, &calls, false, false);
            out.push(text(if g.rng.chance(1, 2) { format!("{{% endblock {b} %}}") } else { "{% endblock %}".to_string() }));
            let nl = g.nl();
            out.push(fill(nl));
        }
        if let Some(_u) = u_l {
            out.push(text(format!("{{% component local_box({PARAMS}) %}}")));
            let ci = SlotInfo { unit: u_l.unwrap(), in_comp_def: true, base_role: "component", ..top.clone() };
            region(&mut g, &mut out, &ci, &calls_of(Host::Def(u_l.unwrap())), false, false);
            out.push(text("{% endcomponent local_box %}"));
            let nl = g.nl();
            out.push(fill(nl));
        }
        // tail of the root: possibly a slot on the last line without trailing newline
        g.filler(&mut out, 2);
        if g.rng.chance(1, 3) {
            g.slot(&mut out, top.clone(), false, true);
        }
        tpls.push(TplB { name: root_name.to_string(), pieces: out });
    }
    // ---- child
    let mut entry = root_idx;
    if inherit {
        g.crlf = g.rng.chance(1, 5);
        let idx = tpls.len();
        entry = idx;
        let mut out = Vec::new();
        if g.rng.chance(1, 3) {
            out.push(fill("{# child é #}\n"));
        }
        out.push(text(format!("{{% extends \"{root_name}\" %}}")));
        let dead = SlotInfo { tpl: idx, unit: 0, live: false, child_tpl: true, in_block: false, in_comp_def: false, base_role: "child-top-unrendered" };
        // same line as the extends tag
        if g.rng.chance(1, 2) {
            g.slot(&mut out, dead.clone(), true, false);
        } else {
            let nl = g.nl();
            out.push(fill(nl));
        }
        g.filler(&mut out, 2);
        for (i, b) in blocks.iter().enumerate() {
            if ov[i] == 0 {
                continue;
            }
            out.push(text(format!("{{% block {b} %}}")));
            let bi = SlotInfo { live: true, in_block: true, base_role: "child-block", ..dead.clone() };
            let super_first = g.rng.chance(1, 2);
            if ov[i] == 1 && super_first {
                out.push(text("{{ super() }}"));
            }
            region(&mut g, &mut out, &bi, &calls_of(Host::Entry(2, i)), false, false);
            if ov[i] == 1 && !super_first {
                out.push(text("{{ super() }}"));
            }
            out.push(text(format!("{{% endblock {b} %}}")));
            let nl = g.nl();
            out.push(fill(nl));
            if g.rng.chance(1, 3) {
                g.slot(&mut out, dead.clone(), false, false);
            }
        }
        if g.rng.chance(1, 3) {
            g.slot(&mut out, dead.clone(), false, true);
        }
        tpls.push(TplB { name: child_name.to_string(), pieces: out });
    }
    // ---- includes
    let via_include = |units: &Vec<Unit>, mut u: usize| -> bool {
        loop {
            if units[u].kind == UnitKind::Include {
                return true;
            }
            match units[u].caller {
                Some(c) => u = c,
                None => return false,
            }
        }
    };
    if let Some(u) = u_inc1 {
        g.crlf = g.rng.chance(1, 5);
        let idx = tpls.len();
        let mut out = Vec::new();
        let role = if units[u].caller.is_some_and(|c| units[c].kind == UnitKind::Component) { "include-in-component" } else { "include" };
        let info = SlotInfo { tpl: idx, unit: u, live: true, child_tpl: false, in_block: false, in_comp_def: false, base_role: role };
        let bare = g.rng.chance(1, 4);
        let eof = g.rng.chance(1, 3);
        region(&mut g, &mut out, &info, &calls_of(Host::Inc1), bare, eof);
        tpls.push(TplB { name: inc1_name.to_string(), pieces: out });
    }
    if let Some(u) = u_inc2 {
        g.crlf = g.rng.chance(1, 5);
        let idx = tpls.len();
        let mut out = Vec::new();
        let info = SlotInfo { tpl: idx, unit: u, live: true, child_tpl: false, in_block: false, in_comp_def: false, base_role: "nested-include" };
        let bare = g.rng.chance(1, 4);
        let eof = g.rng.chance(1, 3);
        region(&mut g, &mut out, &info, &calls_of(Host::Inc2), bare, eof);
        tpls.push(TplB { name: inc2_name.to_string(), pieces: out });
    }
    // ---- component definitions
    if comps {
        g.crlf = g.rng.chance(1, 5);
        let idx = tpls.len();
        let mut out = Vec::new();
        let dead = SlotInfo { tpl: idx, unit: 0, live: false, child_tpl: false, in_block: false, in_comp_def: false, base_role: "component-file-top-unrendered" };
        if g.rng.chance(1, 4) {
            g.slot(&mut out, dead.clone(), true, false);
        }
        g.filler(&mut out, 2);
        let mut defs: Vec<(&str, usize, bool)> = Vec::new();
        if let Some(u) = u_a {
            defs.push(("ui.badge", u, false));
        }
        if let Some(u) = u_b {
            defs.push(("ui.card", u, true));
        }
        if let Some(u) = u_c {
            defs.push(("inc_widget", u, false));
        }
        if g.rng.chance(1, 2) {
            defs.reverse();
        }
        for (name, u, body) in defs {
            out.push(text(format!("{{% component {name}({PARAMS}) %}}")));
            let role = if via_include(&units, u) {
                "component-via-include"
            } else if units[u].caller.is_some_and(|c| units[c].kind == UnitKind::Component) {
                "component-in-component"
            } else {
                "component"
            };
            let ci = SlotInfo { tpl: idx, unit: u, live: true, child_tpl: false, in_block: false, in_comp_def: true, base_role: role };
            if body {
                out.push(text("<card>{{ body }}</card>"));
            }
            let calls = calls_of(Host::Def(u));
            region(&mut g, &mut out, &ci, &calls, false, false);
            out.push(text(if g.rng.chance(1, 2) { format!("{{% endcomponent {name} %}}") } else { "{% endcomponent %}".to_string() }));
            let nl = g.nl();
            out.push(fill(nl));
            if g.rng.chance(1, 3) {
                g.slot(&mut out, dead.clone(), false, false);
            }
        }
        if has_q {
            out.push(text("{% component strict_q(num: integer, label: string = \"l\") %}[{{ num }}{{ label }}]{% endcomponent strict_q %}"));
        }
        if g.rng.chance(1, 4) {
            g.slot(&mut out, dead.clone(), false, true);
        }
        tpls.push(TplB { name: comps_name.to_string(), pieces: out });
    }
    // some sources BEGIN with a byte order mark or another multi-byte character (what the error
    // quotes is the stored source, so every offset counts from its very first byte)
    for (ti, t) in tpls.iter_mut().enumerate() {
        if g.rng.chance(1, 5) {
            // before `extends` only white space is accepted (U+00A0 is, a BOM is not)
            let pre = if inherit && ti == entry {
                "\u{a0}"
            } else {
                pk(g.rng, &["\u{feff}", "\u{feff}", "\u{feff}", "\u{feff}\u{feff}", "\u{200b}", "\u{a0}", "é", "😀", "\u{feff}\n", "\u{feff}\r\n", "\u{feff}é "])
            };
            t.pieces.insert(0, fill(pre));
        }
    }
    if g.need_wrap {
        tpls.push(TplB { name: "wrap.html".to_string(), pieces: vec![text("{% component wrapq() %}<w>{{ body }}</w>{% endcomponent wrapq %}")] });
    }
    let slots = g.slots;
    let loop_slots = g.loop_slots;
    TSet { delims: None, route: 0, tpls, entry, slots, loop_slots, units, has_comp_q: has_q }
}

// ------------------------------------------------------------------ faults

#[derive(Clone, Copy, Debug, PartialEq)]
enum Cover {
    Contains,
    Overlaps,
    AtOrAfter,
}

#[derive(Clone, Copy, Debug, PartialEq)]
enum Expect {
    Render,
    Syntax,
    MsgReport,
}

#[derive(Clone, Debug)]
struct Fault {
    class: &'static str,
    text: String,
    /// offending token, relative to `text`
    tok: Range<usize>,
    cover: Cover,
    expect: Expect,
}

fn find(hay: &str, needle: &str) -> Range<usize> {
    // a leading '@' asks for the last occurrence
    if let Some(n) = needle.strip_prefix('@') {
        let i = hay.rfind(n).unwrap_or_else(|| panic!("needle {n:?} not in {hay:?}"));
        return i..i + n.len();
    }
    let i = hay.find(needle).unwrap_or_else(|| panic!("needle {needle:?} not in {hay:?}"));
    i..i + needle.len()
}

/// (class, expression, token inside the expression, cover, print-context-only)
fn render_exprs(has_q: bool) -> Vec<(&'static str, &'static str, &'static str, Cover, bool)> {
    use Cover::*;
    let mut v = vec![
        ("undefined-var", "nosuchvar", "nosuchvar", Contains, true),
        ("undefined-var", "nosuchvar.field", "nosuchvar", Contains, false),
        ("undefined-field", "a.nosuch.deeper", "nosuch", Contains, false),
        ("undefined-field", "a.b.nosuch", "nosuch", Contains, true),
        ("undefined-field", "n.x.y", "x", Contains, false),
        ("undefined-operand", "n + nosuchvar.x", "nosuchvar", Contains, false),
        ("undefined-operand", "1 + nosuchvar", "nosuchvar", Contains, false),
        ("undefined-operand", "arr[nosuchvar]", "nosuchvar", Contains, false),
        ("undefined-operand", "arr[1:nosuchvar]", "nosuchvar", Contains, false),
        ("bad-operand", "1 + \"a\"", "\"a\"", Contains, false),
        ("bad-operand", "[1] * 2", "[1]", Contains, false),
        ("bad-operand", "\"a\" // 2", "\"a\"", Contains, false),
        ("bad-operand", "-\"s\"", "\"s\"", Contains, false),
        ("bad-operand", "\"x\" < 1", "\"x\"", Contains, false),
        ("bad-operand", "[\"é😀\", n - \"日本\"]", "\"日本\"", Contains, false),
        ("bad-operand", "s ~ \"é\" ~ (m * 2)", "m", Contains, false),
        ("bad-operand", "1 +\n\t\"a\"", "\"a\"", Contains, false),
        ("bad-operand", "\"é\ny\" * 2", "\"é\ny\"", Contains, false),
        ("bad-operand", "[1,\n 2]\n - 1", "[1,\n 2]", Contains, false),
        ("int-overflow", "9223372036854775807 *\n 9223372036854775807 *\n\t9223372036854775807", "9223372036854775807 *\n 9223372036854775807 *\n\t9223372036854775807", Contains, false),
        ("function-error", "throw(\n message=\"boom\"\n)", "throw(\n message=\"boom\"\n)", Contains, false),
        ("bad-operand", "[x * \"a\" for x in arr]", "\"a\"", Contains, false),
        ("undefined-operand", "1 if nosuchvar.x else 2", "nosuchvar", Contains, false),
        ("undefined-operand", "arr[nosuchvar:]", "nosuchvar", Contains, false),
        ("bad-index", "arr[::0]", "arr[::0]", Overlaps, false),
        ("bad-index", "n[1:2]", "n[1:2]", Overlaps, false),
        ("div-zero", "{\"k\": 1 / 0, \"é\": 2}", "0", Contains, false),
        // arithmetic failures other than a division by zero: the engine names the whole failing
        // binary operation (both operands), never one operand alone
        ("arith-overflow", "10 ** 40", "10 ** 40", Contains, false),
        ("arith-overflow", "9223372036854775807 * 9223372036854775807 * 4", "9223372036854775807 * 9223372036854775807 * 4", Contains, false),
        ("arith-overflow", "1 + (3 ** 90)", "3 ** 90", Contains, false),
        ("arith-overflow", "[\"é😀\", 2 **\n\t127]", "2 **\n\t127", Contains, false),
        ("arith-overflow", "0 - 9223372036854775807 * 9223372036854775807 * 2 - 9223372036854775807 * 9223372036854775807 * 2 - 9", "0 - 9223372036854775807 * 9223372036854775807 * 2 - 9223372036854775807 * 9223372036854775807 * 2", Contains, false),
        ("arith-overflow", "imax * two", "imax * two", Contains, false),
        ("arith-overflow", "imin - one", "imin - one", Contains, false),
        ("arith-overflow", "imax - imin", "imax - imin", Contains, false),
        ("arith-overflow", "imin // (0 - one)", "imin // (0 - one", Overlaps, false),
        ("arith-overflow", "\"é\" ~ (ten ** forty)", "ten ** forty", Contains, false),
        ("operand-out-of-range", "big * two", "big * two", Contains, false),
        ("operand-out-of-range", "two * big", "two * big", Contains, false),
        ("operand-out-of-range", "big - one", "big - one", Contains, false),
        ("operand-out-of-range", "one - big", "one - big", Contains, false),
        ("operand-out-of-range", "big // ten", "big // ten", Contains, false),
        ("operand-out-of-range", "ten % big", "ten % big", Contains, false),
        ("operand-out-of-range", "[one, big **\n two]", "big **\n two", Contains, false),
        ("operand-out-of-range", "one + (big * two) + ten", "big * two", Contains, false),
        // slice bounds of the wrong kind: the engine names the bound itself
        ("bad-slice-bound", "arr[:\"2\"]", "\"2\"", Contains, false),
        ("bad-slice-bound", "arr[1:\"x\"]", "\"x\"", Contains, false),
        ("bad-slice-bound", "arr[n - 5:m]", "m", Contains, false),
        ("bad-slice-bound", "arr[:2.5]", "2.5", Contains, false),
        ("bad-slice-bound", "arr[:true:1]", "true", Contains, false),
        ("bad-slice-bound", "arr[0:[1]:1]", "[1]", Contains, false),
        ("bad-slice-bound", "s[:\"1\"]", "\"1\"", Contains, false),
        ("bad-slice-bound", "s[1:2.5]", "2.5", Contains, false),
        ("bad-slice-bound", "\"é😀日本\"[1:\"é\"]", "\"é\"]", Overlaps, false),
        ("bad-slice-bound", "arr[::\"2\"]", "\"2\"", Contains, false),
        ("bad-slice-bound", "arr[1::1.5]", "1.5", Contains, false),
        ("bad-slice-bound", "arr[:2:[1]]", "[1]", Contains, false),
        ("bad-slice-bound", "arr[0:1:s]", "@s", Contains, false),
        ("bad-slice-bound", "s[::m]", "m", Contains, false),
        ("bad-slice-bound", "arr[\"a\":]", "\"a\"", Contains, false),
        ("bad-slice-bound", "arr[1.5:2]", "1.5", Contains, false),
        ("bad-slice-bound", "s[m:1:1]", "m", Contains, false),
        ("bad-slice-bound", "arr[:\n\t\"2\"\n]", "\"2\"", Contains, false),
        ("div-zero", "1 / 0", "0", Contains, false),
        ("div-zero", "n % 0", "0", Contains, false),
        ("div-zero", "\"é😀x\" == s or 1 // 0", "0", Contains, false),
        ("filter-missing-arg", "s | split", "split", Contains, false),
        ("filter-missing-arg", "s | replace(from=\"a\")", "replace(from=\"a\")", Contains, false),
        ("filter-missing-arg", "arr | nth", "nth", Contains, false),
        ("filter-missing-arg", "\"é😀\" | truncate", "truncate", Contains, false),
        ("filter-wrong-kind", "n | upper", "n", Contains, false),
        ("filter-wrong-kind", "arr | trim", "arr", Contains, false),
        ("filter-wrong-kind", "a.b.c | upper", "a.b.c", Overlaps, false),
        ("bad-operand", "\"x\" + a.b.c", "a.b.c", Overlaps, false),
        ("in-non-container", "1 in a.b.c", "a.b.c", Overlaps, false),
        ("filter-wrong-kind", "s | join(sep=\",\")", "s", Contains, false),
        ("filter-wrong-arg-type", "s | truncate(length=\"x\")", "s | truncate(length=\"x\")", Overlaps, false),
        ("filter-wrong-arg-type", "arr | join(sep=1)", "arr | join(sep=1)", Overlaps, false),
        ("filter-bad-value", "1.5 | round(method=\"nope\")", "round(method=\"nope\")", Contains, false),
        ("bad-index", "arr[10]", "10", Contains, true),
        ("bad-index", "s[\"k\"]", "\"k\"", Contains, false),
        ("bad-index", "arr[\"x\"]", "\"x\"", Contains, false),
        ("bad-index", "m[\"zz\"]", "\"zz\"", Contains, true),
        ("int-overflow", "9223372036854775807 * 9223372036854775807 * 9223372036854775807", "9223372036854775807 * 9223372036854775807 * 9223372036854775807", Contains, false),
        ("test-wrong-kind", "s is divisible_by(divisor=2)", "s", Contains, false),
        ("test-wrong-kind", "n is starting_with(pat=\"x\")", "n", Contains, false),
        ("test-missing-arg", "n is divisible_by", "divisible_by", Contains, false),
        ("function-error", "throw(message=\"boom é\")", "throw(message=\"boom é\")", Contains, false),
        ("function-error", "range()", "range()", Contains, false),
        ("function-error", "range(end=\"x\")", "range(end=\"x\")", Contains, false),
        ("in-non-container", "1 in 2", "2", Contains, false),
        ("spread-non-array", "[1, ...n]", "n", Contains, false),
        ("spread-non-array", "{...n}", "n", Contains, false),
    ];
    if has_q {
        v.push(("component-bad-call", "<strict_q />", "<strict_q />", Contains, false));
        v.push(("component-bad-call", "<strict_q num=\"s\" />", "<strict_q num=\"s\" />", Contains, false));
        v.push(("component-bad-call", "<strict_q num={1} zz=\"é\" />", "<strict_q num={1} zz=\"é\" />", Contains, false));
    }
    v
}

fn wrap_expr(rng: &mut Rng, expr: &str, print_only: bool, crlf: bool) -> (String, usize) {
    let nl = if crlf { "\r\n" } else { "\n" };
    let print_only = print_only || expr.starts_with('-');
    let w = if print_only { *rng.pick(&[0usize, 0, 1, 4]) } else { *rng.pick(&[0usize, 0, 0, 1, 2, 3, 4, 5, 6]) };
    let (pre, post): (String, String) = match w {
        0 => ("{{ ".into(), " }}".into()),
        1 => ("{{- ".into(), " -}}".into()),
        2 => ("{% if ".into(), " %}y{% endif %}".into()),
        3 => ("{% set zq = ".into(), " %}".into()),
        4 => (format!("{{{{{nl}\t"), format!("{nl}}}}}")),
        5 => ("{{ \"é😀\" ~ (".into(), ") }}".into()),
        _ => (format!("{{% if \"日本\" and{nl}  "), " %}y{% endif %}".into()),
    };
    let off = pre.len();
    (format!("{pre}{expr}{post}"), off)
}

/// Pick a fault for the slot. `before` / `after` = host source before / after the slot.
fn gen_fault(rng: &mut Rng, set: &TSet, slot: usize, after: &str, forced: Option<&str>) -> Option<Fault> {
    use Cover::*;
    let info = &set.slots[slot];
    let crlf = rng.chance(1, 6);
    let mut candidates: Vec<Fault> = Vec::new();
    let want_render = match forced {
        Some(f) => is_render_class(f),
        None => info.live && rng.chance(11, 20),
    };
    if want_render && !info.live {
        return None;
    }
    if want_render {
        // (class, text, token range, cover)
        let mut pool: Vec<(&'static str, String, Range<usize>, Cover)> = Vec::new();
        // inside a component (and what it includes) only the component's parameters exist: the
        // faults that need the big integers of the context are not offered there
        let ctx_lost = {
            let mut u = info.unit;
            let mut lost = false;
            loop {
                if set.units[u].kind == UnitKind::Component {
                    lost = true;
                }
                match set.units[u].caller {
                    Some(c) => u = c,
                    None => break,
                }
            }
            lost
        };
        for (class, e, t, cover, po) in render_exprs(set.has_comp_q) {
            if ctx_lost && (class == "operand-out-of-range" || ["imax", "imin", "two", "one", "ten", "forty"].iter().any(|w| e.contains(w))) {
                continue;
            }
            let po = po || class == "component-bad-call";
            let (txt, off) = wrap_expr(rng, e, po, crlf);
            let tr = find(e, t);
            pool.push((class, txt, off + tr.start..off + tr.end, cover));
        }
        let mut tags = vec![
            ("not-iterable", "{% for q in 1 %}x{% endfor %}".to_string(), "1", Contains),
            // a dotted path is fused into one instruction whose value carries the span of its first
            // element only (`a`): overlap is all that can be asked
            ("not-iterable", "{%- for q in a.n -%}\n x é {% endfor %}".to_string(), "a.n", Overlaps),
            // the value comes out of a filter: the engine reports the filter segment only
            ("not-iterable", "{% for q in \"é😀\" | length %}x{% else %}y{% endfor %}".to_string(), "\"é😀\" | length", Overlaps),
            ("kv-on-array", "{% for k, v in arr %}x{% endfor %}".to_string(), "arr", Contains),
            // set block with a chain of filters. A value-kind failure is reported on the producer of
            // the value: the previous filter's call, or the FIRST filter's call when the captured
            // text itself is refused; a missing argument on the failing filter's own call. Never on a
            // filter that did not take part.
            ("set-filter-chain", "{% set zq | round | upper %}abc{% endset %}".to_string(), "round", Contains),
            ("set-filter-chain", "{% set zq | join(sep=\",\") | upper | trim %}é{% endset %}".to_string(), "join(sep=\",\")", Contains),
            ("set-filter-chain", "{% set zq | keys | length %}abc{% endset %}".to_string(), "keys", Contains),
            ("set-filter-chain", "{% set zq | truncate(length=\"20\") | upper %}abc{% endset %}".to_string(), "truncate(length=\"20\")", Contains),
            ("set-filter-chain", "{% set zq | round | trim | upper | lower %}x{% endset %}".to_string(), "round", Contains),
            ("set-filter-chain", "{% set zq\n | nth(n=1)\n | upper %}abc{% endset %}".to_string(), "nth(n=1)", Contains),
            ("set-filter-chain", "\t{%- set zq | first | trim | length -%}é😀{% endset %}".to_string(), "first", Contains),
            ("set-filter-chain", "{% set zq | upper | round %}abc{% endset %}".to_string(), "upper", Contains),
            ("set-filter-chain", "{% set zq | trim | upper | keys %}abc{% endset %}".to_string(), "upper", Contains),
            ("set-filter-chain", "{% set zq | upper | trim | split %}abc{% endset %}".to_string(), "split", Contains),
            ("set-filter-chain", "{% set zq | upper | replace(from=\"a\") | trim %}abc{% endset %}".to_string(), "replace(from=\"a\")", Contains),
            // faults inside nested bodies: filter sections, set blocks, for-else, elif, nested loops
            ("div-zero", "{% filter upper %}é {{ 1 / 0 }}{% endfilter %}".to_string(), "0", Contains),
            ("filter-wrong-arg-type", "{% filter truncate(length=\"x\") %}abc{% endfilter %}".to_string(), "{% filter truncate(length=\"x\") %}abc{% endfilter %}", Overlaps),
            ("filter-wrong-kind", "{% set zq %}é{{ n | upper }}{% endset %}".to_string(), "n", Contains),
            ("filter-bad-value", "{% set zq | int %}abc{% endset %}".to_string(), "{% set zq | int %}abc{% endset %}", Overlaps),
            ("div-zero", "{% for q in [] %}x{% else %}\t{{ 1 / 0 }}{% endfor %}".to_string(), "0", Contains),
            ("undefined-var", "{% if false %}a{% elif n %}é{{ nosuchvar }}{% else %}b{% endif %}".to_string(), "nosuchvar", Contains),
            ("undefined-field", "{% for q in arr %}{% for r in arr %}\n{{ q.x.y }}{% endfor %}{% endfor %}".to_string(), "x", Contains),
            ("undefined-field", "{% for q in arr %}{% if loop.first %}{{ loop.nosuch.x }}{% endif %}{% endfor %}".to_string(), "nosuch", Contains),
            ("bad-operand", "{% for k, v in m %}{{ k ~ \"é\" }}{{ v * 2 }}{% endfor %}".to_string(), "@v", Contains),
            ("kv-on-array", "\t{% for k, v in \"日本\" %}x{% endfor %}".to_string(), "\"日本\"", Contains),
        ];
        // a child block may call super(); everywhere else it is an error at render time
        if !(info.child_tpl && info.in_block) {
            tags.push(("super-misuse", "{{ super() }}".to_string(), "super()", Contains));
            tags.push(("super-misuse", "{{ \"é😀\" ~ super() }}".to_string(), "super()", Contains));
        }
        for (class, txt, t, cover) in tags {
            let tr = find(&txt, t);
            pool.push((class, txt, tr, cover));
        }
        let pool: Vec<_> = pool.into_iter().filter(|c| forced.is_none_or(|f| f == c.0)).collect();
        if pool.is_empty() {
            return None;
        }
        let mut classes: Vec<&str> = pool.iter().map(|c| c.0).collect();
        classes.dedup();
        let cl = *rng.pick(&classes);
        let vs: Vec<_> = pool.iter().filter(|c| c.0 == cl).collect();
        let (class, txt, tr, cover) = (*rng.pick(&vs)).clone();
        candidates.push(Fault { class, text: txt, tok: tr, cover, expect: Expect::Render });
    } else {
        let deep = format!("{{{{ {}1{} }}}}", "(".repeat(41), ")".repeat(41));
        let nest = format!("{}x{}", "{% filter upper %}".repeat(41), "{% endfilter %}".repeat(41));
        let mut v: Vec<(&'static str, String, String, Cover, Expect)> = vec![
            ("unexpected-char", "{{ a ^ b }}".into(), "^".into(), Contains, Expect::Syntax),
            ("unexpected-char", "{{ a ? }}".into(), "?".into(), Contains, Expect::Syntax),
            ("unexpected-char", "{{ é }}".into(), "é".into(), Contains, Expect::Syntax),
            ("unexpected-char", "{{ \"日本\" ~ a € b }}".into(), "€".into(), Contains, Expect::Syntax),
            ("unexpected-char", "{% if n & 😀 %}".into(), "&".into(), Contains, Expect::Syntax),
            ("unexpected-char", "{{ 😀 }}".into(), "😀".into(), Contains, Expect::Syntax),
            ("unterminated-string", "{{ `abc é }}".into(), "`".into(), Contains, Expect::Syntax),
            ("unterminated-string", "{{ \"é😀\" ~ `abc\\` }}".into(), "`".into(), Contains, Expect::Syntax),
            ("bad-escape", "{{ \"a\\qb\" }}".into(), "\"a\\qb\"".into(), Contains, Expect::Syntax),
            ("bad-escape", "{{ \"é😀\" ~ 'x\\é' }}".into(), "'x\\é'".into(), Contains, Expect::Syntax),
            ("unterminated-var", "{{ a".into(), "{{ a".into(), AtOrAfter, Expect::Syntax),
            ("unterminated-var", "{{ n + ".into(), "{{ n + ".into(), AtOrAfter, Expect::Syntax),
            ("unterminated-tag", "{% if a".into(), "{% if a".into(), AtOrAfter, Expect::Syntax),
            ("unterminated-tag", "{% set zz = \"é\" ~".into(), "{% set".into(), AtOrAfter, Expect::Syntax),
            ("missing-end-tag", "{% if n %}".into(), "{% if n %}".into(), AtOrAfter, Expect::Syntax),
            ("missing-end-tag", "{% for q in arr %}".into(), "{% for q in arr %}".into(), AtOrAfter, Expect::Syntax),
            ("missing-end-tag", "{% filter upper %}é".into(), "{% filter upper %}".into(), AtOrAfter, Expect::Syntax),
            ("missing-end-tag", "{% <ui.nope> %}".into(), "{% <ui.nope> %}".into(), AtOrAfter, Expect::Syntax),
            ("missing-end-tag", "{% if n %}é{# trailing comment #}".into(), "{% if n %}".into(), AtOrAfter, Expect::Syntax),
            ("missing-end-tag", "{% <ui.nope> %}x{#- c -#}".into(), "{% <ui.nope> %}".into(), AtOrAfter, Expect::Syntax),
            ("missing-end-tag", "{% set zq %}{# multi\nline #}".into(), "{% set zq %}".into(), AtOrAfter, Expect::Syntax),
            ("unknown-tag", "{% nosuchtag %}".into(), "nosuchtag".into(), Contains, Expect::Syntax),
            ("unknown-tag", "{%- nosuchtag x=1 -%}".into(), "nosuchtag".into(), Contains, Expect::Syntax),
            ("elif-after-else", "{% if a %}x{% else %}y{% elif n %}z{% endif %}".into(), "elif".into(), Contains, Expect::Syntax),
            ("extends-misplaced", "q{% extends \"nosuch.html\" %}".into(), "{% extends \"nosuch.html\" %}".into(), Overlaps, Expect::Syntax),
            ("duplicate-block", "{% block dupq %}{% endblock %}{% block dupq %}{% endblock %}".into(), "{% block dupq %}{% endblock %}{% block dupq %}{% endblock %}".into(), Overlaps, Expect::Syntax),
            ("int-literal-too-large", "{{ 99999999999999999999 }}".into(), "99999999999999999999".into(), Contains, Expect::Syntax),
            ("int-literal-too-large", "{{ \"é\" ~ 9223372036854775808 }}".into(), "9223372036854775808".into(), Contains, Expect::Syntax),
            ("empty-expr", "{{ }}".into(), "{{ }}".into(), Overlaps, Expect::Syntax),
            ("empty-expr", "{{-\n-}}".into(), "{{-\n-}}".into(), Overlaps, Expect::Syntax),
            ("missing-operand", "{{ 1 + }}".into(), "+ }}".into(), Overlaps, Expect::Syntax),
            ("missing-operand", "{% if n and %}".into(), "and %}".into(), Overlaps, Expect::Syntax),
            ("stray-end-tag", "{% endif %}".into(), "endif".into(), Contains, Expect::Syntax),
            ("stray-end-tag", "{% endfilter %}".into(), "endfilter".into(), Contains, Expect::Syntax),
            ("stray-end-tag", "{%- endset -%}".into(), "endset".into(), Contains, Expect::Syntax),
            ("too-deep", deep.clone(), deep.trim_start_matches("{{ ").trim_end_matches(" }}").to_string(), Overlaps, Expect::Syntax),
            ("unknown-name", "{{ s | nosuchfilter }}".into(), "nosuchfilter".into(), Contains, Expect::MsgReport),
            ("unknown-name", "{{ \"é😀\" | nosuchfilter(a=1) }}".into(), "nosuchfilter(a=1)".into(), Contains, Expect::MsgReport),
            ("unknown-name", "{% if n is nosuchtest %}x{% endif %}".into(), "nosuchtest".into(), Contains, Expect::MsgReport),
            ("unknown-name", "{{ nosuchfn() }}".into(), "nosuchfn()".into(), Contains, Expect::MsgReport),
            ("unknown-name", "{{ <no.such.comp /> }}".into(), "<no.such.comp />".into(), Contains, Expect::MsgReport),
            ("unknown-name", "{% include \"no/such.html\" %}".into(), "\"no/such.html\"".into(), Contains, Expect::MsgReport),
            ("parser-misc", "{{ a b }}".into(), "b }}".into(), Overlaps, Expect::Syntax),
            ("parser-misc", "{{ 1.2.3 }}".into(), "1.2.3".into(), Overlaps, Expect::Syntax),
            ("parser-misc", "{% for %}".into(), "for %}".into(), Overlaps, Expect::Syntax),
            ("parser-misc", "{% set 1 = 2 %}".into(), "set 1".into(), Overlaps, Expect::Syntax),
            ("parser-misc", "{{ a | }}".into(), "| }}".into(), Overlaps, Expect::Syntax),
            ("parser-misc", "{% include a %}".into(), "include a".into(), Overlaps, Expect::Syntax),
            ("parser-misc", "{{ a.b() }}".into(), "a.b()".into(), Overlaps, Expect::Syntax),
            ("parser-misc", "{{ ---1 }}".into(), "---1".into(), Overlaps, Expect::Syntax),
            ("parser-misc", "{{ (1 }}".into(), "(1 }}".into(), Overlaps, Expect::Syntax),
            ("parser-misc", "{{ 1) }}".into(), "1)".into(), Overlaps, Expect::Syntax),
            ("parser-misc", "{{ \"é😀\" ~ a not }}".into(), "not".into(), Overlaps, Expect::Syntax),
            // component-call attributes: the value after `=` must be a string or a `{expr}` group
            ("component-attr", "{{ <ui.badge x=42 /> }}".into(), "42".into(), Contains, Expect::Syntax),
            ("component-attr", "{{ <ui.badge s=\"é😀\" x=4.5 /> }}".into(), "4.5".into(), Contains, Expect::Syntax),
            ("component-attr", "{{ <ui.badge x=true /> }}".into(), "true".into(), Contains, Expect::Syntax),
            ("component-attr", "{{- <ui.badge x=nn /> -}}".into(), "nn".into(), Contains, Expect::Syntax),
            ("component-attr", "{% <ui.card s=name> %}x{% </ui.card> %}".into(), "name".into(), Contains, Expect::Syntax),
            ("component-attr", "{% <ui.card s=\"é\" x=[1]> %}é{% </ui.card> %}".into(), "[".into(), Contains, Expect::Syntax),
            ("component-attr", "{{ <ui.badge x=-1 /> }}".into(), "-".into(), Contains, Expect::Syntax),
            ("component-attr", "{{ <ui.badge x= /> }}".into(), "/".into(), Contains, Expect::Syntax),
            ("component-attr", "{% set zq = <ui.badge x=\n 7 /> %}".into(), "7".into(), Contains, Expect::Syntax),
            // a stray token in attribute position (regression cases of the fixed finding F19: the
            // engine used to name the token BEFORE the stray one, the last one consumed)
            ("component-stray-token", "{{ <ui.badge 42 /> }}".into(), "42".into(), Contains, Expect::Syntax),
            ("component-stray-token", "{{ <ui.badge =1 /> }}".into(), "=".into(), Contains, Expect::Syntax),
            ("component-stray-token", "{{ <ui.badge s=\"a\" ) /> }}".into(), ")".into(), Contains, Expect::Syntax),
            ("component-stray-token", "{{ <ui.badge / x> }}".into(), "@x".into(), Contains, Expect::Syntax),
            ("component-stray-token", "{{ <ui.badge x={n s=\"a\" /> }}".into(), "@s".into(), Contains, Expect::Syntax),
            ("component-stray-token", "{% <ui.card 42> %}x{% </ui.card> %}".into(), "42".into(), Contains, Expect::Syntax),
            ("component-stray-token", "{% <ui.card s=\"é😀\" + > %}x{% </ui.card> %}".into(), "+".into(), Contains, Expect::Syntax),
            ("component-call-misc", "{% < 1 > %}x".into(), "< 1 >".into(), Overlaps, Expect::Syntax),
            ("component-def", "{% component cq15() {\"css\": a} %}{% endcomponent %}".into(), "{% component cq15() {\"css\": a} %}{% endcomponent %}".into(), Overlaps, Expect::Syntax),
            ("component-call-misc", "{{ <ui.card> }}".into(), "<ui.card> }}".into(), Overlaps, Expect::Syntax),
            ("component-call-misc", "{% <ui.card> %}x{% </ui.badge> %}".into(), "{% <ui.card> %}x{% </ui.badge> %}".into(), Overlaps, Expect::Syntax),
            ("component-call-misc", "{{ < 1 }}".into(), "< 1".into(), Overlaps, Expect::Syntax),
            ("component-call-misc", "{{ <ui.badge {..n} /> }}".into(), "{..n}".into(), Overlaps, Expect::Syntax),
            ("component-call-misc", "{{ <ui.badge x={n /> }}".into(), "{n />".into(), Overlaps, Expect::Syntax),
            // component definitions (anywhere but at top level they are refused as a whole)
            ("component-def", "{% component cq1(title body) %}{% endcomponent %}".into(), "{% component cq1(title body) %}{% endcomponent %}".into(), Overlaps, Expect::Syntax),
            ("component-def", "{% component cq2(body) %}{% endcomponent %}".into(), "{% component cq2(body) %}{% endcomponent %}".into(), Overlaps, Expect::Syntax),
            ("component-def", "{% component cq3(name, ...name) %}b{% endcomponent %}".into(), "{% component cq3(name, ...name) %}b{% endcomponent %}".into(), Overlaps, Expect::Syntax),
            ("component-def", "{% component cq4(...r, name) %}b{% endcomponent %}".into(), "{% component cq4(...r, name) %}b{% endcomponent %}".into(), Overlaps, Expect::Syntax),
            ("component-def", "{% component cq5(array=[a]) %}{% endcomponent %}".into(), "{% component cq5(array=[a]) %}{% endcomponent %}".into(), Overlaps, Expect::Syntax),
            ("component-def", "{% component cq6(array={\"hello\": a}) %}{% endcomponent %}".into(), "{% component cq6(array={\"hello\": a}) %}{% endcomponent %}".into(), Overlaps, Expect::Syntax),
            ("component-def", "{% component cq7(a=b) %}{% endcomponent %}".into(), "{% component cq7(a=b) %}{% endcomponent %}".into(), Overlaps, Expect::Syntax),
            ("component-def", "{% component cq8(a: nosuchtype) %}{% endcomponent %}".into(), "{% component cq8(a: nosuchtype) %}{% endcomponent %}".into(), Overlaps, Expect::Syntax),
            ("component-def", "{% component cq8(a: 5) %}{% endcomponent %}".into(), "{% component cq8(a: 5) %}{% endcomponent %}".into(), Overlaps, Expect::Syntax),
            ("component-def", "{% component cq4(a, ...r, name) %}b{% endcomponent %}".into(), "{% component cq4(a, ...r, name) %}b{% endcomponent %}".into(), Overlaps, Expect::Syntax),
            ("component-def", "{% component cq9(name: string, name: integer) %}{% endcomponent %}".into(), "{% component cq9(name: string, name: integer) %}{% endcomponent %}".into(), Overlaps, Expect::Syntax),
            ("component-def", "{% component cq10() %}First{% endcomponent %}\n{% component cq10() %}Second{% endcomponent %}".into(), "{% component cq10() %}First{% endcomponent %}\n{% component cq10() %}Second{% endcomponent %}".into(), Overlaps, Expect::Syntax),
            ("component-def", "{% component cq12() %}{% component cq13() %}{% endcomponent %}{% endcomponent %}".into(), "{% component cq12() %}{% component cq13() %}{% endcomponent %}{% endcomponent %}".into(), Overlaps, Expect::Syntax),
            ("component-def", "{% component cq14 %}{% endcomponent %}".into(), "{% component cq14 %}{% endcomponent %}".into(), Overlaps, Expect::Syntax),
            // reserved names
            ("reserved-name", "{% set break = false %}".into(), "break".into(), Contains, Expect::Syntax),
            ("reserved-name", "{% for k, break in m %}{% endfor %}".into(), "break".into(), Contains, Expect::Syntax),
            ("reserved-name", "{% for loop in arr %}{% endfor %}".into(), "loop".into(), Contains, Expect::Syntax),
            ("reserved-name", "{{ [1 for none in arr] }}".into(), "none".into(), Contains, Expect::Syntax),
            ("reserved-name", "{{ [1 for k, self in m] }}".into(), "self".into(), Contains, Expect::Syntax),
            // more parser sites
            ("parser-misc", "{{ [[[1], [2]], [true]] }}".into(), "[[[1], [2]], [true]]".into(), Overlaps, Expect::Syntax),
            ("parser-misc", "{{ range(end=5, end=3) }}".into(), "range(end=5, end=3)".into(), Overlaps, Expect::Syntax),
            ("parser-misc", "{{ range(end=1 start=2) }}".into(), "range(end=1 start=2)".into(), Overlaps, Expect::Syntax),
            ("parser-misc", "{{ [x for x in arr for y in arr] }}".into(), "[x for x in arr for y in arr]".into(), Overlaps, Expect::Syntax),
            ("parser-misc", "{{ [x for x arr] }}".into(), "[x for x arr]".into(), Overlaps, Expect::Syntax),
            ("parser-misc", "{{ a[a[a[a[a[0]]]]] }}".into(), "a[a[a[a[a[0]]]]]".into(), Overlaps, Expect::Syntax),
            ("parser-misc", "{% for q in arr %}{% set y %}{% continue %}{% endset %}{% endfor %}".into(), "{% for q in arr %}{% set y %}{% continue %}{% endset %}{% endfor %}".into(), Overlaps, Expect::Syntax),
            ("parser-misc", "{% for q in [] %}a{% else %}{% break %}{% endfor %}".into(), "{% for q in [] %}a{% else %}{% break %}{% endfor %}".into(), Overlaps, Expect::Syntax),
            ("parser-misc", "{% set zq zz %}".into(), "set zq zz %}".into(), Overlaps, Expect::Syntax),
            ("parser-misc", "{% if true %}{% extends \"a\" %}{% endif %}".into(), "{% if true %}{% extends \"a\" %}{% endif %}".into(), Overlaps, Expect::Syntax),
            ("parser-misc", "{{ n not [0] }}".into(), "n not [0]".into(), Overlaps, Expect::Syntax),
            ("parser-misc", "{{ {\"k\": ...a} }}".into(), "{\"k\": ...a}".into(), Overlaps, Expect::Syntax),
            ("parser-misc", "{{ a is upper(b=,) }}".into(), "upper(b=,)".into(), Overlaps, Expect::Syntax),
            ("parser-misc", "{{ a[1 }}".into(), "a[1 }}".into(), Overlaps, Expect::Syntax),
            ("parser-misc", "{{ {\"a\" 1} }}".into(), "{\"a\" 1}".into(), Overlaps, Expect::Syntax),
            ("parser-misc", "{{ {\"a\": 1 }}".into(), "{\"a\": 1 }}".into(), Overlaps, Expect::Syntax),
            ("parser-misc", "{% include \"a\" \"b\" %}".into(), "\"a\" \"b\"".into(), Overlaps, Expect::Syntax),
            ("parser-misc", "{% for k v in m %}{% endfor %}".into(), "for k v in m".into(), Overlaps, Expect::Syntax),
            ("parser-misc", "{% filter %}x{% endfilter %}".into(), "{% filter %}".into(), Overlaps, Expect::Syntax),
            ("too-deep", nest.clone(), nest.clone(), Overlaps, Expect::Syntax),
            ("parser-misc", "{% block %}".into(), "block %}".into(), Overlaps, Expect::Syntax),
            ("parser-misc", "{{ \"ho\" ~ - \"hey\" }}".into(), "- \"hey\"".into(), Overlaps, Expect::Syntax),
            ("parser-misc", "{{ s ~ (-n) }}".into(), "(-n)".into(), Overlaps, Expect::Syntax),
        ];
        // the optional name after an end tag differs from the opening one: the NAME is the offender
        let in_loop = set.loop_slots.contains(&slot);
        let call_body = info.base_role == "component-call-body";
        if !in_loop && !call_body && !info.in_comp_def {
            for (t, n) in [
                ("{% block content %}x{% endblock contents %}", "contents"),
                ("{% block content -%}é{%- endblock\n xcontent -%}", "xcontent"),
                ("{% block zqa %}{% block zqb %}é😀{% endblock zqa %}{% endblock %}", "@zqa"),
                ("\t{% block zq1 %}{% endblock other %}", "other"),
                ("{% block zq1 %}{% endblock zq2 %}", "zq2"),
            ] {
                v.push(("end-name-mismatch", t.into(), n.into(), Contains, Expect::Syntax));
            }
            if !info.in_block {
                for (t, n) in [
                    ("{% component cq11() %}{% endcomponent hi %}", "hi"),
                    ("{% component cq16() %}é{% endcomponent\n\tcq160 %}", "cq160"),
                    ("{% component ui.cq() %}{% endcomponent ui.dq %}", "dq"),
                ] {
                    v.push(("end-name-mismatch", t.into(), n.into(), Contains, Expect::Syntax));
                }
            }
        }
        if !after.contains("#}") {
            v.push(("unterminated-comment", "{# never closed é".into(), "{#".into(), AtOrAfter, Expect::Syntax));
            v.push(("unterminated-comment", "{#- never\nclosed".into(), "{#-".into(), AtOrAfter, Expect::Syntax));
        }
        if !after.contains("endraw") {
            v.push(("unterminated-raw", "{% raw %}never é closed".into(), "{% raw %}".into(), AtOrAfter, Expect::Syntax));
        }
        let pool: Vec<_> = v.into_iter().filter(|c| forced.is_none_or(|f| f == c.0)).collect();
        if pool.is_empty() {
            return None;
        }
        // classes are picked uniformly, then a variant within the class
        let mut classes: Vec<&str> = pool.iter().map(|c| c.0).collect();
        classes.dedup();
        let cl = *rng.pick(&classes);
        let vs: Vec<_> = pool.iter().filter(|c| c.0 == cl).collect();
        let (class, txt, t, cover, expect) = (*rng.pick(&vs)).clone();
        let txt = if crlf { txt.replace('\n', "\r\n") } else { txt };
        let t = if crlf { t.replace('\n', "\r\n") } else { t };
        let tr = find(&txt, &t);
        candidates.push(Fault { class, text: txt, tok: tr, cover, expect });
    }
    candidates.pop()
}

fn all_classes() -> Vec<&'static str> {
    vec![
        "undefined-var", "undefined-field", "undefined-operand", "bad-operand", "div-zero", "filter-missing-arg", "filter-wrong-kind",
        "filter-wrong-arg-type", "filter-bad-value", "bad-index", "int-overflow", "test-wrong-kind", "test-missing-arg", "function-error",
        "in-non-container", "spread-non-array", "component-bad-call", "not-iterable", "kv-on-array", "super-misuse", "unexpected-char",
        "unterminated-string", "bad-escape", "unterminated-var", "unterminated-tag", "missing-end-tag", "unknown-tag", "elif-after-else",
        "extends-misplaced", "duplicate-block", "int-literal-too-large", "empty-expr", "missing-operand", "stray-end-tag", "too-deep",
        "unknown-name", "parser-misc", "unterminated-comment", "unterminated-raw", "component-attr", "component-call-misc", "component-def", "reserved-name", "component-stray-token", "bad-slice-bound", "set-filter-chain", "arith-overflow", "operand-out-of-range", "end-name-mismatch",
    ]
}

fn is_render_class(c: &str) -> bool {
    if ["bad-slice-bound", "set-filter-chain", "arith-overflow", "operand-out-of-range"].contains(&c) {
        return true;
    }
    let i = all_classes().iter().position(|x| *x == c).unwrap_or(usize::MAX);
    i < 20
}

// ------------------------------------------------------------------ case, observation

#[derive(Clone, Debug)]
struct Case {
    templates: Vec<(String, String)>,
    entry: String,
    context: J,
    class: String,
    expect: Expect,
    cover: Cover,
    /// template the fault was planted in
    host: String,
    planted: Range<usize>,
    tok: Range<usize>,
    /// enclosing call sites, innermost first: (calling template, byte offset of the call site)
    chain: Vec<(String, usize)>,
    /// per call site: the output captures it sits in ("" = none)
    chain_caps: Vec<String>,
    role: String,
    /// the fault sits directly in the body of this component: `Tera::render_component` is a second
    /// way to reach it (no enclosing call site then)
    direct_component: Option<String>,
    /// history on ONE `Tera` instance before the render: ordered `add_raw_templates` calls with the
    /// outcome each must have; empty = a single call with `templates`. `templates` always holds
    /// what is registered when the render happens (the oracle judges against that).
    adds: Vec<AddStep>,
    /// label of the history shape ("" = none)
    history: String,
    /// custom delimiters set on the instance before anything is added (None = default)
    delims: Option<D>,
    /// 0 = `add_raw_templates`, 1 = files on disk through `add_template_files` with names
    route: u8,
}

#[derive(Clone, Debug)]
struct AddStep {
    templates: Vec<(String, String)>,
    expect_ok: bool,
}

/// What happens between the first registration and the failing render.
#[derive(Clone, Debug)]
struct HistSpec {
    /// 0 = batch rejected late (reference check), 1 = batch rejected early (syntax error),
    /// 2 = accepted replacement, 3-6 = rejected batch holding the redefined name twice
    kind: u8,
    /// index of the template that is redefined with its content shifted
    target: usize,
    prefix: String,
    broken: (String, String),
}

fn apply_history(case: &mut Case, h: &HistSpec) {
    let Some((tname, tsrc)) = case.templates.get(h.target).cloned() else { return };
    let shifted = format!("{}{}", h.prefix, tsrc);
    let first = AddStep { templates: case.templates.clone(), expect_ok: true };
    let rel = if tname == case.host {
        "host"
    } else if case.chain.iter().any(|c| c.0 == tname) {
        "caller"
    } else if tname == case.entry {
        "entry"
    } else {
        "other"
    };
    match h.kind {
        0 | 1 => {
            case.adds = vec![first, AddStep { templates: vec![(tname.clone(), shifted), h.broken.clone()], expect_ok: false }];
            case.history = format!("{}.{rel}", if h.kind == 0 { "rejected-late" } else { "rejected-early" });
        }
        // the redefined name TWICE in one rejected batch (two differently shifted versions, either
        // order); 3 / 4: rejected because of a third member (late / early), 5 / 6: because of the
        // second copy itself (late reference error / syntax error appended to it)
        3..=6 => {
            let shifted2 = format!("{}{}{}", h.prefix, h.prefix, tsrc);
            let (a, b) = if h.prefix.len() % 2 == 0 { (shifted, shifted2) } else { (shifted2, shifted) };
            let batch = match h.kind {
                3 | 4 => vec![(tname.clone(), a), (tname.clone(), b), h.broken.clone()],
                _ => vec![(tname.clone(), a), (tname.clone(), format!("{b}{}", h.broken.1))],
            };
            case.adds = vec![first, AddStep { templates: batch, expect_ok: false }];
            case.history = format!("{}.{rel}", ["rejected-late-name-twice", "rejected-early-name-twice", "rejected-late-second-copy", "rejected-early-second-copy"][h.kind as usize - 3]);
        }
        _ => {
            case.adds = vec![first, AddStep { templates: vec![(tname.clone(), shifted.clone())], expect_ok: true }];
            case.history = format!("replaced.{rel}");
            case.templates[h.target].1 = shifted;
            let d = h.prefix.len();
            if tname == case.host {
                case.planted = case.planted.start + d..case.planted.end + d;
                case.tok = case.tok.start + d..case.tok.end + d;
            }
            for c in case.chain.iter_mut() {
                if c.0 == tname {
                    c.1 += d;
                }
            }
        }
    }
}

fn finish_case(set: &TSet, slot: usize, fault: &Fault, hist: &Option<HistSpec>) -> Case {
    let mut c = build_case(set, slot, fault);
    if let Some(h) = hist {
        apply_history(&mut c, h);
    }
    c
}

fn cover_name(c: Cover) -> &'static str {
    match c {
        Cover::Contains => "contains",
        Cover::Overlaps => "overlaps",
        Cover::AtOrAfter => "at-or-after",
    }
}
fn expect_name(e: Expect) -> &'static str {
    match e {
        Expect::Render => "render",
        Expect::Syntax => "syntax",
        Expect::MsgReport => "msg-report",
    }
}

impl Case {
    fn src_of(&self, name: &str) -> Option<&str> {
        self.templates.iter().find(|t| t.0 == name).map(|t| t.1.as_str())
    }
    fn to_json(&self) -> J {
        let sites: Vec<J> = self
            .chain
            .iter()
            .enumerate()
            .map(|(i, (t, off))| json!({"template": t, "offset": off, "line": self.src_of(t).map(|s| linecol(s, *off).0), "capture": self.chain_caps.get(i)}))
            .collect();
        json!({
            "templates": self.templates.iter().map(|(n, s)| json!([n, s])).collect::<Vec<_>>(),
            "entry": self.entry,
            "context": self.context,
            "fault": {"class": self.class, "template": self.host, "range": [self.planted.start, self.planted.end],
                      "token": [self.tok.start, self.tok.end], "cover": cover_name(self.cover), "expect": expect_name(self.expect),
                      "text": self.src_of(&self.host).and_then(|s| s.get(self.planted.clone()))},
            "expected": {"filename": self.host, "call_sites_innermost_first": sites},
            "role": self.role,
            "render_component": self.direct_component,
            "history_shape": self.history,
            "delimiters": self.delims.as_ref().map(|d| d.to_json()),
            "route": if self.route == 1 { "files" } else { "raw" },
            "history": self.adds.iter().map(|a| json!({"add_raw_templates": a.templates.iter().map(|(n, s)| json!([n, s])).collect::<Vec<_>>(), "expect": if a.expect_ok { "ok" } else { "err" }})).collect::<Vec<_>>(),
            "rerun": "harness/target/release/c12 --replay <this file>",
        })
    }
    fn from_json(j: &J) -> Option<Case> {
        let templates = j["templates"].as_array()?.iter().map(|p| Some((p[0].as_str()?.to_string(), p[1].as_str()?.to_string()))).collect::<Option<Vec<_>>>()?;
        let f = &j["fault"];
        let r = |v: &J| Some(v[0].as_u64()? as usize..v[1].as_u64()? as usize);
        let chain = j["expected"]["call_sites_innermost_first"]
            .as_array()?
            .iter()
            .map(|s| Some((s["template"].as_str()?.to_string(), s["offset"].as_u64()? as usize)))
            .collect::<Option<Vec<_>>>()?;
        Some(Case {
            templates,
            entry: j["entry"].as_str()?.to_string(),
            context: j["context"].clone(),
            class: f["class"].as_str()?.to_string(),
            expect: match f["expect"].as_str()? {
                "render" => Expect::Render,
                "syntax" => Expect::Syntax,
                _ => Expect::MsgReport,
            },
            cover: match f["cover"].as_str()? {
                "contains" => Cover::Contains,
                "overlaps" => Cover::Overlaps,
                _ => Cover::AtOrAfter,
            },
            host: f["template"].as_str()?.to_string(),
            planted: r(&f["range"])?,
            tok: r(&f["token"])?,
            chain,
            chain_caps: j["expected"]["call_sites_innermost_first"].as_array()?.iter().map(|s| s["capture"].as_str().unwrap_or("").to_string()).collect(),
            role: j["role"].as_str().unwrap_or("").to_string(),
            direct_component: j["render_component"].as_str().map(|s| s.to_string()),
            adds: j["history"]
                .as_array()
                .map(|a| {
                    a.iter()
                        .filter_map(|st| {
                            let t = st["add_raw_templates"].as_array()?.iter().map(|p| Some((p[0].as_str()?.to_string(), p[1].as_str()?.to_string()))).collect::<Option<Vec<_>>>()?;
                            Some(AddStep { templates: t, expect_ok: st["expect"].as_str() == Some("ok") })
                        })
                        .collect()
                })
                .unwrap_or_default(),
            history: j["history_shape"].as_str().unwrap_or("").to_string(),
            delims: D::from_json(&j["delimiters"]),
            route: if j["route"].as_str() == Some("files") { 1 } else { 0 },
        })
    }
}

/// Plant `fault` into `slot` of `set` (the slot piece gets the text) and compute every offset.
fn build_case(set: &TSet, slot: usize, fault: &Fault) -> Case {
    let mut s = set.clone();
    for t in s.tpls.iter_mut() {
        for p in t.pieces.iter_mut() {
            if p.kind == PK::Slot(slot) {
                p.text = fault.text.clone();
            }
        }
    }
    let (ti, off) = s.slot_offset(slot);
    let info = &s.slots[slot];
    let mut chain = Vec::new();
    let mut chain_caps: Vec<String> = Vec::new();
    let mut u = info.unit;
    let mut via_inc = false;
    while s.units[u].caller.is_some() {
        if s.units[u].kind == UnitKind::Include {
            via_inc = true;
        }
        if let Some((cti, coff, cap)) = s.call_site(u) {
            chain.push((s.tpls[cti].name.clone(), coff));
            chain_caps.push(cap.to_string());
        }
        u = s.units[u].caller.unwrap();
    }
    let _ = via_inc;
    let mut role = info.base_role.to_string();
    if info.base_role == "component-call-body" {
        role = format!("component-call-body@{}", if info.child_tpl { "child" } else if s.units[info.unit].kind == UnitKind::Entry { "entry-family" } else { "callee" });
    }
    Case {
        templates: s.sources(),
        entry: s.tpls[s.entry].name.clone(),
        context: base_context(),
        class: fault.class.to_string(),
        expect: fault.expect,
        cover: fault.cover,
        host: s.tpls[ti].name.clone(),
        planted: off..off + fault.text.len(),
        tok: off + fault.tok.start..off + fault.tok.end,
        chain,
        chain_caps,
        role,
        direct_component: if info.in_comp_def && info.base_role != "component-call-body" && fault.expect == Expect::Render {
            s.units[info.unit].comp.map(|c| c.to_string())
        } else {
            None
        },
        adds: vec![],
        history: String::new(),
        delims: set.delims.clone(),
        route: set.route,
    }
}

#[derive(Clone, Debug, Default)]
struct Obs {
    /// "add" | "render" | "none"
    stage: &'static str,
    /// "ok" | "err" | "panic"
    outcome: &'static str,
    panic_msg: String,
    /// "Syntax" | "Rendering" | "Msg" | other variant name
    kind: String,
    filename: String,
    /// sl, sc, el, ec, rs, re
    span: Option<[usize; 6]>,
    message: String,
    /// Ok(display) | Err(panic message)
    display: Option<Result<String, String>>,
}

fn observe_err(stage: &'static str, e: &tera::Error) -> Obs {
    let mut o = Obs { stage, outcome: "err", ..Default::default() };
    let fill_report = |o: &mut Obs, r: &tera::ReportError| {
        o.filename = r.filename().to_string();
        let s = r.span();
        o.span = Some([s.start_line, s.start_col, s.end_line, s.end_col, s.range.start, s.range.end]);
        o.message = r.message().to_string();
    };
    match e.kind() {
        ErrorKind::SyntaxError(r) => {
            o.kind = "Syntax".into();
            fill_report(&mut o, r);
        }
        ErrorKind::RenderingError(r) => {
            o.kind = "Rendering".into();
            fill_report(&mut o, r);
        }
        ErrorKind::Msg(_) => o.kind = "Msg".into(),
        other => {
            let d = format!("{other:?}");
            o.kind = d.split(|c: char| !c.is_alphanumeric()).next().unwrap_or("Other").to_string();
        }
    }
    o.display = Some(catch(std::panic::AssertUnwindSafe(|| e.to_string())));
    o
}

fn observe(templates: &[(String, String)], entry: &str, context: &J, delims: &Option<D>) -> Obs {
    let mut tera = new_tera(delims);
    let tpls: Vec<(String, String)> = templates.to_vec();
    match catch(std::panic::AssertUnwindSafe(|| tera.add_raw_templates(tpls))) {
        Err(p) => return Obs { stage: "add", outcome: "panic", panic_msg: p, ..Default::default() },
        Ok(Err(e)) => return observe_err("add", &e),
        Ok(Ok(())) => {}
    }
    let ctx = context_of(context);
    match catch(std::panic::AssertUnwindSafe(|| tera.render(entry, &ctx))) {
        Err(p) => Obs { stage: "render", outcome: "panic", panic_msg: p, ..Default::default() },
        Ok(Err(e)) => observe_err("render", &e),
        Ok(Ok(_)) => Obs { stage: "none", outcome: "ok", ..Default::default() },
    }
}

static FILE_CASE: std::sync::atomic::AtomicU64 = std::sync::atomic::AtomicU64::new(0);

fn file_base_dir() -> std::path::PathBuf {
    std::env::temp_dir().join(format!("tera_verif_c12_{}", std::process::id()))
}

/// A fresh directory for one case (removed by the caller).
fn file_case_dir() -> std::path::PathBuf {
    let n = FILE_CASE.fetch_add(1, std::sync::atomic::Ordering::SeqCst);
    let d = file_base_dir().join(format!("c{n}"));
    let _ = std::fs::create_dir_all(&d);
    d
}

/// The file route: sources written to disk, registered under names that differ from the paths.
fn observe_files(case: &Case) -> Obs {
    let dir = file_case_dir();
    let mut files: Vec<(std::path::PathBuf, Option<String>)> = Vec::new();
    for (i, (name, src)) in case.templates.iter().enumerate() {
        let p = dir.join(format!("f{i}.tpl"));
        if std::fs::write(&p, src).is_err() {
            let _ = std::fs::remove_dir_all(&dir);
            return Obs { stage: "add", outcome: "diverged", panic_msg: "could not write the template file".into(), ..Default::default() };
        }
        files.push((p, Some(name.clone())));
    }
    let mut tera = new_tera(&case.delims);
    let r = catch(std::panic::AssertUnwindSafe(|| tera.add_template_files(files)));
    let _ = std::fs::remove_dir_all(&dir);
    match r {
        Err(p) => return Obs { stage: "add", outcome: "panic", panic_msg: p, ..Default::default() },
        Ok(Err(e)) => return observe_err("add", &e),
        Ok(Ok(())) => {}
    }
    let ctx = context_of(&case.context);
    match catch(std::panic::AssertUnwindSafe(|| tera.render(&case.entry, &ctx))) {
        Err(p) => Obs { stage: "render", outcome: "panic", panic_msg: p, ..Default::default() },
        Ok(Err(e)) => observe_err("render", &e),
        Ok(Ok(_)) => Obs { stage: "none", outcome: "ok", ..Default::default() },
    }
}

/// One source through `add_template_file(path, name)`; returns the name it is registered under
/// (the path itself for `None`) and what happened.
fn observe_single_file(src: &str, name: Option<&str>) -> (String, Obs) {
    let dir = file_case_dir();
    let p = dir.join("single é.tpl");
    let _ = std::fs::write(&p, src);
    let reg = name.map(|n| n.to_string()).unwrap_or_else(|| p.to_string_lossy().into_owned());
    let mut tera = Tera::default();
    let r = catch(std::panic::AssertUnwindSafe(|| tera.add_template_file(&p, name)));
    let _ = std::fs::remove_dir_all(&dir);
    let obs = match r {
        Err(pm) => Obs { stage: "add", outcome: "panic", panic_msg: pm, ..Default::default() },
        Ok(Err(e)) => observe_err("add", &e),
        Ok(Ok(())) => Obs { stage: "none", outcome: "ok", ..Default::default() },
    };
    (reg, obs)
}

/// Run the case: its history of `add_raw_templates` calls on one instance, then the render.
fn observe_case(case: &Case) -> Obs {
    if case.route == 1 && case.adds.is_empty() {
        return observe_files(case);
    }
    if case.adds.is_empty() {
        return observe(&case.templates, &case.entry, &case.context, &case.delims);
    }
    let mut tera = new_tera(&case.delims);
    for (i, st) in case.adds.iter().enumerate() {
        let tpls = st.templates.clone();
        match catch(std::panic::AssertUnwindSafe(|| tera.add_raw_templates(tpls))) {
            Err(p) => return Obs { stage: "add", outcome: "panic", panic_msg: format!("add #{i}: {p}"), ..Default::default() },
            Ok(r) => {
                if r.is_ok() != st.expect_ok {
                    // the history did not unfold as built (e.g. a batch meant to be rejected was
                    // accepted): the expectation about what is registered no longer holds
                    return Obs { stage: "add", outcome: "diverged", panic_msg: format!("add #{i}: expected {}, got {}", if st.expect_ok { "Ok" } else { "Err" }, if r.is_ok() { "Ok".to_string() } else { r.unwrap_err().to_string() }), ..Default::default() };
                }
            }
        }
    }
    let ctx = context_of(&case.context);
    match catch(std::panic::AssertUnwindSafe(|| tera.render(&case.entry, &ctx))) {
        Err(p) => Obs { stage: "render", outcome: "panic", panic_msg: p, ..Default::default() },
        Ok(Err(e)) => observe_err("render", &e),
        Ok(Ok(_)) => Obs { stage: "none", outcome: "ok", ..Default::default() },
    }
}

/// Second way into a component body: `Tera::render_component` (defaults for every parameter).
fn observe_component(templates: &[(String, String)], comp: &str, delims: &Option<D>) -> Obs {
    let mut tera = new_tera(delims);
    let tpls: Vec<(String, String)> = templates.to_vec();
    match catch(std::panic::AssertUnwindSafe(|| tera.add_raw_templates(tpls))) {
        Err(p) => return Obs { stage: "add", outcome: "panic", panic_msg: p, ..Default::default() },
        Ok(Err(e)) => return observe_err("add", &e),
        Ok(Ok(())) => {}
    }
    let ctx = Context::new();
    match catch(std::panic::AssertUnwindSafe(|| tera.render_component(comp, &ctx, Some("<b>é</b>"), true))) {
        Err(p) => Obs { stage: "render_component", outcome: "panic", panic_msg: p, ..Default::default() },
        Ok(Err(e)) => observe_err("render_component", &e),
        Ok(Ok(_)) => Obs { stage: "none", outcome: "ok", ..Default::default() },
    }
}

// ------------------------------------------------------------------ the direct oracle

/// line (1-based) and column (0-based, chars) of byte position `pos` (a char boundary) of `src`
fn linecol(src: &str, pos: usize) -> (usize, usize) {
    let pre = &src[..pos];
    let line = 1 + pre.bytes().filter(|b| *b == b'\n').count();
    let col = match pre.rfind('\n') {
        Some(i) => pre[i + 1..].chars().count(),
        None => pre.chars().count(),
    };
    (line, col)
}

/// text of line `line` (1-based) without its '\n' (a trailing '\r' stays, as in reporting.rs)
fn line_text(src: &str, line: usize) -> Option<&str> {
    if line == 0 {
        return None;
    }
    src.split('\n').nth(line - 1)
}

fn underline_for(line: &str, col: usize, end_col: usize) -> String {
    let mut u = String::new();
    for c in line.chars().take(col) {
        u.push(if c == '\t' { '\t' } else { ' ' });
    }
    let w = if end_col > col { end_col - col } else { 1 };
    for _ in 0..w {
        u.push('^');
    }
    u
}

#[derive(Clone, Debug, Default)]
struct Block {
    /// label of a note (`called from`)
    #[allow(dead_code)]
    head: String,
    file: String,
    line: usize,
    col1: usize,
    quoted: String,
    underline: String,
}

/// Parse one `--> file:line:col` / `note: label file:line:col` block; `lines[0]` is the locus line.
fn parse_block(lines: &[&str], is_note: bool) -> Option<Block> {
    let l0 = lines.first()?;
    let locus = if is_note { *l0 } else { l0.trim_start().strip_prefix("--> ")? };
    let mut it = locus.rsplitn(3, ':');
    let col1: usize = it.next()?.parse().ok()?;
    let line: usize = it.next()?.parse().ok()?;
    let rest = it.next()?;
    let (head, file) = if is_note {
        let (h, f) = rest.rsplit_once(' ')?;
        (h.to_string(), f.to_string())
    } else {
        (String::new(), rest.to_string())
    };
    let pad = " ".repeat(line.to_string().len());
    if lines.get(1)?.trim_end() != format!("{pad} |") {
        return None;
    }
    let quoted = lines.get(2)?.strip_prefix(&format!("{line} | "))?.to_string();
    let underline = lines.get(3)?.strip_prefix(&format!("{pad} | "))?.to_string();
    Some(Block { head, file, line, col1, quoted, underline })
}

/// main block and note blocks of a display
fn parse_display(d: &str) -> (Option<Block>, Vec<Option<Block>>) {
    let mut parts = d.split("\n\nnote: ");
    let main = parts.next().unwrap_or("");
    let lines: Vec<&str> = main.split('\n').collect();
    let i = lines.iter().position(|l| l.trim_start().starts_with("--> "));
    let mainb = i.and_then(|i| parse_block(&lines[i..], false));
    let notes = parts
        .map(|p| {
            let ls: Vec<&str> = p.split('\n').collect();
            parse_block(&ls, true)
        })
        .collect();
    (mainb, notes)
}

#[derive(Clone, Debug, Default)]
struct Verdict {
    /// (check id, detail)
    fails: Vec<(String, String)>,
    checks: u64,
    /// an error of kind Syntax / Rendering (or the Msg report) was produced and every part evaluated
    complete: bool,
    report_error: bool,
    collapsed: bool,
    notes: usize,
    extra_notes: usize,
    /// outcome of the `render_component` route, when taken
    direct_component: Option<String>,
}

/// `perturb` = deliberately wrong recomputation (columns counted in bytes) to show the oracle has
/// teeth (`--self-test`); never set in a normal run.
fn oracle(case: &Case, obs: &Obs, perturb: bool) -> Verdict {
    let mut v = Verdict::default();
    let fail = |v: &mut Verdict, id: &str, d: String| v.fails.push((id.to_string(), d));
    // (a) an error, not Ok, not a panic
    v.checks += 1;
    match obs.outcome {
        "panic" => {
            fail(&mut v, "a:panic", format!("{} panicked: {}", obs.stage, obs.panic_msg));
            return v;
        }
        "ok" | "diverged" => {
            // nothing failed (or the history did not unfold as built), so the property (which
            // speaks about errors) says nothing: counted
            return v;
        }
        _ => {}
    }
    let want_stage = if case.expect == Expect::Render { "render" } else { "add" };
    let host_src = match case.src_of(&case.host) {
        Some(s) => s,
        None => return v,
    };
    // display must not panic, whatever the kind
    v.checks += 1;
    let display = match &obs.display {
        Some(Ok(d)) => d.clone(),
        Some(Err(p)) => {
            fail(&mut v, "g:display-panic", format!("to_string() panicked: {p}"));
            return v;
        }
        None => return v,
    };
    // (b) kind
    v.checks += 1;
    if case.expect == Expect::MsgReport {
        if obs.kind == "Msg" {
            // only the text is available
            v.report_error = true;
            let (mb, _) = parse_display(&display);
            v.checks += 3;
            match mb {
                None => fail(&mut v, "g:format", format!("no `--> file:line:col` block in {display:?}")),
                Some(b) => {
                    if b.file != case.host {
                        fail(&mut v, "c:filename", format!("report names `{}`, fault is in `{}`", b.file, case.host));
                    } else {
                        match line_text(host_src, b.line) {
                            None => fail(&mut v, "e:line", format!("line {} does not exist in `{}`", b.line, case.host)),
                            Some(lt) => {
                                if lt != b.quoted {
                                    fail(&mut v, "g:quoted-line", format!("quoted {:?}, line {} is {:?}", b.quoted, b.line, lt));
                                }
                                let ncols = lt.chars().count();
                                if b.col1 == 0 || b.col1 - 1 > ncols {
                                    fail(&mut v, "e:col", format!("column {} outside line of {} chars", b.col1, ncols));
                                } else {
                                    let line_start: usize = host_src.split('\n').take(b.line - 1).map(|l| l.len() + 1).sum();
                                    let p = line_start + lt.chars().take(b.col1 - 1).map(|c| c.len_utf8()).sum::<usize>();
                                    if !(case.tok.start <= p && p < case.tok.end.max(case.tok.start + 1)) {
                                        fail(&mut v, "f:cover", format!("locus byte {p} outside the planted token {:?}", case.tok));
                                    }
                                }
                            }
                        }
                    }
                }
            }
            v.complete = true;
            return v;
        }
        // a Syntax / Rendering kind is just as fine: fall through to the span checks
    }
    if obs.kind != "Syntax" && obs.kind != "Rendering" {
        // not a report error: counted separately, nothing of the property applies
        return v;
    }
    v.report_error = true;
    let _ = want_stage;
    let sp = obs.span.unwrap();
    let (sl, sc, el, ec, rs, re) = (sp[0], sp[1], sp[2], sp[3], sp[4], sp[5]);
    // (c) file
    v.checks += 1;
    if obs.filename != case.host {
        fail(&mut v, "c:filename", format!("error names `{}`, the fault is in `{}`", obs.filename, case.host));
        // the span belongs to another source: check it against the source the error names, if any
    }
    let named_src = match case.src_of(&obs.filename) {
        Some(s) => s,
        None => {
            fail(&mut v, "c:filename-unknown", format!("error names `{}` which is not a template of the set", obs.filename));
            return v;
        }
    };
    // (d) range inside the source on char boundaries
    v.checks += 1;
    if !(rs <= re && re <= named_src.len()) {
        fail(&mut v, "d:range", format!("range {rs}..{re} not inside source of {} bytes", named_src.len()));
        return v;
    }
    if !named_src.is_char_boundary(rs) || !named_src.is_char_boundary(re) {
        fail(&mut v, "d:char-boundary", format!("range {rs}..{re} splits a character"));
        return v;
    }
    // (e) line / column recomputed
    let lc = |pos: usize| -> (usize, usize) {
        if perturb {
            let pre = &named_src[..pos];
            let line = 1 + pre.bytes().filter(|b| *b == b'\n').count();
            (line, pos - pre.rfind('\n').map(|i| i + 1).unwrap_or(0))
        } else {
            linecol(named_src, pos)
        }
    };
    let (l1, c1) = lc(rs);
    let (l2, c2) = lc(re);
    v.checks += 2;
    // (no exception for "unexpected end of input": since the fix of finding F13 the parser's eoi()
    // collapses the byte range too, so start line/col must designate range.start like everywhere)
    let (pl, pc) = if (sl, sc) == (l1, c1) {
        if rs == re && (sl, sc) == (el, ec) && obs.kind == "Syntax" {
            v.collapsed = true;
        }
        (l1, c1)
    } else {
        fail(&mut v, "e:start-linecol", format!("span says {sl}:{sc}, byte {rs} is at {l1}:{c1} (byte {re} at {l2}:{c2})"));
        (l1, c1)
    };
    if (el, ec) != (l2, c2) {
        fail(&mut v, "e:end-linecol", format!("span says end {el}:{ec}, byte {re} is at {l2}:{c2}"));
    }
    // (f) coverage
    if obs.filename == case.host {
        v.checks += 1;
        let t = &case.tok;
        let ok = match case.cover {
            Cover::Contains => {
                if rs == re {
                    t.start <= rs && rs <= t.end
                } else {
                    rs <= t.start && t.end <= re
                }
            }
            Cover::Overlaps => {
                if rs == re {
                    t.start <= rs && rs <= t.end
                } else {
                    rs < t.end && t.start < re
                }
            }
            Cover::AtOrAfter => re >= case.planted.start,
        };
        if !ok {
            fail(
                &mut v,
                "f:cover",
                format!("span {rs}..{re} ({:?}) does not satisfy `{}` for planted token {:?} ({:?})", named_src.get(rs..re), cover_name(case.cover), t, host_src.get(t.clone())),
            );
        }
    }
    // (g) display
    let (mb, notes) = parse_display(&display);
    v.checks += 3;
    match (&mb, line_text(named_src, pl)) {
        (None, _) => fail(&mut v, "g:format", format!("no `--> file:line:col` block in {display:?}")),
        (Some(_), None) => fail(&mut v, "g:line-missing", format!("line {pl} does not exist")),
        (Some(b), Some(lt)) => {
            if b.file != obs.filename || b.line != pl || b.col1 != pc + 1 {
                fail(&mut v, "g:locus", format!("display says {}:{}:{}, expected {}:{}:{}", b.file, b.line, b.col1, obs.filename, pl, pc + 1));
            }
            if b.quoted != lt {
                fail(&mut v, "g:quoted-line", format!("quoted {:?}, line {pl} is {:?}", b.quoted, lt));
            }
            let want = underline_for(lt, pc, c2);
            if b.underline != want {
                fail(&mut v, "g:underline", format!("underline {:?}, expected {:?}", b.underline, want));
            }
        }
    }
    // (h) call-site notes (rendering errors)
    v.notes = notes.len();
    if obs.kind == "Rendering" && obs.filename == case.host {
        let mut have: Vec<(String, usize)> = Vec::new();
        for n in &notes {
            v.checks += 1;
            match n {
                None => fail(&mut v, "h:note-format", format!("unparsable note in {display:?}")),
                Some(b) => {
                    match case.src_of(&b.file).and_then(|s| line_text(s, b.line)) {
                        Some(lt) if lt == b.quoted => {}
                        other => fail(&mut v, "h:note-quote", format!("note {}:{} quotes {:?}, that line is {:?}", b.file, b.line, b.quoted, other)),
                    }
                    have.push((b.file.clone(), b.line));
                }
            }
        }
        for (t, off) in &case.chain {
            v.checks += 1;
            let line = case.src_of(t).map(|s| linecol(s, *off).0).unwrap_or(0);
            match have.iter().position(|h| h.0 == *t && h.1 == line) {
                Some(i) => {
                    have.swap_remove(i);
                }
                None => fail(&mut v, "h:note-missing", format!("no note names the call site {t}:{line}; notes: {:?}", notes.iter().flatten().map(|b| format!("{}:{}", b.file, b.line)).collect::<Vec<_>>())),
            }
        }
        v.extra_notes = have.len();
    }
    v.complete = true;
    v
}

// ------------------------------------------------------------------ running one case

struct Done {
    case: Case,
    obs: Obs,
    verdict: Verdict,
    /// for shrinking
    set: TSet,
    slot: usize,
    fault: Fault,
    hist: Option<HistSpec>,
    /// sources of the valid (pre-plant) set
    valid_sources: Vec<(String, String)>,
}

enum Outcome {
    /// generated set did not register / render (generator bug): reason
    InvalidSet(String),
    NoFault,
    Done(Box<Done>),
}

fn run_seed(seed: u64, forced: Option<&str>, perturb: bool) -> Outcome {
    let mut rng = Rng(seed);
    let set = gen_set(&mut rng);
    let sources = set.sources();
    let entry = set.tpls[set.entry].name.clone();
    let ctx = base_context();
    let pre = observe(&sources, &entry, &ctx, &None);
    if pre.outcome != "ok" {
        let d = match &pre.display {
            Some(Ok(d)) => d.clone(),
            _ => pre.panic_msg.clone(),
        };
        return Outcome::InvalidSet(format!("{} {}: {}", pre.stage, pre.outcome, d));
    }
    // a slot and a fault
    let mut tries = 0;
    let (slot, fault) = loop {
        tries += 1;
        if tries > 40 {
            return Outcome::NoFault;
        }
        let slot = rng.below(set.slots.len());
        let (ti, off) = set.slot_offset(slot);
        let after = &sources[ti].1[off..];
        if let Some(f) = gen_fault(&mut rng, &set, slot, after, forced) {
            break (slot, f);
        }
    };
    // a quarter of the rendering faults get a history on the same instance first
    let hist = if fault.expect == Expect::Render && rng.chance(1, 4) {
        let plain = build_case(&set, slot, &fault);
        let mut cands: Vec<usize> = Vec::new();
        let idx_of = |n: &str| plain.templates.iter().position(|t| t.0 == n);
        // the host (component provider / include target / parent when the fault sits there), every
        // calling template, the root and the entry
        cands.extend(idx_of(&plain.host));
        cands.extend(idx_of(&plain.host));
        for c in &plain.chain {
            cands.extend(idx_of(&c.0));
        }
        cands.push(0);
        cands.extend(idx_of(&plain.entry));
        let target = *rng.pick(&cands);
        let kind = *rng.pick(&[0u8, 1, 2, 2, 3, 4, 5, 6]);
        let mut prefix = String::from("{# shifted ünï😀 #}");
        for _ in 0..1 + rng.below(4) {
            prefix.push_str(*rng.pick(&["\n", "\r\n", "  \n", "\t\n", "{# é #}\n"]));
        }
        let broken = if kind == 1 || kind == 4 || kind == 6 {
            ("zz_broken.html".to_string(), (*rng.pick(&["{{ a ^ }}", "{% if n %}", "é {{ `x }}"])).to_string())
        } else {
            ("zz_broken.html".to_string(), (*rng.pick(&["{{ 1 | no_such_filter }}", "{% if n is no_such_test %}{% endif %}", "{{ no_such_fn() }}", "{% include \"no/such\" %}", "{{ <no.such /> }}"])).to_string())
        };
        Some(HistSpec { kind, target, prefix, broken })
    } else {
        None
    };
    let mut hist = hist;
    // about one case in seven is spelled in custom delimiters (set on the instance with
    // `set_delimiters`): every delimiter is 2 bytes long, so all byte offsets stay as they are
    let (mut set, mut fault) = (set, fault);
    let mut sources = sources;
    if forced.is_some_and(|_| seed % 3 == 0) || (forced.is_none() && rng.chance(1, 7)) {
        let d = rng.pick(&delimiter_sets()).clone();
        let mut s2 = set.clone();
        for t in s2.tpls.iter_mut() {
            for p in t.pieces.iter_mut() {
                p.text = respell(&p.text, &d);
            }
        }
        s2.delims = Some(d.clone());
        let src2 = s2.sources();
        // the respelled set must still register and render (a filler character could collide)
        if observe(&src2, &entry, &ctx, &s2.delims).outcome == "ok" {
            set = s2;
            sources = src2;
            fault.text = respell(&fault.text, &d);
            if let Some(h) = hist.as_mut() {
                h.prefix = respell(&h.prefix, &d);
                h.broken.1 = respell(&h.broken.1, &d);
            }
        }
    }
    // the file route: one syntax fault in four, one rendering fault in ten (those without a history)
    if hist.is_none() && rng.chance(1, if fault.expect == Expect::Render { 10 } else { 4 }) {
        set.route = 1;
    }
    let mut case = finish_case(&set, slot, &fault, &hist);
    let mut obs = observe_case(&case);
    if obs.outcome == "diverged" && obs.panic_msg.starts_with("add #0") {
        // the "rendering" fault is refused at registration already: no history to build on
        hist = None;
        case = finish_case(&set, slot, &fault, &hist);
        obs = observe_case(&case);
    }
    let mut verdict = oracle(&case, &obs, perturb);
    merge_direct_component(&case, &mut verdict, perturb);
    Outcome::Done(Box::new(Done { case, obs, verdict, set, slot, fault, hist, valid_sources: sources }))
}

/// The same fault reached through `Tera::render_component`: same oracle, no enclosing call site.
fn merge_direct_component(case: &Case, verdict: &mut Verdict, perturb: bool) {
    let Some(comp) = &case.direct_component else { return };
    let o = observe_component(&case.templates, comp, &case.delims);
    let mut c2 = case.clone();
    c2.chain.clear();
    let v2 = oracle(&c2, &o, perturb);
    verdict.checks += v2.checks;
    verdict.direct_component = Some(if o.outcome == "err" { o.kind.clone() } else { o.outcome.to_string() });
    for (id, d) in v2.fails {
        verdict.fails.push((format!("render_component/{id}"), d));
    }
}

/// Greedy shrink at piece level while the first failing check stays the same.
fn shrink(d: &Done, perturb: bool) -> Case {
    let sig = match d.verdict.fails.first() {
        Some(f) => f.0.clone(),
        None => return d.case.clone(),
    };
    let still = |set: &TSet| -> Option<Case> {
        let c = finish_case(set, d.slot, &d.fault, &d.hist);
        let o = observe_case(&c);
        let mut v = oracle(&c, &o, perturb);
        merge_direct_component(&c, &mut v, perturb);
        (v.fails.first().map(|f| f.0.as_str()) == Some(sig.as_str())).then_some(c)
    };
    let mut set = d.set.clone();
    let mut best = d.case.clone();
    // 1. units off the path: blank their calls, then drop templates that are not needed
    let mut on_path = vec![false; set.units.len()];
    let mut u = set.slots[d.slot].unit;
    loop {
        on_path[u] = true;
        match set.units[u].caller {
            Some(c) => u = c,
            None => break,
        }
    }
    for u in 0..set.units.len() {
        if on_path[u] {
            continue;
        }
        let mut t = set.clone();
        for tp in t.tpls.iter_mut() {
            for p in tp.pieces.iter_mut() {
                if p.kind == PK::Call(u) || p.kind == PK::CallClose(u) {
                    p.text.clear();
                }
            }
        }
        if let Some(c) = still(&t) {
            set = t;
            best = c;
        }
    }
    let host = set.slots[d.slot].tpl;
    for ti in (0..set.tpls.len()).rev() {
        if ti == host || ti == set.entry {
            continue;
        }
        // dropping = emptying name-preserving is not enough: remove the template from the set
        let mut t = set.clone();
        t.tpls[ti].pieces.clear();
        t.tpls[ti].name = format!("__dropped_{ti}");
        if let Some(c) = still(&t) {
            set = t;
            best = c;
        }
    }
    // 2. filler pieces: remove, else halve
    for round in 0..8 {
        for ti in 0..set.tpls.len() {
            for pi in 0..set.tpls[ti].pieces.len() {
                if set.tpls[ti].pieces[pi].kind != PK::Filler || set.tpls[ti].pieces[pi].text.is_empty() {
                    continue;
                }
                let old = set.tpls[ti].pieces[pi].text.clone();
                let cand: String = if round == 0 {
                    String::new()
                } else {
                    let n = old.chars().count() / 2;
                    old.chars().skip(n).collect()
                };
                if cand == old {
                    continue;
                }
                set.tpls[ti].pieces[pi].text = cand;
                match still(&set) {
                    Some(c) => best = c,
                    None => set.tpls[ti].pieces[pi].text = old,
                }
            }
        }
    }
    // templates emptied by the shrinker and never referenced are left out of the replay
    best.templates.retain(|(n, _)| !n.starts_with("__dropped_"));
    for a in best.adds.iter_mut() {
        a.templates.retain(|(n, _)| !n.starts_with("__dropped_"));
    }
    best
}

fn features(case: &Case) -> Vec<String> {
    let mut f = Vec::new();
    let src = case.src_of(&case.host).unwrap_or("");
    let pos = case.tok.start.min(src.len());
    let (line, _) = linecol(src, pos);
    let line_start = src[..pos].rfind('\n').map(|i| i + 1).unwrap_or(0);
    let prefix = &src[line_start..pos];
    f.push(format!("line.{}", match line { 1 => "1", 2..=5 => "2-5", 6..=20 => "6-20", _ => "21+" }));
    if !prefix.is_ascii() {
        f.push("line.nonascii-before-fault-on-line".into());
        if prefix.chars().any(|c| c.len_utf8() == 4) {
            f.push("line.4byte-before-fault-on-line".into());
        }
        if prefix.chars().any(|c| ('\u{300}'..='\u{36f}').contains(&c)) {
            f.push("line.combining-before-fault-on-line".into());
        }
    }
    if !src[..line_start].is_ascii() {
        f.push("line.nonascii-on-earlier-lines".into());
    }
    if prefix.contains('\t') {
        f.push("line.tab-before-fault".into());
    }
    if src[..pos].contains("\r\n") {
        f.push("line.crlf-before-fault".into());
    }
    if prefix.chars().count() > 200 {
        f.push("line.long-prefix".into());
    }
    if case.planted.end == src.len() {
        f.push("line.fault-at-eof-no-newline".into());
    }
    if case.planted.start == 0 {
        f.push("line.fault-at-byte-0".into());
    }
    if src[..pos].contains("#}") || src[..pos].contains("endraw") {
        f.push("line.after-comment-or-raw".into());
    }
    f
}

// ------------------------------------------------------------------ model requests

fn report_request(src: &str, sp: &[usize; 6]) -> String {
    format!("report {} {} {} {} {} {} {}", lexwire::hex_or_dash(src.as_bytes()), sp[0], sp[1], sp[2], sp[3], sp[4], sp[5])
}

/// what the implementation displayed, in the driver's answer form
fn report_answer_of(obs: &Obs) -> Option<String> {
    match obs.display.as_ref()? {
        Err(_) => Some("panic".into()),
        Ok(d) => {
            let (mb, _) = parse_display(d);
            let b = mb?;
            Some(format!("ok:{}:{}", hex(b.quoted.as_bytes()), hex(b.underline.as_bytes())))
        }
    }
}

fn same_report_answer(model: &str, imp: &str) -> bool {
    let mp = model.starts_with("panic");
    let ip = imp.starts_with("panic");
    if mp || ip {
        return mp && ip;
    }
    let norm = |s: &str| -> Vec<String> { s.split(':').map(|p| if p == "-" { String::new() } else { p.to_string() }).collect() };
    norm(model) == norm(imp)
}

fn custom_delims(src: &str) -> (D, String) {
    let d = D::new("<%", "%>", "<<", ">>", "<#", "#>");
    let s = src.replace("{{", "<<").replace("}}", ">>").replace("{%", "<%").replace("%}", "%>").replace("{#", "<#").replace("#}", "#>");
    (d, s)
}

struct ModelReq {
    stage: &'static str,
    req: String,
    imp: String,
    /// index of the case in the batch
    case: usize,
    what: String,
}

// ------------------------------------------------------------------ adversarial: spans at the very end of a source

fn eof_adversarial() -> Vec<String> {
    let constructs = [
        "{{ a", "{{", "{% if a %}x", "{% if a", "{# c", "{% raw %}zz", "{{ 'abc", "{{ \"abc\\", "{% block b %}", "{% for i in arr %}", "{{ a |", "{{ a +",
        "{% <c> %}", "{{ [1,", "{{ a.", "{%", "{#", "{{-", "{% component c() %}", "{% filter upper %}", "{% set x %}", "{{ a ^", "{{ `", "{% raw %}", "{% if a %}{% else %}",
        "{{ 99999999999999999999", "{% if a %}{% elif",
    ];
    let endings = ["", "\n", "é", "😀", "\n\n", "\r\n", "x\u{301}", " ", "\t", "\n\r\n", "日本\n"];
    let prefixes = ["", "é\n", "line\r\n\t", "日本語 😀 ", "\n\n\n"];
    // regression cases of finding F13 (eoi() span: start line/col vs range.start)
    let mut v = vec!["abc {{ a".to_string(), "x\ny {% if a %}\nz".to_string()];
    // an open construct whose LAST token is a comment (with / without `-` markers, multi-line,
    // as the only token after the opener), followed by nothing or by whitespace only
    let openers = [
        "{% if a %}x", "{% if a %}", "{% for i in arr %}é", "{% block b %}x\n", "{% filter upper %}x", "{% set x %}x", "{% component c() %}x", "{% <c> %}x", "{% if a %}x{% else %}y",
        "{% if a %}{% elif b %}", "{% for i in arr %}x{% else %}", "{% block b %}{% block c %}x{% endblock %}", "{% raw %}r{% endraw %}{% if a %}",
    ];
    let comments = ["{# c #}", "{#- c -#}", "{# multi\nline é #}", "{#- c #}", "{# c -#}", "{##}", "{# a #}{# b #}", "{# 😀 #}"];
    let trailers = ["", " ", "\n", "\n\t \r\n"];
    for p in ["", "é\n"] {
        for o in openers {
            for c in comments {
                for t in trailers {
                    v.push(format!("{p}{o}{c}{t}"));
                }
            }
        }
    }
    for p in prefixes {
        for c in constructs {
            for e in endings {
                v.push(format!("{p}{c}{e}"));
            }
        }
    }
    v
}


// ------------------------------------------------------------------ special families: deep call chains, huge chunks

/// Cases built outside the piece generator; each family has ONE size parameter so that a failing
/// case shrinks by searching the smallest failing parameter.
#[derive(Clone, Debug)]
enum Special {
    /// call chain of `depth` enclosing call sites; kind 0 = includes only, 1 = nested components,
    /// 2 = one recursive component, 3 = include / component alternating; `caps` = some of the sites
    /// sit inside output captures
    Deep { kind: u8, depth: usize, caps: bool, fault: usize },
    /// `lines` repetitions of a one-expression line, then the fault: the fault (or the failing
    /// include / component call) sits at a high instruction index of ONE chunk;
    /// chunk 0 = template body, 1 = a block body, 2 = a component body;
    /// fault 0 = undefined variable, 1 = bad operand, 2 = failing include, 3 = failing component call
    Large { chunk: u8, fault: u8, lines: usize },
}

const DEEP_FAULTS: [(&str, &str, &str); 3] = [("div-zero", "1 / 0", "0"), ("bad-operand", "\"é\" + 1", "\"é\""), ("undefined-var", "nosuchvar", "nosuchvar")];

fn deep_case(kind: u8, depth: usize, caps: bool, fault: usize) -> Case {
    let (class, fexpr, ftok) = DEEP_FAULTS[fault % DEEP_FAULTS.len()];
    let fault_body = format!("x é\n\t{{{{ {fexpr} }}}}");
    let f_off = fault_body.find("{{").unwrap();
    let f_tok = fault_body.find(ftok).unwrap();
    let mut need_wrap = false;
    let mut wrap = |s: usize, call: String| -> (String, usize, &'static str) {
        let (cap, open, close): (&'static str, &str, &str) = if !caps {
            ("", "", "")
        } else {
            match s % 5 {
                1 => ("filter", "{% filter upper %}", "{% endfilter %}"),
                2 => ("set", "{% set capq %}", "{% endset %}{{ capq }}"),
                3 => ("body", "{% <wrapq> %}", "{% </wrapq> %}"),
                4 => ("filter+set", "{% filter trim %}é{% set capq %}", "{% endset %}{{ capq }}{% endfilter %}"),
                _ => ("", "", ""),
            }
        };
        if cap == "body" {
            need_wrap = true;
        }
        let pre = format!("{}{}", "é line\n".repeat(s % 3), ["", "日本 ", "\t"][s % 3]);
        (format!("{pre}{open}{call}{close}\n tail é\n"), pre.len() + open.len(), cap)
    };
    let mut templates: Vec<(String, String)> = Vec::new();
    let mut chain: Vec<(String, usize)> = Vec::new();
    let mut chain_caps: Vec<String> = Vec::new();
    let host;
    let planted;
    let tok;
    let entry = "deep/t0.html".to_string();
    if kind == 2 {
        // one recursive component: the same call site once per level
        let comps = "deep/rec.html".to_string();
        let head = "{# recursive é #}\n{% component rec(k) %}\n{% if k > 0 %}é ";
        let call = "{{ <rec k={k - 1} /> }}";
        let mid = "{% else %}";
        let src = format!("{head}{call}{mid}{fault_body}{{% endif %}}\n{{% endcomponent rec %}}");
        let site = head.len() + 3;
        let fb = head.len() + call.len() + mid.len();
        let (body, a, cap) = wrap(0, format!("{{{{ <rec k={{{}}} /> }}}}", depth - 1));
        for _ in 0..depth - 1 {
            chain.push((comps.clone(), site));
            chain_caps.push(String::new());
        }
        chain.push((entry.clone(), a + 3));
        chain_caps.push(cap.to_string());
        templates.push((entry.clone(), body));
        templates.push((comps.clone(), src));
        host = comps;
        planted = fb + f_off..fb + fault_body.len();
        tok = fb + f_tok..fb + f_tok + ftok.len();
    } else {
        // holders h_0 .. h_depth; h_s (s < depth) holds the call to h_{s+1}, h_depth the fault
        let is_comp = |s: usize| match kind {
            0 => false,
            1 => s >= 1,
            _ => s >= 2 && s % 2 == 0,
        };
        let name = |s: usize| if is_comp(s) { format!("dk{s}") } else { format!("deep/t{s}.html") };
        let comps = "deep/comps.html".to_string();
        let mut comps_src = String::from("{# components of the deep chain é #}\n");
        let mut sites: Vec<(String, usize, String)> = Vec::new();
        let mut host_v = (String::new(), 0usize);
        for s in 0..=depth {
            let (body, anchor, cap) = if s < depth {
                let callee = name(s + 1);
                if is_comp(s + 1) {
                    let (b, a, c) = wrap(s, format!("{{{{ <{callee} /> }}}}"));
                    (b, a + 3, c)
                } else {
                    let (b, a, c) = wrap(s, format!("{{% include \"{callee}\" %}}"));
                    (b, a + 11, c)
                }
            } else {
                (fault_body.clone(), 0, "")
            };
            let (file, base) = if is_comp(s) {
                let n = name(s);
                comps_src.push_str(&format!("{{% component {n}() %}}"));
                let base = comps_src.len();
                comps_src.push_str(&body);
                comps_src.push_str(&format!("{{% endcomponent {n} %}}\n"));
                (comps.clone(), base)
            } else {
                templates.push((name(s), body.clone()));
                (name(s), 0)
            };
            if s < depth {
                sites.push((file, base + anchor, cap.to_string()));
            } else {
                host_v = (file, base);
            }
        }
        if (0..=depth).any(is_comp) {
            templates.push((comps, comps_src));
        }
        for (f, o, c) in sites.into_iter().rev() {
            chain.push((f, o));
            chain_caps.push(c);
        }
        host = host_v.0;
        planted = host_v.1 + f_off..host_v.1 + fault_body.len();
        tok = host_v.1 + f_tok..host_v.1 + f_tok + ftok.len();
    }
    if need_wrap {
        templates.push(("deep/wrap.html".to_string(), "{% component wrapq() %}<w>{{ body }}</w>{% endcomponent wrapq %}".to_string()));
    }
    Case {
        templates,
        entry,
        context: base_context(),
        class: class.to_string(),
        expect: Expect::Render,
        cover: Cover::Contains,
        host,
        planted,
        tok,
        chain,
        chain_caps,
        role: format!("deep-{}", ["include-chain", "nested-components", "recursive-component", "alternating"][kind as usize % 4]),
        direct_component: None,
        adds: vec![],
        history: String::new(),
        delims: None,
        route: 0,
    }
}

const BIG_LINE: &str = "{{ n }}\n";

fn large_case(chunk: u8, fault: u8, lines: usize) -> Case {
    let (class, ftext, ftok): (&str, &str, &str) = match fault {
        0 => ("undefined-var", "é {{ nosuchvar }}", "nosuchvar"),
        1 => ("bad-operand", "\t{{ 2 * \"é\" }}", "\"é\""),
        2 => ("div-zero", "日本 {% include \"large/bad.html\" %}", "\"large/bad.html\""),
        _ => ("div-zero", "é {{ <badc /> }}", "<badc />"),
    };
    let (head, tail, big_name): (&str, &str, &str) = match chunk {
        0 => ("", "\nend", "large/page.html"),
        1 => ("top {{ n }}\n{% block big %}", "\n{% endblock big %}\nend", "large/page.html"),
        _ => ("{# é #}\n{% component bigc(n = 5) %}", "\n{% endcomponent bigc %}", "large/comps.html"),
    };
    let mut src = String::with_capacity(head.len() + lines * BIG_LINE.len() + 64);
    src.push_str(head);
    for _ in 0..lines {
        src.push_str(BIG_LINE);
    }
    let f0 = src.len();
    src.push_str(ftext);
    src.push_str(tail);
    let t0 = f0 + ftext.find(ftok).unwrap();
    let mut templates = vec![(big_name.to_string(), src)];
    let mut chain: Vec<(String, usize)> = Vec::new();
    let mut host = big_name.to_string();
    let mut planted = f0 + ftext.find('{').unwrap()..f0 + ftext.len();
    let mut tok = t0..t0 + ftok.len();
    if fault == 2 {
        let b = "x\n {{ 1 / 0 }}";
        templates.push(("large/bad.html".to_string(), b.to_string()));
        host = "large/bad.html".into();
        planted = b.find("{{").unwrap()..b.len();
        tok = b.find('0').unwrap()..b.find('0').unwrap() + 1;
        chain.push((big_name.to_string(), t0));
    } else if fault == 3 {
        let b = "{% component badc() %}\n {{ 1 / 0 }}{% endcomponent badc %}";
        templates.push(("large/badc.html".to_string(), b.to_string()));
        host = "large/badc.html".into();
        planted = b.find("{{").unwrap()..b.find("}}").unwrap() + 2;
        tok = b.find("0 }}").unwrap()..b.find("0 }}").unwrap() + 1;
        chain.push((big_name.to_string(), t0));
    }
    let mut entry = big_name.to_string();
    if chunk == 2 {
        entry = "large/entry.html".to_string();
        templates.push((entry.clone(), "é\n{{ <bigc /> }}".to_string()));
        chain.push((entry.clone(), 6));
    }
    let n = chain.len();
    Case {
        templates,
        entry,
        context: base_context(),
        class: class.to_string(),
        expect: Expect::Render,
        cover: Cover::Contains,
        host,
        planted,
        tok,
        chain,
        chain_caps: vec![String::new(); n],
        role: format!("large-{}", ["template-body", "block-body", "component-body"][chunk as usize % 3]),
        direct_component: None,
        adds: vec![],
        history: String::new(),
        delims: None,
        route: 0,
    }
}

fn special_case(sp: &Special) -> Case {
    match sp {
        Special::Deep { kind, depth, caps, fault } => deep_case(*kind, *depth, *caps, *fault),
        Special::Large { chunk, fault, lines } => large_case(*chunk, *fault, *lines),
    }
}

/// Instructions one `BIG_LINE` compiles to (measured on the stored, optimised chunk).
fn instr_per_line() -> Option<usize> {
    let len_of = |k: usize| -> Option<usize> {
        let mut tera = Tera::default();
        tera.add_raw_templates(vec![("m", BIG_LINE.repeat(k))]).ok()?;
        let chunks = tera::verif_hooks::stored_chunks_wire(&tera, "m")?;
        chunks.iter().find(|c| c.0 == "main").map(|c| c.1.len())
    };
    let (a, b) = (len_of(20)?, len_of(40)?);
    (b > a).then(|| (b - a) / 20).filter(|p| *p > 0)
}

/// Smallest size parameter of the same family on which the first failing check still fails.
fn shrink_special(sp: &Special, sig: &str, perturb: bool) -> Special {
    let fails = |x: &Special| -> bool {
        let c = special_case(x);
        let o = observe_case(&c);
        oracle(&c, &o, perturb).fails.first().map(|f| f.0.as_str()) == Some(sig)
    };
    match sp {
        Special::Deep { kind, depth, caps, fault } => {
            for d in 1..*depth {
                let x = Special::Deep { kind: *kind, depth: d, caps: *caps, fault: *fault };
                if fails(&x) {
                    return x;
                }
            }
            sp.clone()
        }
        Special::Large { chunk, fault, lines } => {
            // failing is monotone in the size here: binary search
            let (mut lo, mut hi) = (0usize, *lines);
            while lo < hi {
                let mid = (lo + hi) / 2;
                if fails(&Special::Large { chunk: *chunk, fault: *fault, lines: mid }) {
                    hi = mid;
                } else {
                    lo = mid + 1;
                }
            }
            Special::Large { chunk: *chunk, fault: *fault, lines: hi }
        }
    }
}

// ------------------------------------------------------------------ which syntax-error sites were reached

/// Read a Rust string literal starting at the opening quote; returns (content, index after it).
fn rust_str_lit(b: &[u8], mut i: usize) -> Option<(String, usize)> {
    if b.get(i) != Some(&b'"') {
        return None;
    }
    i += 1;
    let mut out: Vec<u8> = Vec::new();
    while i < b.len() {
        match b[i] {
            b'\\' => {
                match b.get(i + 1)? {
                    b'n' => out.push(b'\n'),
                    b'\n' => {
                        // line continuation: skip the newline and leading whitespace
                        i += 2;
                        while i < b.len() && (b[i] == b' ' || b[i] == b'\t') {
                            i += 1;
                        }
                        continue;
                    }
                    c => out.push(*c),
                }
                i += 2;
            }
            b'"' => return Some((String::from_utf8_lossy(&out).into_owned(), i + 1)),
            c => {
                out.push(c);
                i += 1;
            }
        }
    }
    None
}

/// Literal parts of a `format!` template (`{{` / `}}` unescaped, `{…}` placeholders split).
fn template_parts(t: &str) -> Vec<String> {
    let mut parts = vec![String::new()];
    let cs: Vec<char> = t.chars().collect();
    let mut i = 0;
    while i < cs.len() {
        match cs[i] {
            '{' if cs.get(i + 1) == Some(&'{') => {
                parts.last_mut().unwrap().push('{');
                i += 2;
            }
            '}' if cs.get(i + 1) == Some(&'}') => {
                parts.last_mut().unwrap().push('}');
                i += 2;
            }
            '{' => {
                while i < cs.len() && cs[i] != '}' {
                    i += 1;
                }
                i += 1;
                parts.push(String::new());
            }
            c => {
                parts.last_mut().unwrap().push(c);
                i += 1;
            }
        }
    }
    parts.into_iter().filter(|p| !p.is_empty()).collect()
}

/// Message templates of the syntax-error sites of the lexer and the parser, read from the source
/// tree under study (regenerated on every run, nothing is hard-wired here).
fn syntax_sites() -> Result<Vec<String>, String> {
    let repo = std::env::var("VERIF_REPO").unwrap_or_else(|_| "/repo".into());
    let mut out: Vec<String> = Vec::new();
    for f in ["tera/src/parsing/parser.rs", "tera/src/parsing/lexer.rs"] {
        let path = format!("{repo}/{f}");
        let src = std::fs::read_to_string(&path).map_err(|e| format!("{path}: {e}"))?;
        let b = src.as_bytes();
        let skip_ws = |mut i: usize| {
            while i < b.len() && b[i].is_ascii_whitespace() {
                i += 1;
            }
            i
        };
        for needle in ["syntax_error(", "syntax_error_with_note(", "syntax_error!(", "expect_token!("] {
            let mut from = 0;
            while let Some(k) = src[from..].find(needle) {
                let at = from + k;
                from = at + needle.len();
                if needle == "expect_token!(" {
                    // third macro argument = what was expected
                    let end = src[from..].find(")?").map(|e| from + e).unwrap_or(from);
                    let call = &src[from..end];
                    if let Some(q) = call.rfind(", \"") {
                        if let Some((exp, _)) = rust_str_lit(b, from + q + 2) {
                            out.push(format!("Found {{}} but expected {}.", exp.replace('{', "{{").replace('}', "}}")));
                        }
                    }
                    continue;
                }
                let mut i = skip_ws(from);
                if b.get(i) == Some(&b'&') {
                    i = skip_ws(i + 1);
                }
                let is_format = src[i..].starts_with("format!(");
                if is_format {
                    i = skip_ws(i + "format!(".len());
                }
                if let Some((lit, _)) = rust_str_lit(b, i) {
                    if !lit.contains("$expectation") && !lit.is_empty() {
                        // a plain literal is not a format template: keep its braces literal
                        out.push(if is_format { lit } else { lit.replace('{', "{{").replace('}', "}}") });
                    }
                }
            }
        }
    }
    out.sort();
    out.dedup();
    out.retain(|t| t != "Found {} but expected {}.");
    Ok(out)
}

fn message_hits(template: &str, msg: &str) -> bool {
    let mut pos = 0;
    for p in template_parts(template) {
        match msg[pos..].find(&p) {
            Some(i) => pos += i + p.len(),
            None => return false,
        }
    }
    true
}

// ------------------------------------------------------------------ main

fn replay(path: &str) {
    let text = std::fs::read_to_string(path).expect("replay file");
    let j: J = serde_json::from_str(&text).expect("replay json");
    let case = Case::from_json(&j).expect("replay case");
    let obs = observe_case(&case);
    for (i, a) in case.adds.iter().enumerate() {
        println!("history: add #{i} of {:?}, must be {}", a.templates.iter().map(|t| t.0.as_str()).collect::<Vec<_>>(), if a.expect_ok { "Ok" } else { "Err" });
    }
    println!("planted: class={} template={} range={:?} token={:?} ({:?}) cover={} expect={}", case.class, case.host, case.planted, case.tok, case.src_of(&case.host).and_then(|s| s.get(case.tok.clone())), cover_name(case.cover), expect_name(case.expect));
    println!("stage={} outcome={} kind={} filename={:?} span={:?}", obs.stage, obs.outcome, obs.kind, obs.filename, obs.span);
    if !obs.panic_msg.is_empty() {
        println!("panic: {}", obs.panic_msg);
    }
    match &obs.display {
        Some(Ok(d)) => println!("display:\n{d}"),
        Some(Err(p)) => println!("display PANICKED: {p}"),
        None => {}
    }
    let mut v = oracle(&case, &obs, false);
    if let Some(comp) = &case.direct_component {
        let o = observe_component(&case.templates, comp, &case.delims);
        println!("render_component({comp:?}): outcome={} kind={} filename={:?} span={:?}", o.outcome, o.kind, o.filename, o.span);
        if let Some(Ok(d)) = &o.display {
            println!("display:\n{d}");
        }
    }
    merge_direct_component(&case, &mut v, false);
    println!("oracle: {} checks, {} failed", v.checks, v.fails.len());
    for (id, d) in &v.fails {
        println!("  FAIL {id}: {d}");
    }
    if let (Some(sp), Some(src)) = (obs.span, case.src_of(&obs.filename)) {
        let cut = |s: String| if s.len() > 1500 { format!("{}… ({} chars)", &s[..1500], s.len()) } else { s };
        println!("model request: {}", cut(report_request(src, &sp)));
        println!("implementation answer: {}", cut(report_answer_of(&obs).unwrap_or_default()));
    }
}

fn case_hash(c: &Case) -> u64 {
    use std::hash::{Hash, Hasher};
    let mut h = std::collections::hash_map::DefaultHasher::new();
    c.templates.hash(&mut h);
    c.host.hash(&mut h);
    c.planted.hash(&mut h);
    h.finish()
}

fn par_map<T: Send, F: Fn(u64) -> T + Sync>(seeds: &[u64], threads: usize, f: F) -> Vec<T> {
    let chunk = seeds.len().div_ceil(threads).max(1);
    std::thread::scope(|s| {
        let f = &f;
        let hs: Vec<_> = seeds.chunks(chunk).map(|c| s.spawn(move || c.iter().map(|x| f(*x)).collect::<Vec<T>>())).collect();
        hs.into_iter().flat_map(|h| h.join().unwrap()).collect()
    })
}

fn main() {
    quiet_panics();
    let env = Env::from_env();
    if let Some(path) = replay_path() {
        replay(&path);
        let _ = std::fs::remove_dir_all(file_base_dir());
        return;
    }
    let args: Vec<String> = std::env::args().collect();
    // `--self-test-perturb`: the oracle's own recomputation counts columns in bytes; violations must
    // then appear on non-ASCII lines (shows the oracle has teeth). Never used by the check script.
    let perturb = args.iter().any(|a| a == "--self-test-perturb");
    let mut report = Report::new("C12");
    let threads = std::thread::available_parallelism().map(|n| n.get()).unwrap_or(8).min(16);
    let budget = env.budget(4_000, 150_000);
    let batch_size = 5_000usize;
    let mut master = Rng::new(env.seed);
    let exe = driver::driver_path(&env.verif_dir, "drv_c12");
    let mut driver_ok = exe.exists();
    if !driver_ok {
        let e = format!("model driver {} not found", exe.display());
        report.notes.push(format!("model driver unavailable: {e}"));
        report.violation("model-mismatch", format!("model driver could not be run: {e}"), json!({"stage": "driver", "error": e}));
    }

    let mut distinct: HashSet<u64> = HashSet::new();
    let mut planted = 0u64;
    let mut no_error = 0u64;
    let mut report_errors = 0u64;
    let mut prop_sigs: HashSet<String> = HashSet::new();
    let mut mismatch_reported = 0usize;
    let mut sample_roles: HashSet<String> = HashSet::new();
    let mut syntax_messages: HashSet<String> = HashSet::new();
    let mut invalid_examples: Vec<String> = Vec::new();
    let classes = all_classes();

    let mut remaining = budget;
    while remaining > 0 {
        let n = remaining.min(batch_size);
        remaining -= n;
        let seeds: Vec<u64> = (0..n).map(|_| master.next_u64()).collect();
        let outcomes: Vec<Outcome> = par_map(&seeds, threads, |s| run_seed(s, None, perturb));
        let mut dones: Vec<(u64, Box<Done>)> = Vec::new();
        for (seed, o) in seeds.iter().zip(outcomes) {
            match o {
                Outcome::InvalidSet(why) => {
                    report.count("gen.invalid-set-discarded");
                    if invalid_examples.len() < 3 {
                        invalid_examples.push(format!("seed {seed}: {}", why.chars().take(300).collect::<String>()));
                    }
                }
                Outcome::NoFault => report.count("gen.no-applicable-fault"),
                Outcome::Done(d) => dones.push((*seed, d)),
            }
        }
        // ---- aggregate the direct oracle
        let mut reqs: Vec<ModelReq> = Vec::new();
        for (ci, (seed, d)) in dones.iter().enumerate() {
            let c = &d.case;
            let v = &d.verdict;
            report.evaluations += 1;
            planted += 1;
            report.oracle_checks += v.checks;
            report.oracle_failures += v.fails.len() as u64;
            report.count(&format!("class.{}", c.class));
            report.count(&format!("role.{}", c.role));
            report.count(&format!("templates.{}", c.templates.len()));
            if c.route == 1 {
                report.count(&format!("file-route.batch-named.{}", if d.obs.outcome == "err" { d.obs.kind.as_str() } else { d.obs.outcome }));
            }
            if c.entry != c.host && c.entry.ends_with(c.host.as_str()) {
                report.count("naming.entry-name-ends-with-host-name");
            }
            if c.chain.iter().any(|x| x.0 != c.host && x.0.ends_with(c.host.as_str())) {
                report.count("naming.caller-name-ends-with-host-name");
            }
            if let Some(d) = &c.delims {
                report.count(&format!("delimiters.{}", d.fields().join(" ")));
                if let Some(src) = c.src_of(&c.host) {
                    let pos = c.tok.start.min(src.len());
                    let ls = src[..pos].rfind('\n').map(|i| i + 1).unwrap_or(0);
                    let before = &src[ls..pos];
                    let n = [&d.bs, &d.vs, &d.cs].iter().filter(|x| !x.is_ascii()).map(|x| before.matches(x.as_str()).count()).sum::<usize>();
                    report.count(&format!("delimiters.non-ascii-starts-before-fault-on-line.{}", n.min(3)));
                }
            }
            for (_, src) in &c.templates {
                let first = src.chars().next();
                match first {
                    Some('\u{feff}') => report.count("source-starts-with.bom"),
                    Some('\u{200b}') => report.count("source-starts-with.zero-width-space"),
                    Some('\u{a0}') => report.count("source-starts-with.nbsp"),
                    _ => {}
                }
            }
            if c.src_of(&c.host).is_some_and(|s| s.starts_with('\u{feff}')) {
                report.count("host-starts-with-bom");
            }
            if !c.history.is_empty() {
                report.count(&format!("history.{}", c.history));
                if d.obs.outcome == "diverged" {
                    report.count("history.diverged-not-judged");
                }
            }
            let kind = if d.obs.outcome == "err" { d.obs.kind.clone() } else { d.obs.outcome.to_string() };
            if kind == "Syntax" {
                syntax_messages.insert(d.obs.message.clone());
            }
            report.count(&format!("kind.{kind}"));
            report.count(&format!("outcome.{}.{}", expect_name(c.expect), kind));
            if let Some(k) = &v.direct_component {
                report.count(&format!("render_component.{k}"));
            }
            if v.report_error {
                report_errors += 1;
                report.count(&format!("notes.{}", v.notes));
                report.count(&format!("chain-depth.{}", c.chain.len()));
                if d.obs.kind == "Rendering" {
                    report.count(&format!("callsite.depth.{}", c.chain.len()));
                    for cap in &c.chain_caps {
                        report.count(&format!("callsite.{}", if cap.is_empty() { "plain".to_string() } else { format!("in-capture.{cap}") }));
                    }
                }
                if v.collapsed {
                    report.count("span.collapsed-start-at-range-end(eoi)");
                }
                if v.extra_notes > 0 {
                    report.count("notes.extra-beyond-call-sites");
                }
                if let Some(sp) = d.obs.span {
                    if sp[0] != sp[2] {
                        report.count("span.multi-line");
                    }
                    if sp[4] == sp[5] {
                        report.count("span.zero-width");
                    }
                }
                for f in features(c) {
                    report.count(&f);
                }
            } else {
                report.count(&format!("no-report-error.{}.{}", c.class, kind));
                if d.obs.outcome == "ok" {
                    no_error += 1;
                }
            }
            if v.complete && distinct.insert(case_hash(c)) {
                report.distinct_nontrivial += 1;
            }
            if v.complete && v.fails.is_empty() && sample_roles.insert(format!("{}|{}", c.role, c.expect as u8)) {
                report.sample(json!({
                    "class": c.class, "role": c.role, "host": c.host, "entry": c.entry, "templates": c.templates.len(),
                    "planted": c.src_of(&c.host).and_then(|s| s.get(c.planted.clone())),
                    "kind": d.obs.kind, "filename": d.obs.filename, "span": d.obs.span, "notes": v.notes,
                    "display": d.obs.display.as_ref().and_then(|x| x.as_ref().ok()).map(|s| s.chars().take(400).collect::<String>()),
                }));
            }
            if !v.fails.is_empty() {
                let sig = format!("{}|{}", v.fails[0].0, c.class);
                report.count(&format!("oracle-fail.{}", v.fails[0].0));
                if prop_sigs.len() < 8 && prop_sigs.insert(sig) {
                    let small = shrink(d, perturb);
                    let o = observe_case(&small);
                    let mut sv = oracle(&small, &o, perturb);
                    merge_direct_component(&small, &mut sv, perturb);
                    let mut rj = small.to_json();
                    rj["observed"] = json!({"stage": o.stage, "outcome": o.outcome, "kind": o.kind, "filename": o.filename, "span": o.span,
                        "display": o.display.as_ref().map(|x| match x { Ok(s) => s.clone(), Err(p) => format!("PANIC {p}") }), "panic": o.panic_msg});
                    rj["oracle_failures"] = json!(sv.fails.iter().map(|f| format!("{}: {}", f.0, f.1)).collect::<Vec<_>>());
                    rj["seed"] = json!(seed);
                    let summary = format!(
                        "fault `{}` planted in `{}` ({}): {}",
                        small.class,
                        small.host,
                        small.role,
                        sv.fails.first().or(v.fails.first()).map(|f| format!("{}: {}", f.0, f.1)).unwrap_or_default()
                    );
                    report.violation("property", summary.chars().take(600).collect(), rj);
                }
            }
            // ---- model requests
            let d0 = c.delims.clone().unwrap_or_default();
            if let Some(hs) = c.src_of(&c.host) {
                reqs.push(ModelReq { stage: "lex-spans", req: lexwire::lex_request(false, &d0, hs), imp: lexwire::canon_tokens(hs, &d0, false), case: ci, what: c.host.clone() });
                reqs.push(ModelReq { stage: "lex-spans-filtered", req: lexwire::lex_request(true, &d0, hs), imp: lexwire::canon_tokens(hs, &d0, true), case: ci, what: c.host.clone() });
            }
            if ci % 8 == 0 {
                for (n, s) in &d.valid_sources {
                    reqs.push(ModelReq { stage: "lex-spans", req: lexwire::lex_request(false, &d0, s), imp: lexwire::canon_tokens(s, &d0, false), case: ci, what: format!("{n} (before planting)") });
                    reqs.push(ModelReq { stage: "lex-spans-filtered", req: lexwire::lex_request(true, &d0, s), imp: lexwire::canon_tokens(s, &d0, true), case: ci, what: format!("{n} (before planting)") });
                }
            }
            if ci % 40 == 0 && c.delims.is_none() {
                for (n, s) in &c.templates {
                    let (dc, sc) = custom_delims(s);
                    reqs.push(ModelReq { stage: "lex-spans", req: lexwire::lex_request(false, &dc, &sc), imp: lexwire::canon_tokens(&sc, &dc, false), case: ci, what: format!("{n} (custom delimiters)") });
                }
            }
            if let (Some(sp), Some(src)) = (d.obs.span, c.src_of(&d.obs.filename)) {
                if let Some(imp) = report_answer_of(&d.obs) {
                    reqs.push(ModelReq { stage: "report-line", req: report_request(src, &sp), imp, case: ci, what: d.obs.filename.clone() });
                }
            }
        }
        // ---- model comparison
        if driver_ok && !reqs.is_empty() {
            let lines: Vec<String> = reqs.iter().map(|r| r.req.clone()).collect();
            match driver::run_batch_parallel(&exe, &lines, threads) {
                Err(e) => {
                    driver_ok = false;
                    report.notes.push(format!("model driver failed: {e}"));
                    report.violation("model-mismatch", format!("model driver could not be run: {e}"), json!({"stage": "driver", "error": e}));
                }
                Ok(answers) => {
                    for (r, ans) in reqs.iter().zip(answers.iter()) {
                        report.model_comparisons += 1;
                        report.count(&format!("model.{}", r.stage));
                        let same = if r.stage.starts_with("lex-spans") { lexwire::same_answer(ans, &r.imp) } else { same_report_answer(ans, &r.imp) };
                        if same {
                            continue;
                        }
                        report.model_disagreements += 1;
                        report.count(&format!("model-disagree.{}", r.stage));
                        if mismatch_reported >= 3 {
                            continue;
                        }
                        mismatch_reported += 1;
                        let (_, d) = &dones[r.case];
                        // the direct oracle did not fail on this case? then a targeted burst: 10x the
                        // per-class share of the budget, same fault class, looking for an oracle failure
                        let mut found: Option<Box<Done>> = None;
                        if d.verdict.fails.is_empty() {
                            let nb = (10 * budget / classes.len()).clamp(200, 4000);
                            let mut br = Rng(seeds[r.case % seeds.len()] ^ 0xb5ad4eceda1ce2a9);
                            let bseeds: Vec<u64> = (0..nb).map(|_| br.next_u64()).collect();
                            let class = d.case.class.clone();
                            let outs = par_map(&bseeds, threads, |s| match run_seed(s, Some(class.as_str()), perturb) {
                                Outcome::Done(x) if !x.verdict.fails.is_empty() => Some(x),
                                _ => None,
                            });
                            report.count_n("burst.cases", nb as u64);
                            found = outs.into_iter().flatten().next();
                        }
                        match found {
                            Some(x) => {
                                let small = shrink(&x, perturb);
                                let mut rj = small.to_json();
                                rj["found_by"] = json!("targeted burst after a model disagreement");
                                rj["oracle_failures"] = json!(x.verdict.fails.iter().map(|f| format!("{}: {}", f.0, f.1)).collect::<Vec<_>>());
                                report.violation("property", format!("fault `{}` in `{}`: {}: {}", small.class, small.host, x.verdict.fails[0].0, x.verdict.fails[0].1).chars().take(600).collect(), rj);
                            }
                            None => {
                                let mut rj = d.case.to_json();
                                rj["stage"] = json!(r.stage);
                                rj["request"] = json!(r.req.chars().take(4000).collect::<String>());
                                rj["source_of"] = json!(r.what);
                                rj["model"] = json!(ans.chars().take(4000).collect::<String>());
                                rj["implementation"] = json!(r.imp.chars().take(4000).collect::<String>());
                                if r.stage.starts_with("lex-spans") {
                                    let (mt, me) = lexwire::parse_answer(ans);
                                    let (it, ie) = lexwire::parse_answer(&r.imp);
                                    let k = mt.iter().zip(it.iter()).position(|(a, b)| a != b).unwrap_or(mt.len().min(it.len()));
                                    rj["first_difference"] = json!({"token_index": k, "model": format!("{:?}", mt.get(k)), "implementation": format!("{:?}", it.get(k)), "model_end": me, "implementation_end": ie});
                                }
                                report.violation("model-mismatch", format!("{}: model and implementation differ on `{}` of a `{}` case", r.stage, r.what, d.case.class), rj);
                            }
                        }
                    }
                }
            }
        }
    }

    // ---- adversarial: spans at the very end of the source; display must not panic
    {
        let srcs = eof_adversarial();
        let mut reqs: Vec<(&'static str, String, String, usize)> = Vec::new();
        for (i, src) in srcs.iter().enumerate() {
            let tpls = vec![("t".to_string(), src.clone())];
            let mut obs = observe(&tpls, "t", &base_context(), &None);
            // every tenth source also goes through a file on disk: registered under its path
            // (`None`) or under a name that differs from the path
            let mut tname = "t".to_string();
            if i % 10 == 0 {
                let (n, o) = observe_single_file(src, None);
                report.count("file-route.single-unnamed");
                tname = n;
                obs = o;
            } else if i % 10 == 5 {
                let (n, o) = observe_single_file(src, Some("named/t é.html"));
                report.count("file-route.single-named");
                tname = n;
                obs = o;
            }
            let tpls = vec![(tname.clone(), src.clone())];
            report.evaluations += 1;
            let case = Case {
                templates: tpls,
                entry: tname.clone(),
                context: base_context(),
                class: "eof-adversarial".into(),
                expect: Expect::Syntax,
                cover: Cover::AtOrAfter,
                host: tname.clone(),
                planted: 0..src.len(),
                tok: 0..src.len(),
                chain: vec![],
                chain_caps: vec![],
                role: "entry".into(),
                direct_component: None,
                adds: vec![],
                history: String::new(),
                delims: None,
                route: 0,
            };
            if obs.outcome == "ok" || (obs.outcome == "err" && obs.kind != "Syntax" && obs.kind != "Rendering") {
                report.count(&format!("eof.not-a-report-error.{}", if obs.outcome == "ok" { "accepted" } else { obs.kind.as_str() }));
                continue;
            }
            if obs.kind == "Syntax" {
                syntax_messages.insert(obs.message.clone());
            }
            let v = oracle(&case, &obs, perturb);
            report.oracle_checks += v.checks;
            report.oracle_failures += v.fails.len() as u64;
            report.count(&format!("eof.{}", if v.fails.is_empty() { "pass" } else { "fail" }));
            if v.collapsed {
                report.count("eof.collapsed-start");
            }
            if v.complete && distinct.insert(case_hash(&case)) {
                report.distinct_nontrivial += 1;
            }
            if let Some(f) = v.fails.first() {
                if prop_sigs.len() < 10 && prop_sigs.insert(format!("eof|{}", f.0)) {
                    let mut rj = case.to_json();
                    rj["observed"] = json!({"kind": obs.kind, "span": obs.span, "panic": obs.panic_msg,
                        "display": obs.display.as_ref().map(|x| match x { Ok(s) => s.clone(), Err(p) => format!("PANIC {p}") })});
                    report.violation("property", format!("source {:?} (construct left open at the end of the source): {}: {}", src, f.0, f.1).chars().take(600).collect(), rj);
                }
            }
            let d0 = D::default();
            reqs.push(("lex-spans", lexwire::lex_request(false, &d0, src), lexwire::canon_tokens(src, &d0, false), i));
            reqs.push(("lex-spans-filtered", lexwire::lex_request(true, &d0, src), lexwire::canon_tokens(src, &d0, true), i));
            if let (Some(sp), Some(imp)) = (obs.span, report_answer_of(&obs)) {
                reqs.push(("report-line", report_request(src, &sp), imp, i));
            }
        }
        if driver_ok && !reqs.is_empty() {
            let lines: Vec<String> = reqs.iter().map(|r| r.1.clone()).collect();
            match driver::run_batch_parallel(&exe, &lines, threads) {
                Err(e) => {
                    report.notes.push(format!("model driver failed: {e}"));
                    report.violation("model-mismatch", format!("model driver could not be run: {e}"), json!({"stage": "driver", "error": e}));
                }
                Ok(answers) => {
                    for (r, ans) in reqs.iter().zip(answers.iter()) {
                        report.model_comparisons += 1;
                        report.count(&format!("model.{}", r.0));
                        let same = if r.0.starts_with("lex-spans") { lexwire::same_answer(ans, &r.2) } else { same_report_answer(ans, &r.2) };
                        if !same {
                            report.model_disagreements += 1;
                            report.count(&format!("model-disagree.{}", r.0));
                            if mismatch_reported < 5 {
                                mismatch_reported += 1;
                                // the list above is the whole neighbourhood of this case and the direct
                                // oracle ran on all of it: no further burst is possible
                                report.violation(
                                    "model-mismatch",
                                    format!("{}: model and implementation differ on the end-of-source case {:?}", r.0, srcs[r.3]),
                                    json!({"stage": r.0, "templates": [["t", srcs[r.3]]], "entry": "t", "context": base_context(),
                                           "fault": {"class": "eof-adversarial", "template": "t", "range": [0, srcs[r.3].len()], "token": [0, srcs[r.3].len()], "cover": "at-or-after", "expect": "syntax"},
                                           "expected": {"filename": "t", "call_sites_innermost_first": []}, "role": "entry",
                                           "request": r.1, "model": ans, "implementation": r.2}),
                                );
                            }
                        }
                    }
                }
            }
        }
    }

    // ---- special families: call chains 9-16 deep, faults at instruction index >= 65536 of a chunk
    {
        let mut specials: Vec<Special> = Vec::new();
        for (i, depth) in [9usize, 10, 12, 16].into_iter().enumerate() {
            for kind in 0..4u8 {
                specials.push(Special::Deep { kind, depth, caps: (i + kind as usize) % 2 == 0, fault: i + kind as usize });
            }
        }
        let mut srng = master.fork();
        for _ in 0..env.budget(40, 1500) {
            specials.push(Special::Deep { kind: srng.below(4) as u8, depth: 1 + srng.below(16), caps: srng.chance(1, 2), fault: srng.below(3) });
        }
        match instr_per_line() {
            None => report.notes.push("large-template cases skipped: instructions per line could not be measured".into()),
            Some(p) => {
                report.count_n("large.instructions-per-line", p as u64);
                let n0 = 65536 / p;
                for fault in 0..4u8 {
                    specials.push(Special::Large { chunk: 0, fault, lines: n0 + 2 });
                }
                for lines in [n0 - 2, n0 - 1, n0, n0 + 1, n0 + 3000] {
                    specials.push(Special::Large { chunk: 0, fault: 0, lines });
                }
                for fault in [0u8, 2] {
                    specials.push(Special::Large { chunk: 1, fault, lines: n0 + 2 });
                }
                for fault in [1u8, 3] {
                    specials.push(Special::Large { chunk: 2, fault, lines: n0 + 2 });
                }
                if !env.quick() {
                    for mult in [2usize, 3] {
                        for chunk in 0..3u8 {
                            for fault in 0..4u8 {
                                specials.push(Special::Large { chunk, fault, lines: mult * n0 + 2 + srng.below(50) });
                            }
                        }
                    }
                    for d in 0..8usize {
                        specials.push(Special::Large { chunk: (d % 3) as u8, fault: (d % 4) as u8, lines: n0 - 4 + d });
                    }
                }
            }
        }
        let idx: Vec<u64> = (0..specials.len() as u64).collect();
        let results: Vec<(Case, Obs, Verdict)> = par_map(&idx, threads, |i| {
            let c = special_case(&specials[i as usize]);
            let o = observe_case(&c);
            let v = oracle(&c, &o, perturb);
            (c, o, v)
        });
        let mut reqs: Vec<ModelReq> = Vec::new();
        for (i, (c, o, v)) in results.iter().enumerate() {
            report.evaluations += 1;
            report.oracle_checks += v.checks;
            report.oracle_failures += v.fails.len() as u64;
            report.count(&format!("role.{}", c.role));
            report.count(&format!("class.{}", c.class));
            let kind = if o.outcome == "err" { o.kind.clone() } else { o.outcome.to_string() };
            report.count(&format!("special.{}.{}", c.role, kind));
            if o.kind == "Rendering" {
                report.count(&format!("callsite.depth.{}", c.chain.len()));
                for cap in &c.chain_caps {
                    report.count(&format!("callsite.{}", if cap.is_empty() { "plain".to_string() } else { format!("in-capture.{cap}") }));
                }
            }
            if let Special::Large { lines, .. } = &specials[i] {
                report.count(&format!("large.lines.{lines}"));
            }
            if v.complete && distinct.insert(case_hash(c)) {
                report.distinct_nontrivial += 1;
            }
            if let Some(f) = v.fails.first() {
                report.count(&format!("oracle-fail.{}", f.0));
                if prop_sigs.len() < 14 && prop_sigs.insert(format!("special|{}|{}", c.role, f.0)) {
                    let small_sp = shrink_special(&specials[i], &f.0, perturb);
                    let small = special_case(&small_sp);
                    let so = observe_case(&small);
                    let sv = oracle(&small, &so, perturb);
                    let mut rj = small.to_json();
                    // a huge source is stored as (line, repetitions) would not replay: keep it whole
                    rj["family"] = json!(format!("{small_sp:?}"));
                    rj["observed"] = json!({"stage": so.stage, "outcome": so.outcome, "kind": so.kind, "filename": so.filename, "span": so.span, "panic": so.panic_msg,
                        "display": so.display.as_ref().map(|x| match x { Ok(s) => s.chars().take(3000).collect::<String>(), Err(p) => format!("PANIC {p}") })});
                    rj["oracle_failures"] = json!(sv.fails.iter().map(|f| format!("{}: {}", f.0, f.1)).collect::<Vec<_>>());
                    let first = sv.fails.first().unwrap_or(f);
                    report.violation("property", format!("{small_sp:?}: fault `{}` in `{}` under {} call sites: {}: {}", small.class, small.host, small.chain.len(), first.0, first.1).chars().take(600).collect(), rj);
                }
            }
            // model comparison: not for the huge sources (hex lines of > 1 MB)
            let d0 = D::default();
            for (n, s) in &c.templates {
                if s.len() <= 20_000 && (i % 4 == 0 || *n == c.host) {
                    reqs.push(ModelReq { stage: "lex-spans", req: lexwire::lex_request(false, &d0, s), imp: lexwire::canon_tokens(s, &d0, false), case: i, what: n.clone() });
                    reqs.push(ModelReq { stage: "lex-spans-filtered", req: lexwire::lex_request(true, &d0, s), imp: lexwire::canon_tokens(s, &d0, true), case: i, what: n.clone() });
                }
            }
            if let (Some(sp), Some(src)) = (o.span, c.src_of(&o.filename)) {
                if src.len() <= 20_000 {
                    if let Some(imp) = report_answer_of(o) {
                        reqs.push(ModelReq { stage: "report-line", req: report_request(src, &sp), imp, case: i, what: o.filename.clone() });
                    }
                }
            }
        }
        if driver_ok && !reqs.is_empty() {
            let lines: Vec<String> = reqs.iter().map(|r| r.req.clone()).collect();
            match driver::run_batch_parallel(&exe, &lines, threads) {
                Err(e) => {
                    report.notes.push(format!("model driver failed: {e}"));
                    report.violation("model-mismatch", format!("model driver could not be run: {e}"), json!({"stage": "driver", "error": e}));
                }
                Ok(answers) => {
                    for (r, ans) in reqs.iter().zip(answers.iter()) {
                        report.model_comparisons += 1;
                        report.count(&format!("model.{}", r.stage));
                        let same = if r.stage.starts_with("lex-spans") { lexwire::same_answer(ans, &r.imp) } else { same_report_answer(ans, &r.imp) };
                        if !same {
                            report.model_disagreements += 1;
                            report.count(&format!("model-disagree.{}", r.stage));
                            if mismatch_reported < 6 && results[r.case].2.fails.is_empty() {
                                mismatch_reported += 1;
                                // the family was run at every size of interest with the direct oracle:
                                // that is the burst for these cases
                                let mut rj = results[r.case].0.to_json();
                                rj["stage"] = json!(r.stage);
                                rj["source_of"] = json!(r.what);
                                rj["model"] = json!(ans.chars().take(4000).collect::<String>());
                                rj["implementation"] = json!(r.imp.chars().take(4000).collect::<String>());
                                report.violation("model-mismatch", format!("{}: model and implementation differ on `{}` of a {} case", r.stage, r.what, results[r.case].0.role), rj);
                            }
                        }
                    }
                }
            }
        }
    }

    // ---- which syntax-error sites of the lexer / parser did the planted faults reach
    match syntax_sites() {
        Err(e) => report.notes.push(format!("syntax-site coverage not measured: {e}")),
        Ok(sites) => {
            let missed: Vec<&String> = sites.iter().filter(|t| !syntax_messages.iter().any(|m| message_hits(t, m))).collect();
            report.count_n("syntax-site.total", sites.len() as u64);
            report.count_n("syntax-site.hit", (sites.len() - missed.len()) as u64);
            report.notes.push(format!(
                "syntax-error sites (distinct message templates of lexer.rs / parser.rs) reached by planted faults: {} of {}; not reached: {}",
                sites.len() - missed.len(),
                sites.len(),
                if missed.is_empty() { "none".to_string() } else { missed.iter().map(|m| format!("`{}`", template_parts(m).join("…"))).collect::<Vec<_>>().join("; ") }
            ));
        }
    }

    let pct = if planted > 0 { report_errors * 100 / planted } else { 0 };
    report.count_n("reached.planted", planted);
    report.count_n("reached.report-error", report_errors);
    report.count_n("reached.percent", pct);
    report.notes.push(format!("{report_errors} of {planted} planted faults ({pct} %) produced a report error (Syntax / Rendering kind, or the Msg-wrapped report of an unknown name) and went through the whole oracle"));
    if no_error > 0 {
        report.notes.push(format!("{no_error} planted faults registered and rendered without any error (see histogram `no-report-error.<class>.ok`); the property says nothing about them"));
    }
    if pct < 60 {
        report.notes.push("WARNING: fewer than 60 % of the planted faults reached the error-reporting code".into());
    }
    for e in invalid_examples {
        report.notes.push(format!("generator produced an invalid set (discarded): {e}"));
    }
    if perturb {
        report.notes.push("SELF-TEST RUN: the oracle's recomputation was deliberately perturbed (columns in bytes); violations are expected".into());
    }
    report.rule = "a case = (valid multi-template set built from the seeded generator, one planted fault); it is non-trivial when registering/rendering returned an error of kind SyntaxError / RenderingError (or the Msg-wrapped report of an unknown filter/test/function/component/include name) and every part of the direct oracle (kind, template name, range bounds and char boundaries, recomputed line/col, coverage rule of the class, display, call-site notes) was evaluated; distinct by hash of (all sources, host template, planted byte range); plus the end-of-source adversarial list".into();
    let _ = std::fs::remove_dir_all(file_base_dir());
    report.write(&out_path());
}
