//! C11 — cyclic or dangling template graphs are rejected; accepted graphs render finitely.
//!
//!  * every (extends function × include relation) over a small set of templates, edges placed at
//!    top level / inside a block / inside a component body, targets written exactly or through a
//!    fallback prefix: the real `add_raw_templates` result (acceptance, error kind, structured
//!    details, everything derived) vs the Lean model (`drv_c11`)            — correspondence
//!  * the same result vs an independent graph oracle written here (pointer chasing for `extends`,
//!    Kahn's algorithm for `include`)                                        — the property itself
//!  * every accepted set is rendered for real (in worker processes: a stack overflow or a hang is
//!    an observation, not a crash of the harness)
//!  * random larger graphs (tails, long cycles, shadowed names), chains of depth 32 rendered for real
//!  * the two known shapes F5a / F5b are exercised once each in a child process with a timeout
use std::collections::BTreeSet;
use std::io::{Read, Write};
use std::process::{Command, Stdio};
use std::time::{Duration, Instant};
use tera::Context;
use tera_verif_harness::report::{out_path, replay_path, Report, Violation};
use tera_verif_harness::rng::Rng;
use tera_verif_harness::tplgen::{self, add_all, canon_err, engine, err_class, real_derived, set_wire, BlockS, CompS, TplS};
use tera_verif_harness::{catch, driver, quiet_panics, Env};

#[derive(Clone, Debug, serde::Serialize, serde::Deserialize)]
struct Case {
    prefixes: Vec<String>,
    tpls: Vec<TplS>,
}

fn mix(seed: u64, a: u64, b: u64) -> u64 {
    let mut r = Rng::new(seed ^ a.wrapping_mul(0x9e3779b97f4a7c15) ^ b.wrapping_mul(0xc2b2ae3d27d4eb4f));
    r.next_u64()
}

const BASE: [&str; 6] = ["a", "b", "c", "d", "e", "f"];

/// names of the `n` templates and the prefixes for naming variant `variant`
fn naming(n: usize, variant: u64) -> (Vec<String>, Vec<String>) {
    match variant % 4 {
        // prefixes that do NOT end in `/`: a prefix is glued to the name as a string
        3 => (
            (0..n)
                .map(|i| match i % 3 {
                    0 => format!("theme-{}", BASE[i]),
                    1 => format!("themes/cool{}", BASE[i]),
                    _ => format!("{}.html", BASE[i]),
                })
                .collect(),
            vec!["theme-".to_string(), "themes/cool".to_string()],
        ),
        0 => ((0..n).map(|i| BASE[i].to_string()).collect(), vec![]),
        1 => (
            (0..n).map(|i| if i % 2 == 1 { format!("th/{}", BASE[i]) } else { format!("{}.html", BASE[i]) }).collect(),
            vec!["th/".to_string()],
        ),
        _ => (
            (0..n)
                .map(|i| match i % 3 {
                    0 => format!("alt/{}", BASE[i]),
                    1 => format!("th/{}", BASE[i]),
                    _ => BASE[i].to_string(),
                })
                .collect(),
            vec!["th/".to_string(), "alt/".to_string()],
        ),
    }
}

/// how a reference to template `name` is written: exactly, or without a fallback prefix
fn reference(name: &str, prefixes: &[String], choice: u64) -> String {
    for p in prefixes {
        if let Some(short) = name.strip_prefix(p.as_str()) {
            if choice % 2 == 0 {
                return short.to_string();
            }
        }
    }
    name.to_string()
}

/// Build the set for an extends function (`ext[i]`: 0 = none, 1..=n = template, n+1 = a name
/// that does not exist) and an include relation (`inc[i][j]`).
fn build(n: usize, ext: &[usize], inc: &[Vec<bool>], variant: u64, salt: u64) -> Case {
    let (names, prefixes) = naming(n, variant);
    let mut tpls = Vec::new();
    for i in 0..n {
        let mut t = TplS::new(&names[i]);
        t.parent = match ext[i] {
            0 => None,
            k if k <= n => Some(reference(&names[k - 1], &prefixes, mix(salt, i as u64, 1000 + k as u64))),
            _ => Some("nowhere".to_string()),
        };
        // every template has the block `k` (so a child's `k` is never an orphan) and one component
        let mut block = BlockS { name: "k".into(), ..Default::default() };
        let mut comp = CompS { name: format!("c_{}", tplgen::mark(&names[i])), includes: vec![] };
        for j in 0..n {
            if inc[i][j] {
                let r = reference(&names[j], &prefixes, mix(salt, i as u64, 2000 + j as u64));
                match mix(salt, i as u64, 3000 + j as u64) % 3 {
                    0 => t.top_includes.push(r),
                    1 => block.includes.push(r),
                    _ => comp.includes.push(r),
                }
            }
        }
        t.comp_calls.push(comp.name.clone());
        t.blocks.push(block);
        t.comps.push(comp);
        tpls.push(t);
    }
    Case { prefixes, tpls }
}

/// the `idx`-th set of the exhaustive enumeration over `n` templates
fn exhaustive_case(n: usize, idx: u64, seed: u64, max_edges: Option<u32>, edge_sets: &[u32]) -> Case {
    let base = (n + 2) as u64;
    let n_ext = base.pow(n as u32);
    let e = idx % n_ext;
    let r = idx / n_ext;
    let bits: u32 = if max_edges.is_some() { edge_sets[r as usize] } else { r as u32 };
    let mut ext = vec![0usize; n];
    let mut x = e;
    for slot in ext.iter_mut() {
        *slot = (x % base) as usize;
        x /= base;
    }
    let mut inc = vec![vec![false; n]; n];
    for i in 0..n {
        for j in 0..n {
            inc[i][j] = bits >> (i * n + j) & 1 == 1;
        }
    }
    build(n, &ext, &inc, mix(seed, idx, 7), mix(seed, idx, 11))
}

// ---------------------------------------------------------------- independent oracle

#[derive(Debug, Default)]
struct GraphFacts {
    dangling_extends: bool,
    dangling_include: bool,
    extends_cycle: bool,
    include_cycle: bool,
}

fn graph_facts(c: &Case) -> GraphFacts {
    let names: Vec<String> = c.tpls.iter().map(|t| t.name.clone()).collect();
    let idx = |n: &str| names.iter().position(|x| x == n).unwrap();
    let mut f = GraphFacts::default();
    // extends: a partial function; chase pointers
    let ext: Vec<Option<Option<usize>>> = c
        .tpls
        .iter()
        .map(|t| t.parent.as_ref().map(|p| tplgen::resolve(&names, &c.prefixes, p).map(idx)))
        .collect();
    for start in 0..names.len() {
        let mut cur = start;
        let mut steps = 0;
        loop {
            match ext[cur] {
                None => break,
                Some(None) => {
                    f.dangling_extends = true;
                    break;
                }
                Some(Some(nx)) => {
                    cur = nx;
                    steps += 1;
                    if steps > names.len() {
                        f.extends_cycle = true;
                        break;
                    }
                }
            }
        }
    }
    // include: Kahn's algorithm on the resolved edges
    let n = names.len();
    let mut adj = vec![BTreeSet::new(); n];
    for (i, t) in c.tpls.iter().enumerate() {
        for target in t.all_includes() {
            match tplgen::resolve(&names, &c.prefixes, &target) {
                Some(r) => {
                    adj[i].insert(idx(r));
                }
                None => f.dangling_include = true,
            }
        }
    }
    let mut indeg = vec![0usize; n];
    for a in &adj {
        for &j in a {
            indeg[j] += 1;
        }
    }
    let mut queue: Vec<usize> = (0..n).filter(|&i| indeg[i] == 0).collect();
    let mut removed = 0;
    while let Some(i) = queue.pop() {
        removed += 1;
        for &j in &adj[i] {
            indeg[j] -= 1;
            if indeg[j] == 0 {
                queue.push(j);
            }
        }
    }
    f.include_cycle = removed < n;
    f
}

/// The property on the implementation's answer. `Some(description)` = violated.
fn oracle(c: &Case, imp: &str) -> Option<String> {
    let f = graph_facts(c);
    let must_reject = f.dangling_extends || f.dangling_include || f.extends_cycle || f.include_cycle;
    if imp.starts_with("panic") || imp.starts_with("died") {
        return Some(format!("registration did not return Ok or Err: {imp}"));
    }
    if imp.starts_with("ok") {
        return must_reject.then(|| format!("accepted although {f:?}"));
    }
    if !must_reject {
        return Some(format!("rejected ({imp}) although every target exists and both graphs are acyclic"));
    }
    let ok = match err_class(imp) {
        "missingparent" => f.dangling_extends,
        "circularextend" => f.extends_cycle,
        "circularinclude" => f.include_cycle,
        "msg" => f.dangling_include,
        _ => false,
    };
    (!ok).then(|| format!("rejected with `{imp}` which does not correspond to the graph: {f:?}"))
}

// ---------------------------------------------------------------- implementation runs

/// "ok <derived dump>" | "err …" | "panic …"
fn register(c: &Case) -> (String, Option<tera::Tera>) {
    let r = catch(std::panic::AssertUnwindSafe(|| {
        let mut tera = engine(&c.prefixes);
        match add_all(&mut tera, &c.tpls) {
            Ok(()) => (format!("ok {}", real_derived(&tera).canon()), Some(tera)),
            Err(e) => (canon_err(&e), None),
        }
    }));
    match r {
        Ok(x) => x,
        Err(p) => (format!("panic {p}"), None),
    }
}

/// the same template without any edge (no `extends`, no include anywhere)
fn strip(t: &TplS) -> TplS {
    let mut p = t.clone();
    p.parent = None;
    p.top_includes.clear();
    for b in &mut p.blocks {
        b.includes.clear();
    }
    for c in &mut p.comps {
        c.includes.clear();
    }
    p.tag = "v0".into();
    p
}

/// History variant: register the set with template `x` stripped of its edges (one batch), then
/// re-register `x` with its real source on its own, so that whatever cycle or chain goes through
/// `x` is closed by a REPLACEMENT.  `None` when the first step is not accepted (not applicable);
/// otherwise the answer of the second call in the format of `register`.
fn register_two_step(c: &Case, x: usize) -> Option<String> {
    let r = catch(std::panic::AssertUnwindSafe(|| {
        let mut tera = engine(&c.prefixes);
        let mut first = c.tpls.clone();
        first[x] = strip(&c.tpls[x]);
        if add_all(&mut tera, &first).is_err() {
            return None;
        }
        Some(match tera.add_raw_template(&c.tpls[x].name, &c.tpls[x].source()) {
            Ok(()) => format!("ok {}", real_derived(&tera).canon()),
            Err(e) => canon_err(&e),
        })
    }));
    match r {
        Ok(x) => x,
        Err(p) => Some(format!("panic {p}")),
    }
}

/// two answers agree as far as the property goes: both accept with the same derived data, or both
/// reject with the same error kind (the chains reported inside the error are not compared)
fn same_answer(a: &str, b: &str) -> bool {
    if a.starts_with("ok") || b.starts_with("ok") {
        a == b
    } else {
        err_class(a) == err_class(b) && !a.starts_with("panic") && !b.starts_with("panic")
    }
}

/// "same" | "na" | "diff <answer of the second call>"
fn history_check(c: &Case, x: usize, imp: &str) -> String {
    match register_two_step(c, x) {
        None => "na".into(),
        Some(r) if same_answer(&r, imp) => "same".into(),
        Some(r) => format!("diff {r}"),
    }
}

/// History variant for accepted sets: a REJECTED batch that names a resident template twice (first
/// occurrence closing an include cycle or dangling, second occurrence valid) next to an item that
/// makes the batch fail; afterwards the resident set must be what it was, so a further valid add
/// must be answered exactly as by a fresh instance given (set + that template) in one batch.
/// "na" | "same" | "diff <description>"
fn dup_batch_check(c: &Case, imp: &str) -> String {
    if !imp.starts_with("ok") || c.tpls.is_empty() {
        return "na".into();
    }
    let r = catch(std::panic::AssertUnwindSafe(|| {
        let mut out = "same".to_string();
        for variant in 0..2 {
            let mut tera = engine(&c.prefixes);
            if add_all(&mut tera, &c.tpls).is_err() {
                return "na".to_string();
            }
            let n = &c.tpls[c.tpls.len() / 2];
            let mut first = n.clone();
            first.tag = "d1".into();
            if variant == 0 {
                first.top_includes.push(n.name.clone());
            } else {
                first.parent = Some("nowhere_dup".into());
            }
            let mut second = n.clone();
            second.tag = "d2".into();
            let mut bad = TplS::new("zz_bad");
            bad.parent = Some("nowhere_at_all".into());
            let batch = vec![first, second, bad];
            if tera.add_raw_templates(batch.iter().map(|t| (t.name.clone(), t.source())).collect::<Vec<_>>()).is_ok() {
                return "diff the batch with a dangling parent was accepted".to_string();
            }
            let ok_tpl = TplS::new("zz_ok");
            let a2 = match tera.add_raw_template(&ok_tpl.name, &ok_tpl.source()) {
                Ok(()) => format!("ok {}", real_derived(&tera).canon()),
                Err(e) => canon_err(&e),
            };
            let mut with = c.clone();
            with.tpls.push(ok_tpl);
            let (e2, _) = register(&with);
            if !same_answer(&a2, &e2) {
                out = format!("diff the resident set is no longer the accepted one: after a rejected batch naming `{}` twice ({}), adding the plain template `zz_ok` answers `{}` but a fresh instance given the same set answers `{}`", n.name, if variant == 0 { "first occurrence self-including" } else { "first occurrence with a dangling parent" }, a2.chars().take(120).collect::<String>(), e2.chars().take(120).collect::<String>());
                break;
            }
        }
        out
    }));
    r.unwrap_or_else(|p| format!("diff panic {p}"))
}

/// The same set LOADED FROM FILES (`add_template_files` with explicit names; the sources are written
/// under std::env::temp_dir()/tera_verif_c11_<pid>/ and removed afterwards) must be answered as by
/// `add_raw_templates`: accepted with the same derived data, or rejected with the same error kind.
/// "same" | "diff <description>"
fn file_check(c: &Case, imp: &str) -> String {
    let r = catch(std::panic::AssertUnwindSafe(|| {
        let dir = std::env::temp_dir().join(format!("tera_verif_c11_{}", std::process::id()));
        let _ = std::fs::create_dir_all(&dir);
        // (listed in REVERSE order: whatever extends or includes comes before what it refers to)
        let files: Vec<(std::path::PathBuf, Option<String>)> = c
            .tpls
            .iter()
            .rev()
            .enumerate()
            .map(|(i, t)| {
                let path = dir.join(format!("t{i}.tpl"));
                std::fs::write(&path, t.source()).expect("write template file");
                (path, Some(t.name.clone()))
            })
            .collect();
        let mut tera = engine(&c.prefixes);
        let ans = match tera.add_template_files(files.clone()) {
            Ok(()) => format!("ok {}", real_derived(&tera).canon()),
            Err(e) => canon_err(&e),
        };
        for (p, _) in &files {
            let _ = std::fs::remove_file(p);
        }
        let _ = std::fs::remove_dir(&dir);
        ans
    }));
    match r {
        Ok(ans) if same_answer(&ans, imp) => "same".into(),
        Ok(ans) => format!(
            "diff the set loaded from files with add_template_files is answered `{}` but add_raw_templates of the same (name, source) pairs answers `{}`: a cyclic or dangling set must be rejected with the corresponding error whatever call registers it",
            ans.chars().take(140).collect::<String>(),
            imp.chars().take(140).collect::<String>()
        ),
        Err(p) => format!("diff add_template_files panicked: {p}"),
    }
}

/// For an accepted set registered under fallback prefixes: a LATE `set_fallback_prefixes` call
/// (templates already added) must be refused and change nothing: derived data, `contains_template`
/// of every name and written reference, every render, and the answer to a further plain add.
/// "na" | "same" | "diff <description>"
fn late_prefix_check(c: &Case, imp: &str, renderable: bool) -> String {
    if !imp.starts_with("ok") || c.prefixes.is_empty() {
        return "na".into();
    }
    let r = catch(std::panic::AssertUnwindSafe(|| {
        let mut probes: Vec<String> = c.tpls.iter().map(|t| t.name.clone()).collect();
        for t in &c.tpls {
            probes.extend(t.all_includes());
            probes.extend(t.parent.clone());
        }
        probes.sort();
        probes.dedup();
        for late in [vec![], vec!["zz/".to_string()], c.prefixes.iter().rev().cloned().collect::<Vec<_>>()] {
            if late == c.prefixes {
                continue;
            }
            let mut tera = engine(&c.prefixes);
            if add_all(&mut tera, &c.tpls).is_err() {
                return "na".to_string();
            }
            let observe = |t: &tera::Tera| -> (String, Vec<bool>, String) {
                (real_derived(t).canon(), probes.iter().map(|p| t.contains_template(p)).collect(), if renderable { render_texts(t, c) } else { String::new() })
            };
            let before = observe(&tera);
            if tera.set_fallback_prefixes(late.clone()).is_ok() {
                return format!("diff set_fallback_prefixes({late:?}) was accepted although templates are registered");
            }
            let after = observe(&tera);
            if before != after {
                let what = if before.0 != after.0 { "the derived data" } else if before.1 != after.1 { "what contains_template answers" } else { "what the templates render" };
                return format!(
                    "diff a REFUSED late set_fallback_prefixes({late:?}) (prefixes {:?}) changed {what}: contains_template {:?} -> {:?}; renders `{}` -> `{}`",
                    c.prefixes,
                    probes.iter().zip(&before.1).collect::<Vec<_>>(),
                    after.1,
                    before.2.chars().take(120).collect::<String>(),
                    after.2.chars().take(120).collect::<String>()
                );
            }
            let ok_tpl = TplS::new("zz_ok");
            let a2 = match tera.add_raw_template(&ok_tpl.name, &ok_tpl.source()) {
                Ok(()) => format!("ok {}", real_derived(&tera).canon()),
                Err(e) => canon_err(&e),
            };
            let mut with = c.clone();
            with.tpls.push(ok_tpl);
            let (e2, _) = register(&with);
            if !same_answer(&a2, &e2) {
                return format!(
                    "diff after a REFUSED late set_fallback_prefixes({late:?}) (prefixes {:?}) adding the plain template `zz_ok` answers `{}` but a fresh instance given the same set answers `{}`: the refused call must not change how names resolve",
                    c.prefixes,
                    a2.chars().take(120).collect::<String>(),
                    e2.chars().take(120).collect::<String>()
                );
            }
        }
        "same".to_string()
    }));
    r.unwrap_or_else(|p| format!("diff panic {p}"))
}

/// `set_fallback_prefixes` called several times BEFORE the first template is added: the last call
/// decides (a replaced or cleared prefix no longer resolves anything).  The set is registered on an
/// instance configured with `first` then `last`, and must be answered as on an instance configured
/// with `last` only.  "na" | "same" | "diff <description>"
fn prefix_replace_check(c: &Case) -> String {
    if c.prefixes.is_empty() {
        return "na".into();
    }
    let r = catch(std::panic::AssertUnwindSafe(|| {
        let mut plans: Vec<(Vec<String>, Vec<String>)> = vec![(c.prefixes.clone(), vec![])];
        if c.prefixes.len() > 1 {
            plans.push((c.prefixes.clone(), c.prefixes.iter().rev().cloned().collect()));
            plans.push((c.prefixes.clone(), vec![c.prefixes[1].clone()]));
        }
        for (first, last) in plans {
            let mut tera = tera::Tera::default();
            let _ = tera.set_fallback_prefixes(first.clone());
            let _ = tera.set_fallback_prefixes(last.clone());
            let got = match add_all(&mut tera, &c.tpls) {
                Ok(()) => format!("ok {}", real_derived(&tera).canon()),
                Err(e) => canon_err(&e),
            };
            let (want, _) = register(&Case { prefixes: last.clone(), tpls: c.tpls.clone() });
            if !same_answer(&got, &want) {
                return format!(
                    "diff set_fallback_prefixes({first:?}) then set_fallback_prefixes({last:?}) before any template: the set is answered `{}`, but with set_fallback_prefixes({last:?}) alone `{}` — a replaced prefix list must no longer resolve anything",
                    got.chars().take(120).collect::<String>(),
                    want.chars().take(120).collect::<String>()
                );
            }
        }
        "same".to_string()
    }));
    r.unwrap_or_else(|p| format!("diff panic {p}"))
}

/// text (or error class) every template renders, for before / after comparisons
fn render_texts(tera: &tera::Tera, c: &Case) -> String {
    c.tpls
        .iter()
        .map(|t| match catch(std::panic::AssertUnwindSafe(|| tera.render(&t.name, &Context::new()))) {
            Ok(Ok(s)) => format!("ok:{s}"),
            Ok(Err(e)) => format!("err:{}", err_class(&canon_err(&e))),
            Err(_) => "panic".to_string(),
        })
        .collect::<Vec<_>>()
        .join("|")
}

/// the history / other-API variants of a set, first difference wins: "na" | "same" | "diff …"
fn extra_checks(c: &Case, imp: &str, with_files: bool, renderable: bool) -> String {
    let mut results = vec![dup_batch_check(c, imp), late_prefix_check(c, imp, renderable)];
    if with_files {
        results.push(file_check(c, imp));
        results.push(prefix_replace_check(c));
    }
    if let Some(d) = results.iter().find(|r| r.starts_with("diff")) {
        return d.clone();
    }
    if results.iter().any(|r| r == "same") { "same".into() } else { "na".into() }
}

/// a ring of `n` templates (include or extends edges i -> i+1 -> … -> 0), entered from a tail of
/// `tail` further templates
fn ring_case(extends: bool, n: usize, tail: usize) -> Case {
    let total = n + tail;
    let name = |i: usize| format!("r{i}");
    let mut tpls = Vec::new();
    for i in 0..total {
        let mut t = TplS::new(&name(i));
        // tail: n+tail-1 -> … -> n -> 0 ; ring: i -> i+1, n-1 -> 0
        let target = if i >= n { if i == n { 0 } else { i - 1 } } else { (i + 1) % n };
        let mut block = BlockS { name: "k".into(), ..Default::default() };
        let mut comp = CompS { name: format!("c_{}", name(i)), includes: vec![] };
        if extends {
            t.parent = Some(name(target));
        } else {
            match i % 3 {
                0 => t.top_includes.push(name(target)),
                1 => block.includes.push(name(target)),
                _ => comp.includes.push(name(target)),
            }
        }
        t.blocks.push(block);
        t.comps.push(comp);
        tpls.push(t);
    }
    Case { prefixes: vec![], tpls }
}

/// "ok" | "err" | "panic" per template
fn render_all(tera: &tera::Tera, c: &Case) -> String {
    let mut out = Vec::new();
    for t in &c.tpls {
        let r = catch(std::panic::AssertUnwindSafe(|| tera.render(&t.name, &Context::new())));
        out.push(match r {
            Ok(Ok(_)) => "ok",
            Ok(Err(_)) => "err",
            Err(_) => "panic",
        });
    }
    out.join(",")
}

fn edge_sets(n: usize, max_edges: u32) -> Vec<u32> {
    (0u32..(1u32 << (n * n))).filter(|b| b.count_ones() <= max_edges).collect()
}

struct Plan {
    n: usize,
    max_edges: Option<u32>,
    total: u64,
    sets: Vec<u32>,
}

fn plan(quick: bool) -> Plan {
    if quick {
        Plan { n: 3, max_edges: None, total: 5u64.pow(3) * 512, sets: vec![] }
    } else {
        let sets = edge_sets(4, 5);
        Plan { n: 4, max_edges: Some(5), total: 6u64.pow(4) * sets.len() as u64, sets }
    }
}

/// The random stream: seeded random graphs followed by long rings, produced one at a time (the
/// thorough stream is too large to hold; workers and the parent regenerate what they need).
struct RandomGen {
    quick: bool,
    seed: u64,
    rng: Rng,
    /// index of the random graph `rng` produces next
    next: u64,
    n_random: u64,
    /// (extends?, ring size, tail)
    rings: Vec<(bool, usize, usize)>,
}

impl RandomGen {
    fn new(quick: bool, seed: u64) -> Self {
        let n_random = if quick { 6000 } else { 600_000 };
        // long rings (beyond any fixed depth someone might cut a walk at), alone and entered from a tail
        let mut ring_sizes: Vec<usize> = vec![65, 100, 129];
        if !quick {
            let mut r = Rng::new(seed ^ 0x5151_5151);
            for _ in 0..12 {
                ring_sizes.push(66 + r.below(260));
            }
        }
        let mut rings = Vec::new();
        for &n in &ring_sizes {
            for extends in [false, true] {
                rings.push((extends, n, 0));
                rings.push((extends, n, 3));
            }
        }
        RandomGen { quick, seed, rng: Rng::new(seed), next: 0, n_random, rings }
    }
    fn total(&self) -> u64 {
        self.n_random + self.rings.len() as u64
    }
    /// the `idx`-th set of the stream (cheapest when asked in increasing order)
    fn get(&mut self, idx: u64) -> Case {
        if idx >= self.n_random {
            let (e, n, t) = self.rings[(idx - self.n_random) as usize];
            return ring_case(e, n, t);
        }
        if idx < self.next {
            *self = RandomGen::new(self.quick, self.seed);
        }
        loop {
            let c = random_case(&mut self.rng);
            self.next += 1;
            if self.next == idx + 1 {
                return c;
            }
        }
    }
}

/// ends the worker when one set takes longer than `secs` (a hang is an observation about that set)
fn start_watchdog(progress: std::sync::Arc<std::sync::atomic::AtomicU64>, secs: u64) {
    std::thread::spawn(move || {
        let t0 = Instant::now();
        loop {
            std::thread::sleep(Duration::from_millis(200));
            let last = progress.load(std::sync::atomic::Ordering::Relaxed);
            if t0.elapsed().as_millis() as u64 > last + secs * 1000 {
                std::process::exit(3);
            }
        }
    });
}

/// worker for a stream ("exh": the exhaustive enumeration, "rnd": the random stream): handles the
/// indices `start, start + stride, …`.  Everything that touches the engine happens here, never in
/// the parent.  Before each stage it announces `at <idx> <stage>` so that a stack overflow, abort
/// or hang names its culprit; one line per finished set:
/// `idx \t registration \t renders \t history`.
fn child_stream(kind: &str, quick: bool, seed: u64, start: u64, stride: u64, hi: u64) {
    let p = plan(quick);
    let mut rgen = RandomGen::new(quick, seed);
    let total = (if kind == "rnd" { rgen.total() } else { p.total }).min(hi);
    let progress = std::sync::Arc::new(std::sync::atomic::AtomicU64::new(0));
    start_watchdog(progress.clone(), 20);
    let t0 = Instant::now();
    let stdout = std::io::stdout();
    let mut w = std::io::BufWriter::new(stdout.lock());
    let mut idx = start;
    while idx < total {
        progress.store(t0.elapsed().as_millis() as u64, std::sync::atomic::Ordering::Relaxed);
        let c = if kind == "rnd" { rgen.get(idx) } else { exhaustive_case(p.n, idx, seed, p.max_edges, &p.sets) };
        writeln!(w, "at {idx} reg").unwrap();
        w.flush().unwrap();
        let (imp, tera) = register(&c);
        writeln!(w, "at {idx} render").unwrap();
        w.flush().unwrap();
        // the exhaustive sets are rendered whenever they are accepted; the larger random ones only
        // when the independent oracle agrees they are acyclic (anything else that got accepted is
        // reported by the parent from the registration answer)
        let renders = match tera {
            Some(t) if kind == "exh" || oracle(&c, &imp).is_none() => render_all(&t, &c),
            _ => String::new(),
        };
        writeln!(w, "at {idx} hist").unwrap();
        w.flush().unwrap();
        // the same set reached through a replacement of one template
        let hist = if kind == "exh" {
            history_check(&c, (idx % p.n as u64) as usize, &imp)
        } else {
            let n = c.tpls.len();
            let mut hist = history_check(&c, n / 2, &imp);
            if !hist.starts_with("diff") && n > 1 {
                let h2 = history_check(&c, n - 1, &imp);
                if h2.starts_with("diff") || hist == "na" {
                    hist = format!("{h2}\u{1}{}", n - 1);
                }
            }
            hist
        };
        writeln!(w, "at {idx} dup").unwrap();
        w.flush().unwrap();
        // (the file-based registration for every random set and a sample of the exhaustive ones)
        let renderable = kind == "exh" || oracle(&c, &imp).is_none();
        let dup = extra_checks(&c, &imp, kind == "rnd" || idx % 16 == 0, renderable);
        writeln!(w, "{idx}\t{imp}\t{renders}\t{hist}\u{2}{dup}").unwrap();
        idx += stride;
    }
    w.flush().unwrap();
}

/// worker: registers the set of a JSON file (optionally through the two-step history) and prints
/// the answer
fn child_reg(path: &str, two_step: Option<usize>) {
    let c: Case = serde_json::from_str(&std::fs::read_to_string(path).expect("case file")).expect("case json");
    let progress = std::sync::Arc::new(std::sync::atomic::AtomicU64::new(0));
    start_watchdog(progress, 20);
    if two_step == Some(usize::MAX) {
        let (imp, _) = register(&c);
        println!("{}", extra_checks(&c, &imp, true, oracle(&c, &imp).is_none()));
        return;
    }
    match two_step {
        None => println!("{}", register(&c).0),
        Some(x) => println!("{}", register_two_step(&c, x).unwrap_or_else(|| "na".into())),
    }
}

/// the one-off entry points (`render_str`, `render_str_to`, `Tera::one_off`): (label, include target
/// exists?, source)
fn oneoff_sources() -> Vec<(String, bool, String)> {
    let mut v = Vec::new();
    for (target, exists) in [("nav", true), ("th_only", true), ("nosuch", false), ("./nav", false), ("NAV", false)] {
        let inc = format!("{{% include \"{target}\" %}}");
        for (place, src) in [
            ("live", format!("a{inc}b")),
            ("untaken-if", format!("a{{% if false %}}{inc}{{% endif %}}b")),
            ("untaken-else", format!("a{{% if true %}}x{{% else %}}{inc}{{% endif %}}b")),
            ("empty-loop", format!("a{{% for i in [] %}}{inc}{{% endfor %}}b")),
            ("uncalled-component", format!("a{{% component zz() %}}{inc}{{% endcomponent zz %}}b")),
            ("filter-section-in-untaken-if", format!("a{{% if false %}}{{% filter upper %}}{inc}{{% endfilter %}}{{% endif %}}b")),
        ] {
            v.push((format!("{place} include \"{target}\""), exists, src));
        }
    }
    v
}

/// worker: every one-off source through every one-off entry point; one line per call:
/// `label \t entry point \t ok | err <class> | panic`
fn child_oneoff() {
    let progress = std::sync::Arc::new(std::sync::atomic::AtomicU64::new(0));
    start_watchdog(progress, 20);
    // an instance that holds `nav` and, under a fallback prefix, `th/th_only`
    let mut tera = engine(&["th/".to_string()]);
    tera.add_raw_templates(vec![("nav", "N"), ("th/th_only", "T")]).expect("resident templates");
    let class = |r: Result<Result<String, tera::Error>, String>| match r {
        Ok(Ok(_)) => "ok".to_string(),
        Ok(Err(e)) => canon_err(&e),
        Err(_) => "panic".to_string(),
    };
    for (label, _, src) in oneoff_sources() {
        let r1 = class(catch(std::panic::AssertUnwindSafe(|| tera.render_str(&src, &Context::new(), false))));
        println!("{label}\trender_str on an instance holding the target\t{r1}");
        let r2 = class(catch(std::panic::AssertUnwindSafe(|| {
            let mut buf: Vec<u8> = Vec::new();
            tera.render_str_to(&src, &Context::new(), true, &mut buf).map(|()| String::from_utf8_lossy(&buf).to_string())
        })));
        println!("{label}\trender_str_to on an instance holding the target\t{r2}");
        let r3 = class(catch(std::panic::AssertUnwindSafe(|| tera::Tera::one_off(&src, &Context::new(), false))));
        println!("{label}\tTera::one_off (no template registered)\t{r3}");
        // the same source registered: add_raw_template must agree with render_str on the instance
        let r4 = class(catch(std::panic::AssertUnwindSafe(|| {
            let mut t2 = engine(&["th/".to_string()]);
            t2.add_raw_templates(vec![("nav", "N"), ("th/th_only", "T")])?;
            t2.add_raw_template("one", &src).map(|()| String::new())
        })));
        println!("{label}\tadd_raw_template\t{r4}");
    }
}

/// Boundary names and failing include targets for the one-off entry points and the registration
/// route: (label, resident templates, source, expected answer prefix of every entry point)
fn oneoff2_sources() -> Vec<(String, Vec<(String, String)>, String, String)> {
    let mut v = Vec::new();
    let nav = vec![("nav".to_string(), "N".to_string())];
    // blank names: a template named "" or " " does not exist, so extending / including it is a
    // dangling reference like any other
    for blank in ["", " ", "  ", "\t"] {
        v.push((format!("extends blank name {blank:?}"), nav.clone(), format!("{{% extends \"{blank}\" %}}{{% block b %}}x{{% endblock %}}"), "err".to_string()));
        v.push((format!("include blank name {blank:?}"), nav.clone(), format!("a{{% include \"{blank}\" %}}b"), "err".to_string()));
        v.push((format!("untaken include blank name {blank:?}"), nav.clone(), format!("a{{% if false %}}{{% include \"{blank}\" %}}{{% endif %}}b"), "err".to_string()));
    }
    // … and when a template of that very name IS registered, the reference resolves to it
    for blank in [" ", "  "] {
        let res = vec![(blank.to_string(), "P{% block b %}p{% endblock %}".to_string())];
        v.push((format!("extends registered blank name {blank:?}"), res.clone(), format!("{{% extends \"{blank}\" %}}{{% block b %}}c{{% endblock %}}"), "ok Pc".to_string()));
        v.push((format!("include registered blank name {blank:?}"), res.clone(), format!("a{{% include \"{blank}\" %}}b"), "ok aPpb".to_string()));
    }
    // include targets that exist but fail while they render: the caller gets an error
    let boom = vec![
        ("boom".to_string(), "x{{ nosuchvar.field }}y".to_string()),
        ("boom_outer".to_string(), "o{% include \"boom\" %}".to_string()),
        ("th/boom_th".to_string(), "{{ nosuchvar.field }}".to_string()),
    ];
    for target in ["boom", "boom_outer", "boom_th"] {
        let inc = format!("{{% include \"{target}\" %}}");
        for (place, src) in [
            ("top level", format!("a{inc}b")),
            ("filter section", format!("a{{% filter upper %}}{inc}{{% endfilter %}}b")),
            ("set block", format!("{{% set x %}}{inc}{{% endset %}}{{{{ x }}}}")),
            ("loop", format!("{{% for i in [1, 2] %}}{inc}{{% endfor %}}")),
        ] {
            v.push((format!("include of failing template \"{target}\" in a {place}"), boom.clone(), src, "err".to_string()));
        }
    }
    v
}

/// worker: one line per (source, entry point): `index \t entry point \t answer`
fn child_oneoff2() {
    let progress = std::sync::Arc::new(std::sync::atomic::AtomicU64::new(0));
    start_watchdog(progress, 20);
    let class = |r: Result<Result<String, tera::Error>, String>| match r {
        Ok(Ok(s)) => format!("ok {s}"),
        Ok(Err(e)) => canon_err(&e),
        Err(_) => "panic".to_string(),
    };
    for (i, (_, resident, src, _)) in oneoff2_sources().iter().enumerate() {
        let mk = || {
            let mut t = engine(&["th/".to_string()]);
            t.add_raw_templates(resident.iter().map(|(n, s)| (n.as_str(), s.as_str())).collect::<Vec<_>>()).map(|()| t)
        };
        let tera = match catch(std::panic::AssertUnwindSafe(mk)) {
            Ok(Ok(t)) => t,
            Ok(Err(e)) => {
                println!("{i}\tresident templates\t{}", canon_err(&e));
                continue;
            }
            Err(_) => {
                println!("{i}\tresident templates\tpanic");
                continue;
            }
        };
        let r1 = class(catch(std::panic::AssertUnwindSafe(|| tera.render_str(src, &Context::new(), false))));
        println!("{i}\trender_str\t{}", r1.replace(['\n', '\t'], " "));
        let r2 = class(catch(std::panic::AssertUnwindSafe(|| {
            let mut buf: Vec<u8> = Vec::new();
            tera.render_str_to(src, &Context::new(), false, &mut buf).map(|()| String::from_utf8_lossy(&buf).to_string())
        })));
        println!("{i}\trender_str_to\t{}", r2.replace(['\n', '\t'], " "));
        let r3 = class(catch(std::panic::AssertUnwindSafe(|| {
            let mut t2 = mk()?;
            t2.add_raw_template("one", src)?;
            t2.render("one", &Context::new())
        })));
        println!("{i}\tadd_raw_template + render\t{}", r3.replace(['\n', '\t'], " "));
    }
}

/// worker: registers the set of a JSON file and renders one template; prints one line
fn child_render(path: &str, name: &str) {
    let c: Case = serde_json::from_str(&std::fs::read_to_string(path).expect("case file")).expect("case json");
    let (imp, tera) = register(&c);
    match tera {
        None => println!("rejected {imp}"),
        Some(t) => {
            // a thread with the stack size real users have for request handlers (2 MiB)
            let name = name.to_string();
            let h = std::thread::Builder::new().stack_size(2 << 20).spawn(move || {
                match catch(std::panic::AssertUnwindSafe(|| t.render(&name, &Context::new()))) {
                    Ok(Ok(s)) => format!("ok {s}"),
                    Ok(Err(e)) => format!("rendererr {}", canon_err(&e)),
                    Err(p) => format!("panic {p}"),
                }
            });
            println!("{}", h.unwrap().join().unwrap_or_else(|_| "panic thread".into()));
        }
    }
}

/// run this binary as a child with a deadline: (exit ok, stdout)
fn run_child(args: &[String], timeout: Duration) -> (String, String) {
    let exe = std::env::current_exe().expect("own path");
    let mut child = Command::new(exe)
        .args(args)
        .stdin(Stdio::null())
        .stdout(Stdio::piped())
        .stderr(Stdio::null())
        .spawn()
        .expect("spawn child");
    let mut stdout = child.stdout.take().unwrap();
    let reader = std::thread::spawn(move || {
        let mut s = String::new();
        let _ = stdout.read_to_string(&mut s);
        s
    });
    let t0 = Instant::now();
    let status = loop {
        match child.try_wait() {
            Ok(Some(st)) => break if st.success() { "exit0".to_string() } else { format!("died {st}") },
            Ok(None) => {
                if t0.elapsed() > timeout {
                    let _ = child.kill();
                    let _ = child.wait();
                    break "timeout".to_string();
                }
                std::thread::sleep(Duration::from_millis(5));
            }
            Err(e) => break format!("wait failed {e}"),
        }
    };
    (status, reader.join().unwrap_or_default())
}

fn render_in_child(c: &Case, name: &str, tag: &str, timeout: Duration) -> (String, String) {
    let dir = std::env::temp_dir().join(format!("c11-{}", std::process::id()));
    let _ = std::fs::create_dir_all(&dir);
    let path = dir.join(format!("{tag}.json"));
    std::fs::write(&path, serde_json::to_string(c).unwrap()).unwrap();
    let r = run_child(
        &["--child".into(), "render".into(), path.to_string_lossy().to_string(), name.to_string()],
        timeout,
    );
    let _ = std::fs::remove_file(&path);
    let _ = std::fs::remove_dir(&dir);
    r
}

fn write_case(c: &Case, tag: &str) -> std::path::PathBuf {
    let dir = std::env::temp_dir().join(format!("c11-{}", std::process::id()));
    let _ = std::fs::create_dir_all(&dir);
    let path = dir.join(format!("{tag}-{:?}.json", std::thread::current().id()).replace(['(', ')'], ""));
    std::fs::write(&path, serde_json::to_string(c).unwrap()).unwrap();
    path
}

/// Registration in a child process (the parent never calls the engine): the answer in the format
/// of `register`, or `died <status>` when the engine aborted, overflowed the stack or hung.
fn safe_register(c: &Case) -> String {
    let path = write_case(c, "reg");
    let (status, out) = run_child(&["--child".into(), "reg".into(), path.to_string_lossy().to_string()], Duration::from_secs(40));
    let _ = std::fs::remove_file(&path);
    if status == "exit0" {
        out.trim().to_string()
    } else if status.contains("exit status: 3") {
        "died: no answer within the 20 s watchdog of the worker".to_string()
    } else {
        format!("died {status}")
    }
}

/// `register_two_step` in a child process; `None` = first step not accepted
fn safe_two_step(c: &Case, x: usize) -> Option<String> {
    let path = write_case(c, "reg2");
    let (status, out) = run_child(&["--child".into(), "reg2".into(), path.to_string_lossy().to_string(), x.to_string()], Duration::from_secs(40));
    let _ = std::fs::remove_file(&path);
    if status != "exit0" {
        return Some(format!("died {status}"));
    }
    let o = out.trim().to_string();
    if o == "na" { None } else { Some(o) }
}

/// `dup_batch_check` in a child process
fn safe_dup(c: &Case) -> String {
    let path = write_case(c, "dup");
    let (status, out) = run_child(&["--child".into(), "dup".into(), path.to_string_lossy().to_string()], Duration::from_secs(40));
    let _ = std::fs::remove_file(&path);
    if status == "exit0" { out.trim().to_string() } else { format!("diff died {status}") }
}

fn safe_history_check(c: &Case, x: usize, imp: &str) -> String {
    match safe_two_step(c, x) {
        None => "na".into(),
        Some(r) if same_answer(&r, imp) => "same".into(),
        Some(r) => format!("diff {r}"),
    }
}

#[derive(Default)]
struct StreamOut {
    /// (idx, registration, renders, history)
    rows: Vec<(u64, String, String, String)>,
    /// (idx, stage, worker status)
    culprits: Vec<(u64, String, String)>,
    /// indices never run because a worker was given up on, or ended without naming a set
    notes: Vec<String>,
}

/// Run a stream in `threads` worker processes; a worker that dies is restarted after its culprit.
fn run_stream(kind: &str, quick: bool, seed: u64, threads: usize, lo: u64, hi: u64) -> StreamOut {
    let per_worker: Vec<StreamOut> = std::thread::scope(|s| {
        let hs: Vec<_> = (0..threads)
            .map(|k| {
                s.spawn(move || {
                    let mut out = StreamOut::default();
                    let mut start = lo + k as u64;
                    while start < hi {
                        let a: Vec<String> = vec![
                            "--child".into(),
                            kind.to_string(),
                            if quick { "quick".into() } else { "thorough".into() },
                            seed.to_string(),
                            start.to_string(),
                            threads.to_string(),
                            hi.to_string(),
                        ];
                        let (status, text) = run_child(&a, Duration::from_secs(if quick { 240 } else { 3000 }));
                        let mut last_at: Option<(u64, String)> = None;
                        for line in text.lines() {
                            if let Some(rest) = line.strip_prefix("at ") {
                                let mut it = rest.splitn(2, ' ');
                                let i = it.next().and_then(|x| x.parse().ok());
                                last_at = i.map(|i| (i, it.next().unwrap_or("reg").to_string()));
                                continue;
                            }
                            let mut it = line.splitn(4, '\t');
                            let Some(idx) = it.next().and_then(|x| x.parse::<u64>().ok()) else { continue };
                            let imp = it.next().unwrap_or("").to_string();
                            let renders = it.next().unwrap_or("").to_string();
                            let hist = it.next().unwrap_or("na").to_string();
                            if last_at.as_ref().map(|l| l.0) == Some(idx) {
                                last_at = None;
                            }
                            out.rows.push((idx, imp, renders, hist));
                        }
                        if status == "exit0" {
                            break;
                        }
                        match last_at {
                            Some((idx, stage)) => {
                                let st = if status.contains("exit status: 3") { "timeout (no answer within 20 s)".to_string() } else { status.clone() };
                                out.culprits.push((idx, stage, st));
                                if out.culprits.len() >= 6 {
                                    out.notes.push(format!("{kind} worker {k}: given up after 6 culprits, sets from #{} on (stride {threads}) were not run", idx + threads as u64));
                                    break;
                                }
                                start = idx + threads as u64;
                            }
                            None => {
                                out.notes.push(format!("{kind} worker {k} ended abnormally ({status}) without naming a set"));
                                break;
                            }
                        }
                    }
                    out
                })
            })
            .collect();
        hs.into_iter().map(|h| h.join().unwrap()).collect()
    });
    let mut all = StreamOut::default();
    for o in per_worker {
        all.rows.extend(o.rows);
        all.culprits.extend(o.culprits);
        all.notes.extend(o.notes);
    }
    all.rows.sort_by_key(|r| r.0);
    all.culprits.sort_by_key(|r| r.0);
    all
}

// ---------------------------------------------------------------- shrinking

/// greedy: drop templates, includes, extends while `fails` keeps holding
fn shrink(mut c: Case, fails: &dyn Fn(&Case) -> bool) -> Case {
    loop {
        let mut progress = false;
        for i in 0..c.tpls.len() {
            if c.tpls.len() > 1 {
                let mut d = c.clone();
                d.tpls.remove(i);
                if fails(&d) {
                    c = d;
                    progress = true;
                    break;
                }
            }
        }
        if progress {
            continue;
        }
        'outer: for i in 0..c.tpls.len() {
            let mut variants: Vec<Case> = Vec::new();
            let t = &c.tpls[i];
            if t.parent.is_some() {
                let mut d = c.clone();
                d.tpls[i].parent = None;
                variants.push(d);
            }
            for k in 0..t.top_includes.len() {
                let mut d = c.clone();
                d.tpls[i].top_includes.remove(k);
                variants.push(d);
            }
            for (bi, b) in t.blocks.iter().enumerate() {
                for k in 0..b.includes.len() {
                    let mut d = c.clone();
                    d.tpls[i].blocks[bi].includes.remove(k);
                    variants.push(d);
                }
            }
            for (ci, cm) in t.comps.iter().enumerate() {
                for k in 0..cm.includes.len() {
                    let mut d = c.clone();
                    d.tpls[i].comps[ci].includes.remove(k);
                    variants.push(d);
                }
            }
            for d in variants {
                if fails(&d) {
                    c = d;
                    progress = true;
                    break 'outer;
                }
            }
        }
        if !progress {
            return c;
        }
    }
}

// ---------------------------------------------------------------- random larger graphs

fn random_case(rng: &mut Rng) -> Case {
    let n = 2 + rng.below(11);
    let prefixes: Vec<String> = match rng.below(3) {
        0 => vec![],
        1 => vec!["th/".into()],
        _ => vec!["th/".into(), "alt/".into()],
    };
    // names; some exist both exactly and under a prefix (exact must win)
    let mut names: Vec<String> = Vec::new();
    for i in 0..n {
        let base = format!("t{i}");
        let name = match (prefixes.len(), rng.below(4)) {
            (0, _) | (_, 0) | (_, 1) => base,
            (1, _) | (_, 2) => format!("th/{base}"),
            _ => format!("alt/{base}"),
        };
        names.push(name);
    }
    if !prefixes.is_empty() && rng.chance(1, 3) {
        // shadow: `th/tX` next to `tX`, or `alt/tX` next to `th/tX`
        let i = rng.below(n);
        let short = names[i].rsplit('/').next().unwrap().to_string();
        // under two prefixes also: the same short name under both (the first prefix must win)
        let extra = if prefixes.len() == 2 && names[i].starts_with("th/") && rng.chance(1, 2) {
            format!("alt/{short}")
        } else if prefixes.len() == 2 && names[i].starts_with("alt/") && rng.chance(1, 2) {
            format!("th/{short}")
        } else if names[i].contains('/') {
            short.clone()
        } else {
            format!("{}{}", prefixes[rng.below(prefixes.len())], short)
        };
        if !names.contains(&extra) {
            names.push(extra);
        }
    }
    let n = names.len();
    let shape = rng.below(6);
    let mut tpls: Vec<TplS> = names.iter().map(|nm| TplS::new(nm)).collect();
    let refer = |rng: &mut Rng, j: usize| -> String {
        let full = &names[j];
        for p in &prefixes {
            if let Some(short) = full.strip_prefix(p.as_str()) {
                if rng.chance(1, 2) {
                    return short.to_string();
                }
            }
        }
        full.clone()
    };
    for i in 0..n {
        // extends: mostly towards lower indices (acyclic), sometimes anything, sometimes dangling
        let r = rng.below(100);
        let target = if shape == 0 && r < 70 && i > 0 {
            Some(rng.below(i))
        } else if r < 35 && i > 0 {
            Some(rng.below(i))
        } else if r < 40 {
            Some(rng.below(n))
        } else {
            None
        };
        tpls[i].parent = target.map(|j| refer(rng, j));
        if rng.chance(1, 60) {
            tpls[i].parent = Some("missing_parent".into());
        }
        if rng.chance(1, 40) {
            tpls[i].parent = tpls[i].parent.take().map(|p| if rng.chance(1, 2) { format!("./{p}") } else { p.to_uppercase() });
        }
        let mut block = BlockS { name: "k".into(), ..Default::default() };
        let mut comp = CompS { name: format!("c_{}", tplgen::mark(&names[i])), includes: vec![] };
        let n_inc = match shape {
            1 => rng.below(4),
            _ => rng.below(3),
        };
        for _ in 0..n_inc {
            // mostly towards higher indices (acyclic), sometimes anything
            let j = if rng.chance(6, 7) && i + 1 < n { i + 1 + rng.below(n - i - 1) } else { rng.below(n) };
            let mut r = if rng.chance(1, 80) { "missing_include".to_string() } else { refer(rng, j) };
            if rng.chance(1, 25) {
                // a spelling that is ANOTHER name (exact match and the prefix rule only): dangling
                // unless a template of exactly that name exists
                r = match rng.below(3) {
                    0 => format!("./{r}"),
                    1 => format!("x/../{r}"),
                    _ => r.to_uppercase(),
                };
            }
            match rng.below(3) {
                0 => tpls[i].top_includes.push(r),
                1 => block.includes.push(r),
                _ => comp.includes.push(r),
            }
        }
        tpls[i].comp_calls.push(comp.name.clone());
        tpls[i].blocks.push(block);
        tpls[i].comps.push(comp);
    }
    if shape == 2 {
        // one long include cycle entered from a tail
        let k = 2 + rng.below(n - 1);
        for i in 0..k {
            let j = if i + 1 < k { i + 1 } else { rng.below(k) };
            let r = refer(rng, j);
            tpls[i].top_includes.push(r);
        }
    }
    if shape == 3 {
        // one long extends cycle entered from a tail
        let k = 2 + rng.below(n - 1);
        for i in 0..k {
            let j = if i + 1 < k { i + 1 } else { rng.below(k) };
            tpls[i].parent = Some(refer(rng, j));
        }
    }
    // registration order is part of the input
    for i in (1..tpls.len()).rev() {
        tpls.swap(i, rng.below(i + 1));
    }
    Case { prefixes, tpls }
}

// ---------------------------------------------------------------- deep chains

fn deep_chain(kind: &str, depth: usize) -> (Case, String, String) {
    let mut tpls = Vec::new();
    let name = |i: usize| format!("n{i}");
    match kind {
        "extends-super" => {
            // n0 is the root; each level overrides `k` and calls super()
            for i in 0..depth {
                let mut t = TplS::new(&name(i));
                t.parent = (i > 0).then(|| name(i - 1));
                t.blocks.push(BlockS { name: "k".into(), calls_super: i > 0, ..Default::default() });
                tpls.push(t);
            }
            let mut expect = String::new();
            for i in (0..depth).rev() {
                expect.push_str(&format!("[k@n{i}:"));
            }
            expect.push_str(&"]".repeat(depth));
            (Case { prefixes: vec![], tpls }, name(depth - 1), format!("{{n0:{expect}}}"))
        }
        "include" => {
            for i in 0..depth {
                let mut t = TplS::new(&name(i));
                if i + 1 < depth {
                    t.top_includes.push(name(i + 1));
                }
                tpls.push(t);
            }
            let mut expect = String::new();
            for i in 0..depth {
                expect.push_str(&format!("{{n{i}:"));
            }
            expect.push_str(&"}".repeat(depth));
            (Case { prefixes: vec![], tpls }, name(0), expect)
        }
        _ => {
            // include chain where every included template sits in a block of an extending pair
            for i in 0..depth {
                let mut base = TplS::new(&format!("base{i}"));
                base.blocks.push(BlockS { name: "k".into(), ..Default::default() });
                let mut t = TplS::new(&name(i));
                t.parent = Some(format!("base{i}"));
                let mut b = BlockS { name: "k".into(), calls_super: true, ..Default::default() };
                if i + 1 < depth {
                    b.includes.push(name(i + 1));
                }
                t.blocks.push(b);
                tpls.push(base);
                tpls.push(t);
            }
            (Case { prefixes: vec![], tpls }, name(0), String::new())
        }
    }
}

fn f5a() -> Case {
    // P: a{ b{} } ; C extends P: b{ a{ super() } }
    let mut p = TplS::new("P");
    p.blocks.push(BlockS { name: "a".into(), ..Default::default() });
    p.blocks.push(BlockS { name: "b".into(), nested_in: Some("a".into()), ..Default::default() });
    let mut c = TplS::new("C");
    c.parent = Some("P".into());
    c.blocks.push(BlockS { name: "b".into(), ..Default::default() });
    c.blocks.push(BlockS { name: "a".into(), nested_in: Some("b".into()), calls_super: true, ..Default::default() });
    Case { prefixes: vec![], tpls: vec![p, c] }
}

fn f5b() -> Case {
    // B: x{ include A } ; A extends B: x{ super() }
    let mut b = TplS::new("B");
    b.blocks.push(BlockS { name: "x".into(), includes: vec!["A".into()], ..Default::default() });
    let mut a = TplS::new("A");
    a.parent = Some("B".into());
    a.blocks.push(BlockS { name: "x".into(), calls_super: true, ..Default::default() });
    Case { prefixes: vec![], tpls: vec![b, a] }
}

// ---------------------------------------------------------------- main

fn replay_json(c: &Case, imp: &str, detail: serde_json::Value) -> serde_json::Value {
    serde_json::json!({
        "case": c,
        "sources": c.tpls.iter().map(|t| (t.name.clone(), t.source())).collect::<Vec<_>>(),
        "implementation": imp,
        "model_request": format!("fin 0 1 {}", set_wire(&c.prefixes, &c.tpls)),
        "detail": detail,
        "rerun": "harness/target/release/c11 --replay <this file>",
    })
}

fn main() {
    quiet_panics();
    let env = Env::from_env();
    let args: Vec<String> = std::env::args().collect();
    if let Some(i) = args.iter().position(|a| a == "--child") {
        match args[i + 1].as_str() {
            k @ ("exh" | "rnd") => child_stream(k, args[i + 2] == "quick", args[i + 3].parse().unwrap(), args[i + 4].parse().unwrap(), args[i + 5].parse().unwrap(), args.get(i + 6).and_then(|a| a.parse().ok()).unwrap_or(u64::MAX)),
            "render" => child_render(&args[i + 2], &args[i + 3]),
            "reg" => child_reg(&args[i + 2], None),
            "reg2" => child_reg(&args[i + 2], Some(args[i + 3].parse().unwrap())),
            "dup" => child_reg(&args[i + 2], Some(usize::MAX)),
            "oneoff" => child_oneoff(),
            "oneoff2" => child_oneoff2(),
            _ => {}
        }
        return;
    }
    let exe = driver::driver_path(&env.verif_dir, "drv_c11");

    if let Some(path) = replay_path() {
        let j: serde_json::Value = serde_json::from_str(&std::fs::read_to_string(&path).expect("replay file")).expect("json");
        let j = if j.get("replay").is_some() { j["replay"].clone() } else { j };
        let c: Case = serde_json::from_value(j["case"].clone()).expect("case");
        for t in &c.tpls {
            println!("template {:?}: {}", t.name, t.source());
        }
        let imp = safe_register(&c);
        println!("prefixes: {:?}\nimplementation (registered in a child process): {imp}", c.prefixes);
        let req = format!("fin 0 1 {}", set_wire(&c.prefixes, &c.tpls));
        println!("model: {:?}", driver::run_batch(&exe, &[req]));
        println!("graph facts: {:?}\noracle: {:?}", graph_facts(&c), oracle(&c, &imp));
        if let Some(k) = j.get("replaced_last").and_then(|v| v.as_u64()) {
            let k = k as usize;
            let two = safe_two_step(&c, k);
            println!("with {:?} stripped of its edges in a first batch and re-registered last: {:?}", c.tpls[k].name, two);
            println!("oracle on that answer: {:?}", two.and_then(|r| oracle(&c, &r)));
        }
        if j.get("dup_batch").is_some() {
            println!("rejected duplicate batch / refused late set_fallback_prefixes / registration from files: {}", safe_dup(&c));
        }
        if imp.starts_with("ok") {
            for t in &c.tpls {
                let (st, out) = render_in_child(&c, &t.name, "replay", Duration::from_secs(20));
                println!("render {:?} in a child process: {st} {}", t.name, out.trim().chars().take(200).collect::<String>());
            }
        }
        return;
    }

    let mut report = Report::new("C11");
    let threads = std::thread::available_parallelism().map(|n| n.get()).unwrap_or(8).min(16);
    let quick = env.quick();
    let p = plan(quick);

    // ---- 1. + 2. the exhaustive enumeration and the random stream, both in worker processes and
    //      in segments (the thorough streams have millions of sets)
    let t0 = Instant::now();
    let mut rgen = RandomGen::new(quick, env.seed);
    let rnd_total = rgen.total();
    report.count_n("long-rings", rgen.rings.len() as u64);
    let mut segments: Vec<(bool, u64, u64)> = Vec::new();
    let mut lo = 0u64;
    while lo < p.total {
        segments.push((true, lo, (lo + 1_000_000).min(p.total)));
        lo += 1_000_000;
    }
    let mut lo = 0u64;
    while lo < rnd_total {
        segments.push((false, lo, (lo + 200_000).min(rnd_total)));
        lo += 200_000;
    }
    let case_of = |rgen: &mut RandomGen, is_exh: bool, idx: u64| -> Case {
        if is_exh { exhaustive_case(p.n, idx, env.seed, p.max_edges, &p.sets) } else { rgen.get(idx) }
    };
    // (from the exhaustive stream?, idx, stage, worker status)
    let mut culprits: Vec<(bool, u64, String, String)> = Vec::new();
    let mut n_exh = 0usize;
    // (index of the set, template replaced last, answer of the replacing call)
    let mut hist_fails: Vec<(Case, usize, String, String)> = Vec::new();
    let mut n_hist_fails = 0u64;
    let mut dup_fails: Vec<(Case, String)> = Vec::new();
    let mut n_dup_fails = 0u64;
    let mut distinct: std::collections::HashSet<u64> = std::collections::HashSet::new();
    // (global index, case, implementation, model answer)
    let mut mismatches: Vec<(usize, Case, String, String)> = Vec::new();
    let mut oracle_fails: Vec<(Case, String, String)> = Vec::new(); // (case, implementation, description)
    let mut n_oracle_fails = 0u64;
    let mut model_ok = true;
    let mut done_before = 0usize;
    for (seg_exh, seg_lo, seg_hi) in segments {
    let out = run_stream(if seg_exh { "exh" } else { "rnd" }, quick, env.seed, threads, seg_lo, seg_hi);
    report.notes.extend(out.notes.iter().cloned());
    culprits.extend(out.culprits.iter().map(|(i, st, s)| (seg_exh, *i, st.clone(), s.clone())));
    if seg_exh {
        n_exh += out.rows.len();
    }
    let all_rows: Vec<(bool, &(u64, String, String, String))> = out.rows.iter().map(|r| (seg_exh, r)).collect();

    // ---- model answers and oracles, in waves
    let wave = 200_000usize;
    let total_cases = all_rows.len();
    let mut lo = 0usize;
    while lo < total_cases {
        let hi = (lo + wave).min(total_cases);
        let cases: Vec<(Case, String, String)> = (lo..hi)
            .map(|i| {
                let (is_exh, (idx, imp, renders, hist)) = &all_rows[i];
                let c = case_of(&mut rgen, *is_exh, *idx);
                let (hist, dup) = hist.split_once('\u{2}').unwrap_or((hist.as_str(), "na"));
                report.count(&format!("history.duplicate-batch / late-prefixes / from-files.{}", dup.split(' ').next().unwrap_or("")));
                if dup != "na" {
                    report.oracle_checks += 1;
                }
                if let Some(d) = dup.strip_prefix("diff ") {
                    n_dup_fails += 1;
                    if dup_fails.len() < 3 {
                        dup_fails.push((c.clone(), d.to_string()));
                    }
                }
                let (h, x) = match hist.split_once('\u{1}') {
                    Some((h, x)) => (h, x.parse().unwrap_or(0)),
                    None => (hist, if *is_exh { (*idx % p.n as u64) as usize } else { c.tpls.len() / 2 }),
                };
                report.count(&format!("history.replacement-last.{}", h.split(' ').next().unwrap_or("")));
                if h != "na" {
                    report.oracle_checks += 1;
                }
                if let Some(r2) = h.strip_prefix("diff ") {
                    n_hist_fails += 1;
                    // keep the strongest examples: those where acceptance itself differs
                    let strong = imp.starts_with("ok") != r2.starts_with("ok");
                    if strong && hist_fails.iter().filter(|h| h.2.starts_with("ok") != h.3.starts_with("ok")).count() < 3 {
                        hist_fails.insert(0, (c.clone(), x, imp.clone(), r2.to_string()));
                    } else if hist_fails.len() < 3 {
                        hist_fails.push((c.clone(), x, imp.clone(), r2.to_string()));
                    }
                }
                (c, imp.clone(), renders.clone())
            })
            .collect();
        let reqs: Vec<String> = cases
            .iter()
            .enumerate()
            .map(|(k, (c, _, _))| format!("fin {} {} {}", (done_before + lo + k) % 3, ((done_before + lo + k) / 3) % 3, set_wire(&c.prefixes, &c.tpls)))
            .collect();
        let model = if model_ok {
            match driver::run_batch_parallel(&exe, &reqs, threads) {
                Ok(m) => m,
                Err(e) => {
                    model_ok = false;
                    report.notes.push(format!("model driver unavailable: {e}"));
                    report.violation("model-mismatch", format!("model driver could not be run: {e}"), serde_json::json!({"stage": "driver", "error": e}));
                    Vec::new()
                }
            }
        } else {
            Vec::new()
        };
        for (k, (c, imp, renders)) in cases.iter().enumerate() {
            let i = done_before + lo + k;
            report.evaluations += 1;
            let class = if imp.starts_with("ok") { "accepted".to_string() } else if imp.starts_with("panic") { "panic".into() } else { format!("rejected.{}", err_class(imp)) };
            report.count(&format!("{}.{}", if seg_exh { "exhaustive" } else { "random" }, class));
            report.count(&format!("templates.{}", c.tpls.len()));
            let f = graph_facts(c);
            if f.extends_cycle {
                report.count("graph.extends_cycle");
            }
            if f.include_cycle {
                report.count("graph.include_cycle");
            }
            if f.dangling_extends || f.dangling_include {
                report.count("graph.dangling");
            }
            let has_edges = c.tpls.iter().any(|t| t.parent.is_some() || !t.all_includes().is_empty());
            if has_edges {
                use std::hash::{Hash, Hasher};
                let mut h = std::collections::hash_map::DefaultHasher::new();
                reqs[k][8..].hash(&mut h);
                if distinct.insert(h.finish()) {
                    report.distinct_nontrivial += 1;
                }
            }
            if !model.is_empty() {
                report.model_comparisons += 1;
                if &model[k] != imp {
                    report.model_disagreements += 1;
                    if mismatches.len() < 4 {
                        mismatches.push((i, c.clone(), imp.clone(), model[k].clone()));
                    }
                }
            }
            report.oracle_checks += 1;
            if let Some(d) = oracle(c, imp) {
                n_oracle_fails += 1;
                if oracle_fails.len() < 4 {
                    oracle_fails.push((c.clone(), imp.clone(), d));
                }
            } else if imp.starts_with("ok") {
                report.oracle_checks += 1;
                report.count_n("renders", c.tpls.len() as u64);
                if renders.split(',').any(|r| r == "panic") || renders.split(',').count() != c.tpls.len() {
                    n_oracle_fails += 1;
                    if oracle_fails.len() < 4 {
                        oracle_fails.push((c.clone(), imp.clone(), format!("rendering an accepted set panicked or did not finish: {renders}")));
                    }
                }
            }
            if k == 0 && lo == 0 {
                report.sample(serde_json::json!({
                    "templates": c.tpls.iter().map(|t| (t.name.clone(), t.source())).collect::<Vec<_>>(),
                    "prefixes": c.prefixes, "implementation": imp, "model": model.get(k), "renders": renders,
                }));
            }
        }
        lo = hi;
    }
    done_before += total_cases;
    }
    report.exhaustive = n_exh as u64 == p.total;
    report.notes.push(format!("exhaustive enumeration: {} sets over {} templates; random stream: {} sets; all in worker processes, {:.1} s", p.total, p.n, rnd_total, t0.elapsed().as_secs_f64()));

    // culprits: sets on which a worker died or hung
    let mut n_culprits = 0u64;
    {
        for (k, (is_exh, idx, stage, status)) in culprits.iter().enumerate() {
            let is_exh = *is_exh;
            n_culprits += 1;
            report.count(&format!("worker-death.{stage}"));
            if report.violations.len() >= 6 {
                continue;
            }
            let c = case_of(&mut RandomGen::new(quick, env.seed), is_exh, *idx);
            let n = c.tpls.len();
            // shrink (in child processes) while the engine keeps dying; only the first few, a
            // stack overflow per probe is slow
            let dies = |d: &Case| -> bool {
                match stage.as_str() {
                    "reg" => safe_register(d).starts_with("died"),
                    "hist" => (0..d.tpls.len()).any(|x| safe_two_step(d, x).is_some_and(|r| r.starts_with("died"))),
                    _ => false,
                }
            };
            let small = if k < 2 && stage != "render" && dies(&c) { shrink(c.clone(), &dies) } else { c.clone() };
            let imp = if stage == "reg" { format!("died {status}") } else { safe_register(&small) };
            let f = graph_facts(&small);
            let summary = match stage.as_str() {
                "reg" => format!(
                    "registration must end in Ok or Err ({}): the engine did not return — worker {status} while registering set #{idx} ({n} templates; graph: {f:?})",
                    if f.include_cycle { "here Err(CircularInclude)" } else if f.extends_cycle { "here Err(CircularExtend)" } else { "every shape of graph" }
                ),
                "hist" => format!("registration did not return — worker {status} while re-registering one template of set #{idx} last (graph: {f:?})"),
                _ => format!("an accepted set does not render finitely: worker {status} on set #{idx}"),
            };
            report.violation("property", summary, replay_json(&small, &imp, serde_json::json!({"worker": status, "stage": stage, "stream": if is_exh { "exhaustive" } else { "random" }, "index": idx})));
        }
    }
    report.oracle_failures += n_culprits;

    report.oracle_failures += n_oracle_fails + n_hist_fails + n_dup_fails;
    for (c, d) in dup_fails.iter() {
        let small = shrink(c.clone(), &|x: &Case| safe_dup(x).starts_with("diff"));
        let desc = safe_dup(&small);
        let imp = safe_register(&small);
        let mut j = replay_json(&small, &imp, serde_json::json!({"original": d}));
        j["dup_batch"] = serde_json::json!(true);
        report.violation(
            "property",
            desc.strip_prefix("diff ").unwrap_or(d).to_string(),
            j,
        );
    }
    for (c, x, imp, r2) in hist_fails.iter().take(3) {
        // shrink while the two ways of reaching the set keep answering differently (and keep
        // differing in acceptance itself when they did)
        let xname = c.tpls[*x].name.clone();
        let strong = imp.starts_with("ok") != r2.starts_with("ok");
        let small = shrink(c.clone(), &|d: &Case| match d.tpls.iter().position(|t| t.name == xname) {
            Some(k) => {
                let i1 = safe_register(d);
                let h = safe_history_check(d, k, &i1);
                h.starts_with("diff") && (!strong || (i1.starts_with("ok") != h.starts_with("diff ok")))
            }
            None => false,
        });
        let k = small.tpls.iter().position(|t| t.name == xname).unwrap_or(0);
        let i1 = safe_register(&small);
        let i2 = safe_two_step(&small, k).unwrap_or_default();
        let want = oracle(&small, &i2);
        let mut first = small.tpls.clone();
        first[k] = strip(&small.tpls[k]);
        report.violation(
            "property",
            format!(
                "acceptance depends on how the set was reached: registered in one batch the answer is `{}`, but with `{xname}` re-registered last (closing its edges by a replacement) the answer is `{}`{} (originally `{}` vs `{}`)",
                i1.chars().take(160).collect::<String>(),
                i2.chars().take(160).collect::<String>(),
                want.map(|w| format!(" — {w}")).unwrap_or_default(),
                imp.chars().take(80).collect::<String>(),
                r2.chars().take(80).collect::<String>()
            ),
            {
                let mut j = replay_json(&small, &i1, serde_json::json!({"replaced_last": xname, "answer_of_the_replacing_call": i2}));
                j["replaced_last"] = serde_json::json!(k);
                j["first_step_sources"] = serde_json::json!(first.iter().map(|t| (t.name.clone(), t.source())).collect::<Vec<_>>());
                j
            },
        );
    }
    for (c, imp0, d) in oracle_fails.iter() {
        let want_accept = imp0.starts_with("ok");
        let small = shrink(c.clone(), &|d: &Case| {
            let imp = safe_register(d);
            imp.starts_with("ok") == want_accept && oracle(d, &imp).is_some()
        });
        let imp = safe_register(&small);
        let desc = oracle(&small, &imp).unwrap_or_else(|| d.clone());
        report.violation("property", desc, replay_json(&small, &imp, serde_json::json!({"original_failure": d})));
    }
    if oracle_fails.is_empty() && model_ok {
        for (i, c, imp, model_ans) in mismatches.iter() {
            // shrink while model and implementation keep disagreeing
            let small = shrink(c.clone(), &|d: &Case| {
                let imp = safe_register(d);
                let req = format!("fin {} {} {}", i % 3, (i / 3) % 3, set_wire(&d.prefixes, &d.tpls));
                driver::run_batch(&exe, &[req]).map(|m| m[0] != imp).unwrap_or(false)
            });
            let simp = safe_register(&small);
            let req = format!("fin {} {} {}", i % 3, (i / 3) % 3, set_wire(&small.prefixes, &small.tpls));
            let smodel = driver::run_batch(&exe, &[req]).map(|m| m[0].clone()).unwrap_or_default();
            let stage = if imp.starts_with("ok") && model_ans.starts_with("ok") { "correspondence:finalize-derived" } else { "correspondence:finalize-acceptance" };
            report.violation(
                "model-mismatch",
                format!("model `{smodel}` vs implementation `{simp}`"),
                replay_json(&small, &simp, serde_json::json!({"stage": stage, "model": smodel})),
            );
        }
    }

    // ---- 3. chains of depth 32 (and deeper in thorough), rendered in a child on a 2 MiB stack
    for kind in ["extends-super", "include", "mixed"] {
        for depth in if quick { vec![8usize, 32] } else { vec![8usize, 32, 48, 64] } {
            let (c, top, expect) = deep_chain(kind, depth);
            let imp = safe_register(&c);
            report.evaluations += 1;
            report.oracle_checks += 1;
            report.count(&format!("deep.{kind}.{depth}"));
            let (status, out) = render_in_child(&c, &top, &format!("deep-{kind}-{depth}"), Duration::from_secs(30));
            let out = out.trim().to_string();
            let good = imp.starts_with("ok") && status == "exit0" && out.starts_with("ok ") && (expect.is_empty() || out == format!("ok {expect}"));
            // the model's render skeleton on the same chain (nesting depth as fuel)
            let req = format!("render {} {} {}", 4 * depth + 8, top, set_wire(&c.prefixes, &c.tpls));
            if let Ok(m) = driver::run_batch(&exe, &[req]) {
                report.model_comparisons += 1;
                if status == "exit0" && m[0] != out {
                    report.model_disagreements += 1;
                    report.violation(
                        "model-mismatch",
                        format!("render skeleton of the model `{}` vs real render `{}`", m[0].chars().take(100).collect::<String>(), out.chars().take(100).collect::<String>()),
                        replay_json(&c, &imp, serde_json::json!({"stage": "correspondence:render-skeleton", "render": top, "model": m[0]})),
                    );
                }
            }
            if !good && depth <= 32 {
                report.oracle_failures += 1;
                report.violation(
                    "property",
                    format!("acyclic {kind} chain of depth {depth}: registration `{}`, render in child: {status} `{}`", err_class(&imp), out.chars().take(120).collect::<String>()),
                    replay_json(&c, &imp, serde_json::json!({"render": top, "expected": expect, "child": status})),
                );
            } else if !good {
                report.notes.push(format!("measurement: {kind} chain of depth {depth} (beyond the claimed 32): {status}"));
            }
        }
    }

    // ---- 2'. the one-off entry points: a source whose include target does not exist must be
    //      rejected wherever the include sits (also in code that does not run), exactly as
    //      add_raw_template rejects it; one whose target exists (exactly / through the prefix) renders
    {
        let (status, out) = run_child(&["--child".into(), "oneoff".into()], Duration::from_secs(60));
        let sources = oneoff_sources();
        let mut seen = 0usize;
        let mut by_label: std::collections::BTreeMap<String, Vec<(String, String)>> = std::collections::BTreeMap::new();
        for line in out.lines() {
            let f: Vec<&str> = line.split('\t').collect();
            if f.len() == 3 {
                by_label.entry(f[0].to_string()).or_default().push((f[1].to_string(), f[2].to_string()));
            }
        }
        for (label, exists, src) in &sources {
            for (entry, ans) in by_label.get(label).cloned().unwrap_or_default() {
                seen += 1;
                report.evaluations += 1;
                report.oracle_checks += 1;
                report.count(&format!("one-off.{}", if ans == "ok" { "ok" } else { "rejected" }));
                let target_known = *exists && !entry.starts_with("Tera::one_off");
                let good = if target_known { ans == "ok" } else { ans.starts_with("err") };
                if !good {
                    report.oracle_failures += 1;
                    report.violation(
                        "property",
                        format!(
                            "{entry}: source `{src}` ({label}) is answered `{ans}`: {}",
                            if target_known { "its include target exists, it must render" } else { "its include target does not exist: it must be rejected like add_raw_template rejects it, also when the include sits in code that does not run" }
                        ),
                        serde_json::json!({"one_off": {"entry_point": entry, "source": src, "label": label, "resident": [["nav", "N"], ["th/th_only", "T"]], "prefixes": ["th/"]}, "implementation": ans, "rerun": "harness/target/release/c11 --child oneoff"}),
                    );
                }
            }
        }
        if status != "exit0" || seen != sources.len() * 4 {
            report.oracle_failures += 1;
            report.violation("property", format!("the one-off entry points did not all answer (worker {status}, {seen} of {} answers)", sources.len() * 4), serde_json::json!({"one_off": "all", "worker": status}));
        }
    }

    // ---- 2''. boundary names (blank extends / include targets) and include targets that fail at
    //      render time, through render_str / render_str_to / registration + render: an error (never
    //      a panic, never an acceptance) — and the registered blank name resolves
    {
        let (status, out) = run_child(&["--child".into(), "oneoff2".into()], Duration::from_secs(60));
        let sources = oneoff2_sources();
        let mut seen = 0usize;
        for line in out.lines() {
            let f: Vec<&str> = line.split('\t').collect();
            if f.len() != 3 {
                continue;
            }
            let Some((label, resident, src, want)) = f[0].parse::<usize>().ok().and_then(|i| sources.get(i)) else { continue };
            let (entry, ans) = (f[1], f[2]);
            // render_str / render_str_to refuse every source with an extends tag
            let want: &str = if src.starts_with("{% extends") && entry.starts_with("render_str") { "err" } else { want.as_str() };
            seen += 1;
            report.evaluations += 1;
            report.oracle_checks += 1;
            report.count(&format!("one-off.boundary.{}", if ans.starts_with("ok") { "ok" } else { "rejected" }));
            let good = if want == "err" { ans.starts_with("err") } else { ans == want };
            if !good {
                report.oracle_failures += 1;
                report.violation(
                    "property",
                    format!("{entry}: source `{src}` ({label}) is answered `{ans}`, expected `{want}`{}", if ans == "panic" { " — the engine panicked instead of returning an error" } else { "" }),
                    serde_json::json!({"one_off": {"entry_point": entry, "source": src, "label": label, "resident": resident, "prefixes": ["th/"]}, "implementation": ans, "expected": want, "rerun": "harness/target/release/c11 --child oneoff2"}),
                );
            }
        }
        if status != "exit0" || seen != sources.len() * 3 {
            report.oracle_failures += 1;
            report.violation("property", format!("the boundary one-off family did not all answer (worker {status}, {seen} of {} answers)", sources.len() * 3), serde_json::json!({"one_off": "boundary", "worker": status}));
        }
    }

    // ---- 3'. short extends chains whose block calls super() TWICE at every level (the block level
    //      has to be restored after each super()): rendered in a child with a deadline, expected
    //      text from the reference (level i = marker + twice the text of level i-1)
    for depth in [3usize, 4, 5] {
        let mut tpls = Vec::new();
        let mut expect = "[k@n0:]".to_string();
        for i in 0..depth {
            let mut t = TplS::new(&format!("n{i}"));
            t.parent = (i > 0).then(|| format!("n{}", i - 1));
            t.blocks.push(BlockS { name: "k".into(), calls_super: i > 0, super_twice: i > 0, ..Default::default() });
            tpls.push(t);
            if i > 0 {
                expect = format!("[k@n{i}:{expect}{expect}]");
            }
        }
        let c = Case { prefixes: vec![], tpls };
        let top = format!("n{}", depth - 1);
        let expect = format!("ok {{n0:{expect}}}");
        let imp = safe_register(&c);
        report.evaluations += 1;
        report.oracle_checks += 1;
        report.count(&format!("deep.extends-super-twice.{depth}"));
        let (mut status, mut out) = render_in_child(&c, &top, &format!("twice-{depth}"), Duration::from_secs(15));
        if status != "exit0" {
            // confirm on its own
            (status, out) = render_in_child(&c, &top, &format!("twice-{depth}-again"), Duration::from_secs(15));
        }
        let out = out.trim().to_string();
        if !(imp.starts_with("ok") && status == "exit0" && out == expect) {
            report.oracle_failures += 1;
            report.violation(
                "property",
                format!(
                    "acyclic extends chain of {depth} templates whose block calls super() twice at every level: registration `{}`; render of `{top}` in a child process: {status} `{}` (confirmed by a second run); expected `{}`",
                    err_class(&imp),
                    out.chars().take(100).collect::<String>(),
                    expect.chars().take(100).collect::<String>()
                ),
                replay_json(&c, &imp, serde_json::json!({"render": top, "expected": expect, "child": status})),
            );
            break;
        }
    }

    // ---- 3a. layered include DAGs with re-convergent paths (every template of a layer includes
    //      every template of the next): the number of PATHS is width^layers, the number of templates
    //      width*layers — registration must stay fast (the `visited` memo of the include walk); a
    //      worker that does not answer within its 20 s watchdog, confirmed by a solo re-run, is a
    //      violation ("adding templates never loops")
    let mut dag_failed = false;
    for (layers, width) in [(8usize, 2usize), (16, 2), (24, 2), (32, 2), (48, 2), (16, 3), (32, 3)] {
        if dag_failed {
            break;
        }
        let mut tpls = Vec::new();
        for l in 0..layers {
            for w in 0..width {
                let mut t = TplS::new(&format!("l{l}w{w}"));
                if l + 1 < layers {
                    for v in 0..width {
                        let target = format!("l{}w{v}", l + 1);
                        match (l + w + v) % 3 {
                            0 => t.top_includes.push(target),
                            1 => {
                                if t.blocks.is_empty() {
                                    t.blocks.push(BlockS { name: "k".into(), ..Default::default() });
                                }
                                t.blocks[0].includes.push(target)
                            }
                            _ => {
                                if t.comps.is_empty() {
                                    t.comps.push(CompS { name: format!("c_l{l}w{w}"), includes: vec![] });
                                }
                                t.comps[0].includes.push(target)
                            }
                        }
                    }
                }
                tpls.push(t);
            }
        }
        let c = Case { prefixes: vec![], tpls };
        report.evaluations += 1;
        report.oracle_checks += 1;
        report.count(&format!("layered-dag.{layers}x{width}"));
        let t0 = Instant::now();
        let mut imp = safe_register(&c);
        let first_s = t0.elapsed().as_secs_f64();
        if imp.starts_with("died") {
            // confirm on its own (nothing else running in this harness at this point)
            imp = safe_register(&c);
        }
        if !imp.starts_with("ok") {
            dag_failed = true;
            report.oracle_failures += 1;
            report.violation(
                "property",
                format!(
                    "adding templates must end: an acyclic layered include graph ({layers} layers x {width} templates, every template including all {width} of the next layer: {} templates, {width}^{layers} paths) is answered `{}` (first attempt {first_s:.1} s, confirmed by a second run on its own); the unchanged engine registers it in milliseconds",
                    layers * width,
                    imp.chars().take(80).collect::<String>()
                ),
                replay_json(&c, &imp, serde_json::json!({"layers": layers, "width": width})),
            );
        } else if first_s > 10.0 {
            report.notes.push(format!("measurement: layered include DAG {layers}x{width} registered in {first_s:.1} s"));
        }
        // the model: accepted (fuel = number of templates; its walk memoises like the engine's)
        let req = format!("fin 0 1 {}", set_wire(&c.prefixes, &c.tpls));
        if let Ok(m) = driver::run_batch(&exe, &[req]) {
            report.model_comparisons += 1;
            if imp.starts_with("ok") && m[0] != imp {
                report.model_disagreements += 1;
                report.violation("model-mismatch", format!("layered include DAG {layers}x{width}: model `{}` vs implementation `{}`", m[0].chars().take(80).collect::<String>(), imp.chars().take(80).collect::<String>()), replay_json(&c, &imp, serde_json::json!({"stage": "correspondence:finalize-derived"})));
            }
        }
    }

    // ---- 3b. component <-> include recursion: the include graph is acyclic (a component call is
    //      not an include edge), so these sets are accepted; the only bound is the component
    //      recursion limit, which has to hold across includes: an unbounded loop must END in the
    //      limit error, a bounded nesting beyond the limit must be that error, one below it must render
    let comp_inc = |n: usize, looped: bool| -> (Case, String) {
        // `lib` defines c_i whose body includes t_{i+1}; t_i calls c_i
        let mut lib = TplS::new("lib");
        let mut tpls = Vec::new();
        for i in 0..n {
            let mut t = TplS::new(&format!("t{i}"));
            t.comp_calls.push(format!("c{i}"));
            tpls.push(t);
            let next = if i + 1 < n { Some(format!("t{}", i + 1)) } else if looped { Some("t0".to_string()) } else { None };
            lib.comps.push(CompS { name: format!("c{i}"), includes: next.into_iter().collect() });
        }
        tpls.push(lib);
        (Case { prefixes: vec![], tpls }, "t0".to_string())
    };
    let limit = 20usize;
    for (label, n, looped, want_ok) in [("loop-1", 1usize, true, false), ("loop-3", 3, true, false), ("nest-10", 10, false, true), ("nest-20", limit, false, true), ("nest-21", limit + 1, false, false), ("nest-30", 30, false, false)] {
        let (c, top) = comp_inc(n, looped);
        let imp = safe_register(&c);
        report.evaluations += 1;
        report.oracle_checks += 1;
        report.count(&format!("component-include.{label}"));
        let (status, out) = render_in_child(&c, &top, &format!("compinc-{label}"), Duration::from_secs(30));
        let out = out.trim().to_string();
        let good = imp.starts_with("ok") && status == "exit0" && if want_ok { out.starts_with("ok ") } else { out.starts_with("rendererr err msg") };
        if !good {
            report.oracle_failures += 1;
            report.violation(
                "property",
                format!(
                    "component <-> include recursion ({label}: {n} component levels{}): registration `{}`; render of `{top}` in a child process: {status} `{}` — {}",
                    if looped { ", looping back" } else { "" },
                    err_class(&imp),
                    out.chars().take(100).collect::<String>(),
                    if want_ok { "nesting below the component recursion limit must render" } else { "must end in the component recursion limit error, whatever includes lie between the component calls" }
                ),
                replay_json(&c, &imp, serde_json::json!({"render": top, "child": status, "output": out.chars().take(200).collect::<String>()})),
            );
        }
        // the model's skeleton carries the component depth through includes as the engine does
        let req = format!("render {} {} {}", 8 * n + 200, top, set_wire(&c.prefixes, &c.tpls));
        if let Ok(m) = driver::run_batch(&exe, &[req]) {
            report.model_comparisons += 1;
            let real = out.strip_prefix("rendererr ").unwrap_or(&out);
            if status == "exit0" && m[0] != real {
                report.model_disagreements += 1;
                report.violation(
                    "model-mismatch",
                    format!("render skeleton of the model `{}` vs real render `{}` ({label})", m[0].chars().take(100).collect::<String>(), real.chars().take(100).collect::<String>()),
                    replay_json(&c, &imp, serde_json::json!({"stage": "correspondence:render-skeleton", "render": top, "model": m[0]})),
                );
            }
        }
    }

    // ---- 4. the two known shapes, once each, in a child with a timeout
    for (id, c, top) in [("F5a", f5a(), "C"), ("F5b", f5b(), "A")] {
        let imp = safe_register(&c);
        report.evaluations += 1;
        report.oracle_checks += 1;
        let (status, out) = render_in_child(&c, top, id, Duration::from_secs(20));
        report.count(&format!("known.{id}.{}", if status == "exit0" { "survived" } else { "died" }));
        // the model proves these two renders exhaust every fuel (Props/C11 render_terminates_is_false)
        let req = format!("render 500 {} {}", top, set_wire(&c.prefixes, &c.tpls));
        if let Ok(m) = driver::run_batch(&exe, &[req]) {
            report.model_comparisons += 1;
            let model_diverges = m[0] == "outoffuel";
            if model_diverges != (status != "exit0") {
                report.model_disagreements += 1;
                report.violation(
                    "model-mismatch",
                    format!("{id}: model render `{}` but the real render in a child: {status}", m[0].chars().take(80).collect::<String>()),
                    replay_json(&c, &imp, serde_json::json!({"stage": "correspondence:render-skeleton", "render": top, "model": m[0]})),
                );
            }
        }
        if imp.starts_with("ok") && status != "exit0" {
            report.oracle_failures += 1;
            report.violations.push(Violation {
                kind: "property".into(),
                summary: format!("{id}: accepted set whose render does not terminate (child: {status})"),
                replay: replay_json(&c, &imp, serde_json::json!({"render": top, "child": status})),
                known: Some(id.to_string()),
            });
        } else {
            report.notes.push(format!("{id} shape: registration `{}`, render in child: {status} {}", err_class(&imp), out.trim().chars().take(80).collect::<String>()));
        }
    }

    report.rule = "a set of templates with at least one extends or include edge, distinct by (prefixes, names, edges, edge placement, spelling of targets); every case reaches finalize_templates (no syntax errors are generated here)".into();
    report.write(&out_path());
}
