//! C19 — data put in a context through serde is represented faithfully.
//!
//! A zoo of concrete Rust types (serde derive) built from every constructor of the serde data
//! model at depth ≤ 3.  For every type `T` and every generated value `x: T`:
//!  * `Value::try_from_serializable(&x)` vs the Lean model's `ser`             — correspondence
//!  * `T::deserialize(v)`, `T::deserialize(&v)`, `T::deserialize(ValueDeserializer(v))`
//!    vs the model's `de t (ser x)`                                            — correspondence
//!  * direct oracle: all three give back exactly `x` for every type of the property's family
//!  * cross-type reads (`U::deserialize(value of a T)`) vs the model's `de`    — correspondence
//!  * `{{ v }}` through `insert`, `insert_value` and `Context::from_serialize` is one text; it is
//!    compared with the model's `fmtValue`; integers print as Rust prints them; a `HashMap` built in
//!    another insertion order prints the same
//!  * a key that is not bool / integer / char / string (or a unit variant) is an error
use serde::de::DeserializeOwned;
use serde::{Deserialize, Serialize};
use std::collections::{BTreeMap, HashMap, HashSet};
use std::ffi::CString;
use std::fmt::Debug;
use tera::{Context, Tera, Value};
use tera_verif_harness::report::{out_path, replay_path, Report};
use tera_verif_harness::rng::Rng;
use tera_verif_harness::wire::{encode, hex};
use tera_verif_harness::{catch, driver, quiet_panics, Env};

fn hexname(s: &str) -> String {
    hexs(s.strip_prefix("r#").unwrap_or(s))
}

fn hexs(s: &str) -> String {
    if s.is_empty() { "-".into() } else { hex(s.as_bytes()) }
}

// ------------------------------------------------------------------ the zoo trait

trait Z: Serialize + DeserializeOwned + PartialEq + Debug + Clone + 'static {
    /// wire form of the type (Driver/C19.lean)
    fn ty() -> String;
    fn gen_(rng: &mut Rng, d: usize) -> Self;
    /// wire form of the value
    fn sval(&self) -> String;
    /// may serialise to `Value::None` (Option, unit, unit struct, newtype around those)
    fn none_like() -> bool {
        false
    }
    /// inside the family the property quantifies over
    fn in_family() -> bool {
        true
    }
    /// bool / integer / char / String
    fn good_key() -> bool {
        false
    }
    /// used as a map key this value cannot be represented (it is not a bool, integer, char, string
    /// or unit variant once `Some` and newtype structs are looked through): the conversion must fail
    fn bad_key_value(&self) -> bool {
        false
    }
    /// some map inside the value has such a key
    fn contains_bad_key(&self) -> bool {
        false
    }
    /// for a struct with `skip_serializing_if` fields: the names of the fields that ARE written
    /// (the converted map must have exactly these keys)
    fn expected_keys(&self) -> Option<Vec<String>> {
        None
    }
}

macro_rules! z_int {
    ($($t:ty => $name:expr),*) => {$(
        impl Z for $t {
            fn ty() -> String { $name.to_string() }
            fn gen_(rng: &mut Rng, _d: usize) -> Self {
                match rng.below(6) {
                    0 => <$t>::MIN,
                    1 => <$t>::MAX,
                    2 => 0 as $t,
                    3 => (rng.range(-3, 3) as i128) as $t,
                    4 => (<$t>::MAX / 2).wrapping_add(rng.below(3) as $t),
                    _ => rng.next_u128() as $t,
                }
            }
            fn sval(&self) -> String { format!("i:{}:{}", $name, self) }
            fn good_key() -> bool { true }
        }
    )*};
}
z_int!(i8 => "i8", i16 => "i16", i32 => "i32", i64 => "i64", i128 => "i128", isize => "i64",
       u8 => "u8", u16 => "u16", u32 => "u32", u64 => "u64", u128 => "u128", usize => "u64");

impl Z for bool {
    fn ty() -> String {
        "bool".into()
    }
    fn gen_(rng: &mut Rng, _d: usize) -> Self {
        rng.chance(1, 2)
    }
    fn sval(&self) -> String {
        if *self { "b1".into() } else { "b0".into() }
    }
    fn good_key() -> bool {
        true
    }
}

impl Z for f32 {
    fn bad_key_value(&self) -> bool {
        true
    }
    fn ty() -> String {
        "f32".into()
    }
    fn gen_(rng: &mut Rng, _d: usize) -> Self {
        match rng.below(6) {
            0 => *rng.pick(&[0.0f32, -0.0, 1.0, -1.5, f32::MAX, f32::MIN, f32::MIN_POSITIVE, 1e-45, f32::INFINITY, f32::NEG_INFINITY, 16777217.0, 0.1]),
            1 => f32::NAN,
            2 => rng.range(-1000, 1000) as f32 / 8.0,
            _ => f32::from_bits(rng.next_u64() as u32),
        }
    }
    fn sval(&self) -> String {
        format!("f32:{:08x}", if self.is_nan() { 0x7fc00000 } else { self.to_bits() })
    }
}

impl Z for f64 {
    fn bad_key_value(&self) -> bool {
        true
    }
    fn ty() -> String {
        "f64".into()
    }
    fn gen_(rng: &mut Rng, _d: usize) -> Self {
        match rng.below(6) {
            0 => *rng.pick(&[0.0f64, -0.0, 1.0, -1.5, f64::MAX, f64::MIN, f64::MIN_POSITIVE, 5e-324, f64::INFINITY, f64::NEG_INFINITY, 9007199254740993.0, 0.1, 1e21]),
            1 => f64::NAN,
            2 => rng.range(-1000, 1000) as f64 / 8.0,
            _ => f64::from_bits(rng.next_u64()),
        }
    }
    fn sval(&self) -> String {
        format!("f64:{:016x}", if self.is_nan() { 0x7ff8000000000000 } else { self.to_bits() })
    }
}

fn gen_char(rng: &mut Rng) -> char {
    loop {
        let n = match rng.below(8) {
            0..=3 => 0x20 + rng.below(0x5f) as u32,
            4 => rng.below(0x80) as u32,
            5 => 0x80 + rng.below(0x780) as u32,
            6 => 0x800 + rng.below(0xF800) as u32,
            _ => *rng.pick(&[0x10000u32, 0x10ffff, 0x1f600, 0, 0x7f, 0x22, 0x5c, 0xe9, 0xd7ff, 0xe000]),
        };
        if let Some(c) = char::from_u32(n) {
            return c;
        }
    }
}

impl Z for char {
    fn ty() -> String {
        "char".into()
    }
    fn gen_(rng: &mut Rng, _d: usize) -> Self {
        gen_char(rng)
    }
    fn sval(&self) -> String {
        format!("c:{:x}", *self as u32)
    }
    fn good_key() -> bool {
        true
    }
}

impl Z for String {
    fn ty() -> String {
        "string".into()
    }
    fn gen_(rng: &mut Rng, _d: usize) -> Self {
        match rng.below(10) {
            0 => String::new(),
            1 => rng.pick(&["a", "b", "A", "0", "1", "true", "x", "key", "none", "é"]).to_string(),
            // around the 21-byte inline limit of tera's SmartString: 15..=30 chars of one width class
            // or mixed widths, and texts of exactly 20 / 21 / 22 / 23 bytes
            2 => {
                let w = *rng.pick(&['a', 'é', 'я', '中', '😀']);
                std::iter::repeat_n(w, 1 + rng.below(26)).collect()
            }
            3 => (0..8 + rng.below(20)).map(|_| gen_char(rng)).collect(),
            4 => {
                let target = 19 + rng.below(6);
                let mut t = String::new();
                while t.len() < target {
                    let c = gen_char(rng);
                    if t.len() + c.len_utf8() <= target {
                        t.push(c);
                    } else {
                        t.push('x');
                    }
                }
                t
            }
            _ => (0..rng.below(6)).map(|_| gen_char(rng)).collect(),
        }
    }
    fn sval(&self) -> String {
        format!("s:{}", hex(self.as_bytes()))
    }
    fn good_key() -> bool {
        true
    }
}

impl Z for () {
    fn bad_key_value(&self) -> bool {
        true
    }
    fn ty() -> String {
        "unit".into()
    }
    fn gen_(_rng: &mut Rng, _d: usize) -> Self {}
    fn sval(&self) -> String {
        "unit".into()
    }
    fn none_like() -> bool {
        true
    }
}

impl Z for CString {
    fn bad_key_value(&self) -> bool {
        true
    }
    fn ty() -> String {
        "cstring".into()
    }
    fn gen_(rng: &mut Rng, _d: usize) -> Self {
        CString::new((0..rng.below(5)).map(|_| 1 + rng.below(255) as u8).collect::<Vec<u8>>()).unwrap()
    }
    fn sval(&self) -> String {
        format!("cs:{}", hex(self.as_bytes()))
    }
}

impl<T: Z> Z for Option<T> {
    fn bad_key_value(&self) -> bool {
        self.as_ref().is_none_or(|x| x.bad_key_value())
    }
    fn contains_bad_key(&self) -> bool {
        self.as_ref().is_some_and(|x| x.contains_bad_key())
    }
    fn ty() -> String {
        format!("option {}", T::ty())
    }
    fn gen_(rng: &mut Rng, d: usize) -> Self {
        if rng.chance(1, 3) { None } else { Some(T::gen_(rng, d)) }
    }
    fn sval(&self) -> String {
        match self {
            None => "none".into(),
            Some(x) => format!("some {}", x.sval()),
        }
    }
    fn none_like() -> bool {
        true
    }
    fn in_family() -> bool {
        T::in_family() && !T::none_like()
    }
}

fn gen_len(rng: &mut Rng, d: usize) -> usize {
    if d == 0 { rng.below(2) } else { *rng.pick(&[0, 1, 1, 2, 2, 3, 4]) }
}

impl<T: Z> Z for Vec<T> {
    fn bad_key_value(&self) -> bool {
        true
    }
    fn contains_bad_key(&self) -> bool {
        self.iter().any(|x| x.contains_bad_key())
    }
    fn ty() -> String {
        format!("seq {}", T::ty())
    }
    fn gen_(rng: &mut Rng, d: usize) -> Self {
        (0..gen_len(rng, d)).map(|_| T::gen_(rng, d.saturating_sub(1))).collect()
    }
    fn sval(&self) -> String {
        let mut s = format!("seq {}", self.len());
        for x in self {
            s.push(' ');
            s.push_str(&x.sval());
        }
        s
    }
    fn in_family() -> bool {
        T::in_family()
    }
}

macro_rules! z_tuple {
    ($n:expr; $($t:ident $i:tt),+) => {
        impl<$($t: Z),+> Z for ($($t,)+) {
            fn ty() -> String { format!("tuple {} {}", $n, [$($t::ty()),+].join(" ")) }
            fn gen_(rng: &mut Rng, d: usize) -> Self { ($($t::gen_(rng, d.saturating_sub(1)),)+) }
            fn sval(&self) -> String { format!("tuple {} {}", $n, [$(self.$i.sval()),+].join(" ")) }
            fn in_family() -> bool { $($t::in_family())&&+ }
            fn bad_key_value(&self) -> bool { true }
            fn contains_bad_key(&self) -> bool { $(self.$i.contains_bad_key())||+ }
        }
    };
}
z_tuple!(1; A 0);
z_tuple!(2; A 0, B 1);
z_tuple!(3; A 0, B 1, C 2);
z_tuple!(4; A 0, B 1, C 2, D 3);

fn map_sval<'a, K: Z + 'a, V: Z + 'a>(it: impl Iterator<Item = (&'a K, &'a V)>) -> String {
    let mut es: Vec<(String, String)> = it.map(|(k, v)| (k.sval(), v.sval())).collect();
    es.sort();
    let mut s = format!("map {}", es.len());
    for (k, v) in es {
        s.push(' ');
        s.push_str(&k);
        s.push(' ');
        s.push_str(&v);
    }
    s
}

impl<K: Z + Ord, V: Z> Z for BTreeMap<K, V> {
    fn bad_key_value(&self) -> bool {
        true
    }
    fn contains_bad_key(&self) -> bool {
        self.iter().any(|(k, v)| k.bad_key_value() || v.contains_bad_key())
    }
    fn ty() -> String {
        format!("map {} {}", K::ty(), V::ty())
    }
    fn gen_(rng: &mut Rng, d: usize) -> Self {
        (0..gen_len(rng, d)).map(|_| (K::gen_(rng, d.saturating_sub(1)), V::gen_(rng, d.saturating_sub(1)))).collect()
    }
    fn sval(&self) -> String {
        map_sval(self.iter())
    }
    fn in_family() -> bool {
        K::good_key() && V::in_family()
    }
}

impl<K: Z + Eq + std::hash::Hash, V: Z> Z for HashMap<K, V> {
    fn bad_key_value(&self) -> bool {
        true
    }
    fn contains_bad_key(&self) -> bool {
        self.iter().any(|(k, v)| k.bad_key_value() || v.contains_bad_key())
    }
    fn ty() -> String {
        format!("map {} {}", K::ty(), V::ty())
    }
    fn gen_(rng: &mut Rng, d: usize) -> Self {
        (0..gen_len(rng, d)).map(|_| (K::gen_(rng, d.saturating_sub(1)), V::gen_(rng, d.saturating_sub(1)))).collect()
    }
    fn sval(&self) -> String {
        map_sval(self.iter())
    }
    fn in_family() -> bool {
        K::good_key() && V::in_family()
    }
}

macro_rules! z_struct {
    ($name:ident { $($f:ident : $t:ty),+ $(,)? }) => {
        #[derive(Serialize, Deserialize, PartialEq, Debug, Clone)]
        struct $name { $($f: $t),+ }
        impl Z for $name {
            fn ty() -> String {
                let fs: Vec<String> = vec![$(format!("{} {}", hexname(stringify!($f)), <$t as Z>::ty())),+];
                format!("struct {} {}", fs.len(), fs.join(" "))
            }
            fn gen_(rng: &mut Rng, d: usize) -> Self { $name { $($f: <$t as Z>::gen_(rng, d.saturating_sub(1))),+ } }
            fn sval(&self) -> String {
                let fs: Vec<String> = vec![$(format!("{} {}", hexname(stringify!($f)), self.$f.sval())),+];
                format!("struct {} {}", fs.len(), fs.join(" "))
            }
            fn in_family() -> bool { $(<$t as Z>::in_family())&&+ }
            fn bad_key_value(&self) -> bool { true }
            fn contains_bad_key(&self) -> bool { $(self.$f.contains_bad_key())||+ }
        }
    };
}

macro_rules! z_newtype {
    ($name:ident($t:ty) $(, $extra:ident)*) => {
        #[derive(Serialize, Deserialize, PartialEq, Debug, Clone $(, $extra)*)]
        struct $name($t);
        impl Z for $name {
            fn ty() -> String { format!("newtype {}", <$t as Z>::ty()) }
            fn gen_(rng: &mut Rng, d: usize) -> Self { $name(<$t as Z>::gen_(rng, d)) }
            fn sval(&self) -> String { format!("newtype {}", self.0.sval()) }
            fn none_like() -> bool { <$t as Z>::none_like() }
            fn in_family() -> bool { <$t as Z>::in_family() }
            fn bad_key_value(&self) -> bool { self.0.bad_key_value() }
            fn contains_bad_key(&self) -> bool { self.0.contains_bad_key() }
        }
    };
}

macro_rules! z_tuple_struct2 {
    ($name:ident($a:ty, $b:ty)) => {
        #[derive(Serialize, Deserialize, PartialEq, Debug, Clone)]
        struct $name($a, $b);
        impl Z for $name {
            fn ty() -> String { format!("tuple 2 {} {}", <$a as Z>::ty(), <$b as Z>::ty()) }
            fn gen_(rng: &mut Rng, d: usize) -> Self { $name(<$a as Z>::gen_(rng, d.saturating_sub(1)), <$b as Z>::gen_(rng, d.saturating_sub(1))) }
            fn sval(&self) -> String { format!("tuple 2 {} {}", self.0.sval(), self.1.sval()) }
            fn in_family() -> bool { <$a as Z>::in_family() && <$b as Z>::in_family() }
            fn bad_key_value(&self) -> bool { true }
            fn contains_bad_key(&self) -> bool { self.0.contains_bad_key() || self.1.contains_bad_key() }
        }
    };
}

macro_rules! z_enum {
    ($name:ident {
        unit: [$($u:ident),*],
        newtype: [$($n:ident($nt:ty)),*],
        tuple2: [$($t:ident($ta:ty, $tb:ty)),*],
        strukt: [$($s:ident { $($sf:ident : $st:ty),+ }),*] $(,)?
    }) => {
        #[derive(Serialize, Deserialize, PartialEq, Debug, Clone)]
        enum $name { $($u,)* $($n($nt),)* $($t($ta, $tb),)* $($s { $($sf: $st),+ },)* }
        impl Z for $name {
            fn ty() -> String {
                #[allow(unused_mut)]
                let mut vs: Vec<String> = vec![];
                $( vs.push(format!("{} unit unit", hexname(stringify!($u)))); )*
                $( vs.push(format!("{} newtype {}", hexname(stringify!($n)), <$nt as Z>::ty())); )*
                $( vs.push(format!("{} tuple tuple 2 {} {}", hexname(stringify!($t)), <$ta as Z>::ty(), <$tb as Z>::ty())); )*
                $( {
                    let fs: Vec<String> = vec![$(format!("{} {}", hexname(stringify!($sf)), <$st as Z>::ty())),+];
                    vs.push(format!("{} struct struct {} {}", hexname(stringify!($s)), fs.len(), fs.join(" ")));
                } )*
                format!("enum {} {}", vs.len(), vs.join(" "))
            }
            fn gen_(rng: &mut Rng, d: usize) -> Self {
                let d = d.saturating_sub(1);
                let _ = d;
                #[allow(unused_mut)]
                let mut alts: Vec<Box<dyn Fn(&mut Rng) -> Self>> = vec![];
                $( alts.push(Box::new(|_r: &mut Rng| $name::$u)); )*
                $( alts.push(Box::new(move |r: &mut Rng| $name::$n(<$nt as Z>::gen_(r, d)))); )*
                $( alts.push(Box::new(move |r: &mut Rng| $name::$t(<$ta as Z>::gen_(r, d), <$tb as Z>::gen_(r, d)))); )*
                $( alts.push(Box::new(move |r: &mut Rng| $name::$s { $($sf: <$st as Z>::gen_(r, d)),+ })); )*
                let i = rng.below(alts.len());
                (alts[i])(rng)
            }
            fn sval(&self) -> String {
                match self {
                    $( $name::$u => format!("variant {} unit unit", hexname(stringify!($u))), )*
                    $( $name::$n(a) => format!("variant {} newtype {}", hexname(stringify!($n)), a.sval()), )*
                    $( $name::$t(a, b) => format!("variant {} tuple tuple 2 {} {}", hexname(stringify!($t)), a.sval(), b.sval()), )*
                    $( $name::$s { $($sf),+ } => {
                        let fs: Vec<String> = vec![$(format!("{} {}", hexname(stringify!($sf)), $sf.sval())),+];
                        format!("variant {} struct struct {} {}", hexname(stringify!($s)), fs.len(), fs.join(" "))
                    } )*
                }
            }
            fn bad_key_value(&self) -> bool {
                match self {
                    $( $name::$u => false, )*
                    #[allow(unreachable_patterns)]
                    _ => true,
                }
            }
            fn contains_bad_key(&self) -> bool {
                match self {
                    $( $name::$u => false, )*
                    $( $name::$n(a) => a.contains_bad_key(), )*
                    $( $name::$t(a, b) => a.contains_bad_key() || b.contains_bad_key(), )*
                    $( $name::$s { $($sf),+ } => false $(|| $sf.contains_bad_key())+, )*
                }
            }
            fn in_family() -> bool {
                true $(&& <$nt as Z>::in_family())* $(&& <$ta as Z>::in_family() && <$tb as Z>::in_family())* $($(&& <$st as Z>::in_family())+)*
            }
        }
    };
}

#[derive(Serialize, Deserialize, PartialEq, Eq, PartialOrd, Ord, Debug, Clone)]
struct UnitS;
impl Z for UnitS {
    fn bad_key_value(&self) -> bool {
        true
    }
    fn ty() -> String {
        "unitstruct".into()
    }
    fn gen_(_rng: &mut Rng, _d: usize) -> Self {
        UnitS
    }
    fn sval(&self) -> String {
        "unitstruct".into()
    }
    fn none_like() -> bool {
        true
    }
}


/// a float used as a map key: hand-written impls that emit `serialize_f64` / `serialize_f32`
macro_rules! float_key {
    ($name:ident, $f:ty, $ser:ident, $tyname:expr) => {
        #[derive(Debug, Clone, Copy)]
        struct $name($f);
        impl PartialEq for $name {
            fn eq(&self, o: &Self) -> bool {
                self.0.to_bits() == o.0.to_bits()
            }
        }
        impl Eq for $name {}
        impl PartialOrd for $name {
            fn partial_cmp(&self, o: &Self) -> Option<std::cmp::Ordering> {
                Some(self.cmp(o))
            }
        }
        impl Ord for $name {
            fn cmp(&self, o: &Self) -> std::cmp::Ordering {
                self.0.total_cmp(&o.0)
            }
        }
        impl Serialize for $name {
            fn serialize<S: serde::Serializer>(&self, s: S) -> Result<S::Ok, S::Error> {
                s.$ser(self.0)
            }
        }
        impl<'de> Deserialize<'de> for $name {
            fn deserialize<D: serde::Deserializer<'de>>(d: D) -> Result<Self, D::Error> {
                <$f>::deserialize(d).map($name)
            }
        }
        impl Z for $name {
            fn ty() -> String {
                $tyname.into()
            }
            fn gen_(rng: &mut Rng, d: usize) -> Self {
                match rng.below(4) {
                    0 => $name(*rng.pick(&[0.0, -0.0, 1.0, 2.0, -3.0, 1e6, 9007199254740992.0, 1e30])),
                    1 => $name(*rng.pick(&[0.5, -1.5, 1e-3, <$f>::NAN, <$f>::INFINITY, <$f>::NEG_INFINITY, <$f>::MAX, <$f>::MIN_POSITIVE])),
                    2 => $name(rng.range(-50, 50) as $f),
                    _ => $name(<$f as Z>::gen_(rng, d)),
                }
            }
            fn sval(&self) -> String {
                self.0.sval()
            }
            fn bad_key_value(&self) -> bool {
                true
            }
        }
    };
}
float_key!(FK64, f64, serialize_f64, "f64");
float_key!(FK32, f32, serialize_f32, "f32");

#[derive(Serialize, Deserialize, PartialEq, Eq, PartialOrd, Ord, Debug, Clone)]
struct SK {
    a: u8,
}
impl Z for SK {
    fn ty() -> String {
        format!("struct 1 {} u8", hexname("a"))
    }
    fn gen_(rng: &mut Rng, d: usize) -> Self {
        SK { a: u8::gen_(rng, d) }
    }
    fn sval(&self) -> String {
        format!("struct 1 {} {}", hexname("a"), self.a.sval())
    }
    fn bad_key_value(&self) -> bool {
        true
    }
}

// ------------------------------------------------------------------ the zoo

z_newtype!(W(i64));
z_newtype!(WV(Vec<Vec<i64>>));
z_newtype!(WS(String));
z_newtype!(WO(Option<i64>));
z_newtype!(WW(W));
z_newtype!(WU(()), PartialOrd, Ord, Eq);
z_newtype!(WT((i64, i64)));
z_newtype!(WK(u16), PartialOrd, Ord, Eq, Hash);
z_tuple_struct2!(T2(i64, String));
#[derive(Serialize, Deserialize, PartialEq, Eq, PartialOrd, Ord, Debug, Clone)]
struct T2K(u8, u8);
impl Z for T2K {
    fn ty() -> String {
        "tuple 2 u8 u8".into()
    }
    fn gen_(rng: &mut Rng, d: usize) -> Self {
        T2K(u8::gen_(rng, d), u8::gen_(rng, d))
    }
    fn sval(&self) -> String {
        format!("tuple 2 {} {}", self.0.sval(), self.1.sval())
    }
    fn bad_key_value(&self) -> bool {
        true
    }
}
z_tuple_struct2!(T2b(Option<u8>, Vec<char>));
z_struct!(S1 { a: i64, b: String, c: bool });
z_struct!(S2 { x: Option<i32>, y: Vec<u8>, z: (i8, char), f: f32, g: f64 });
z_struct!(S3 { inner: S1, list: Vec<S1>, w: W, opt: Option<S1> });
z_struct!(S4 { m: BTreeMap<String, i64>, h: HashMap<u8, String>, u: (), us: UnitS, big: u128, neg: i128 });
z_struct!(S5 { r#type: String, k1: E1, k2: E2, o: Option<E1>, v: Vec<E2> });
z_struct!(S6 { t: T2, ws: WS, wv: WV, c: char, u: usize, i: isize });
z_enum!(E1 { unit: [A, B, Article], newtype: [], tuple2: [], strukt: [] });
z_enum!(E2 {
    unit: [Nothing],
    newtype: [Num(i64), Text(String), Opt(Option<u8>), List(Vec<i16>), Wrapped(W), Unit(())],
    tuple2: [Pair(usize, usize), Mixed(String, Option<bool>)],
    strukt: [Other { truthy: bool }, Point { x: i32, y: i32, label: Option<String> }],
});
z_enum!(E3 {
    unit: [Leaf],
    newtype: [Inner(E1), Deep(E2), Map(BTreeMap<String, u8>), St(S1)],
    tuple2: [Two(E1, S1)],
    strukt: [Rec { e: E2, l: Vec<E1> }],
});


// ---- serde attributes: `#[serde(default, skip_serializing_if = …)]` on non-Option fields.  A skipped
// field is simply absent from the converted map (`skip_field` is serde's default no-op) and comes
// back as its default.  The Lean `de` has no notion of `#[serde(default)]`: the type text carries the
// marker `defaults!`, which the driver does not parse, and the de∘ser model comparison is not made
// for types containing it (the `ser` comparison, the round trip and the exact-keys oracle are).

fn is_zero(n: &u64) -> bool {
    *n == 0
}

#[derive(Serialize, Deserialize, PartialEq, Debug, Clone)]
struct SkipS {
    id: u32,
    #[serde(default, skip_serializing_if = "Vec::is_empty")]
    tags: Vec<String>,
    #[serde(default, skip_serializing_if = "String::is_empty")]
    note: String,
    #[serde(default, skip_serializing_if = "is_zero")]
    count: u64,
    #[serde(default, skip_serializing_if = "Option::is_none")]
    opt: Option<i8>,
    last: bool,
}

impl SkipS {
    fn present(&self) -> Vec<(&'static str, String)> {
        let mut fs = vec![("id", self.id.sval())];
        if !self.tags.is_empty() {
            fs.push(("tags", self.tags.sval()));
        }
        if !self.note.is_empty() {
            fs.push(("note", self.note.sval()));
        }
        if self.count != 0 {
            fs.push(("count", self.count.sval()));
        }
        if let Some(o) = &self.opt {
            fs.push(("opt", format!("some {}", o.sval())));
        }
        fs.push(("last", self.last.sval()));
        fs
    }
}

fn fields_sval(fs: &[(&'static str, String)]) -> String {
    let parts: Vec<String> = fs.iter().map(|(n, v)| format!("{} {v}", hexname(n))).collect();
    format!("struct {} {}", fs.len(), parts.join(" "))
}

impl Z for SkipS {
    fn ty() -> String {
        "defaults! struct SkipS".into()
    }
    fn gen_(rng: &mut Rng, d: usize) -> Self {
        let d = d.saturating_sub(1);
        SkipS {
            id: u32::gen_(rng, d),
            tags: if rng.chance(1, 2) { vec![] } else { (0..1 + rng.below(2)).map(|_| String::gen_(rng, d)).collect() },
            note: if rng.chance(1, 2) { String::new() } else { format!("n{}", String::gen_(rng, d)) },
            count: if rng.chance(1, 2) { 0 } else { 1 + rng.below(1000) as u64 },
            opt: Option::<i8>::gen_(rng, d),
            last: rng.chance(1, 2),
        }
    }
    fn sval(&self) -> String {
        fields_sval(&self.present())
    }
    fn expected_keys(&self) -> Option<Vec<String>> {
        Some(self.present().iter().map(|(n, _)| n.to_string()).collect())
    }
}

#[derive(Serialize, Deserialize, PartialEq, Debug, Clone)]
enum SkipE {
    Plain,
    Rec {
        #[serde(default, skip_serializing_if = "Vec::is_empty")]
        items: Vec<u8>,
        #[serde(default, skip_serializing_if = "String::is_empty")]
        name: String,
        n: i32,
    },
}

impl SkipE {
    fn present(&self) -> Vec<(&'static str, String)> {
        match self {
            SkipE::Plain => vec![],
            SkipE::Rec { items, name, n } => {
                let mut fs = vec![];
                if !items.is_empty() {
                    fs.push(("items", items.sval()));
                }
                if !name.is_empty() {
                    fs.push(("name", name.sval()));
                }
                fs.push(("n", n.sval()));
                fs
            }
        }
    }
}

impl Z for SkipE {
    fn ty() -> String {
        "defaults! enum SkipE".into()
    }
    fn gen_(rng: &mut Rng, d: usize) -> Self {
        let d = d.saturating_sub(1);
        if rng.chance(1, 5) {
            SkipE::Plain
        } else {
            SkipE::Rec {
                items: if rng.chance(1, 2) { vec![] } else { (0..1 + rng.below(3)).map(|_| u8::gen_(rng, d)).collect() },
                name: if rng.chance(1, 2) { String::new() } else { format!("x{}", String::gen_(rng, d)) },
                n: i32::gen_(rng, d),
            }
        }
    }
    fn sval(&self) -> String {
        match self {
            SkipE::Plain => format!("variant {} unit unit", hexname("Plain")),
            SkipE::Rec { .. } => format!("variant {} struct {}", hexname("Rec"), fields_sval(&self.present())),
        }
    }
    fn bad_key_value(&self) -> bool {
        !matches!(self, SkipE::Plain)
    }
}

z_struct!(S7 { head: SkipS, e: SkipE, list: Vec<SkipS>, tail: Option<SkipE> });

// ------------------------------------------------------------------ one case

fn engine() -> Tera {
    let mut tera = Tera::default();
    tera.autoescape_on(Vec::<&str>::new());
    tera.add_raw_templates(vec![("p", "{{ v }}"), ("idx", "{{ v[k] }}"), ("iter", "{% for a, b in v %}[{{ a }}={{ b }}]{% endfor %}")]).unwrap();
    tera
}

#[derive(Serialize)]
struct Wrap<'a, T> {
    v: &'a T,
}

fn render(tera: &Tera, ctx: &Context) -> String {
    match catch(std::panic::AssertUnwindSafe(|| tera.render("p", ctx))) {
        Err(p) => format!("panic {p}"),
        Ok(Ok(s)) => format!("ok {}", hexs(&s)),
        Ok(Err(e)) => format!("err {}", e.to_string().chars().take(60).collect::<String>()),
    }
}

/// `fmt` request: the std formatters the model takes as parameters are supplied for every float
/// and string of the value
fn fmt_request(v: &Value) -> String {
    fn walk(v: &Value, fl: &mut BTreeMap<u64, String>, st: &mut BTreeMap<String, String>) {
        use tera::value::ValueKind as K;
        match v.kind() {
            K::F64 => {
                let f = v.as_f64().unwrap();
                let bits = if f.is_nan() { 0x7ff8000000000000 } else { f.to_bits() };
                fl.insert(bits, format!("{f:?}"));
            }
            K::String => {
                let s = v.as_str().unwrap();
                st.insert(hexs(s), format!("{s:?}"));
            }
            K::Array => v.as_array().unwrap().iter().for_each(|x| walk(x, fl, st)),
            K::Map => {
                for (k, x) in v.as_map().unwrap() {
                    if let Some(s) = k.as_str() {
                        st.insert(hexs(s), format!("{s:?}"));
                    }
                    walk(x, fl, st);
                }
            }
            _ => {}
        }
    }
    let (mut fl, mut st) = (BTreeMap::new(), BTreeMap::new());
    walk(v, &mut fl, &mut st);
    let mut r = format!("fmt {}", fl.len());
    for (b, t) in &fl {
        r.push_str(&format!(" {b:016x}={}", hexs(t)));
    }
    r.push_str(&format!(" {}", st.len()));
    for (h, t) in &st {
        r.push_str(&format!(" {h}={}", hexs(t)));
    }
    r.push(' ');
    r.push_str(&encode(v));
    r
}

fn has_bytes(v: &Value) -> bool {
    use tera::value::ValueKind as K;
    match v.kind() {
        K::Bytes => true,
        K::Array => v.as_array().unwrap().iter().any(has_bytes),
        K::Map => v.as_map().unwrap().values().any(has_bytes),
        _ => false,
    }
}

#[derive(Default)]
struct Out {
    /// (request, implementation answer, stage)
    model: Vec<(String, String, &'static str)>,
    /// oracle failures (property broken on the implementation)
    fails: Vec<String>,
    checks: u64,
    tags: Vec<String>,
}

fn de_show<T: Z>(r: Result<Result<T, String>, String>) -> (String, Option<T>) {
    match r {
        Err(p) => (format!("panic {p}"), None),
        Ok(Err(_)) => ("err de".into(), None),
        Ok(Ok(y)) => (format!("ok {}", y.sval()), Some(y)),
    }
}

/// other types a value is read back as (ties the model's `de` beyond the round trip)
fn cross_reads(v: &Value, out: &mut Out) {
    fn one<U: Z>(v: &Value, out: &mut Out) {
        let r = catch(std::panic::AssertUnwindSafe(|| U::deserialize(v.clone()).map_err(|e| e.to_string())));
        let (shown, _) = de_show::<U>(r);
        if shown.starts_with("panic") {
            out.fails.push(format!("deserialize::<{}> panicked: {shown}", std::any::type_name::<U>()));
        }
        out.checks += 1;
        out.model.push((format!("de {} {}", U::ty(), encode(v)), shown, "de(cross-type)"));
    }
    one::<i8>(v, out);
    one::<u64>(v, out);
    one::<i128>(v, out);
    one::<f32>(v, out);
    one::<f64>(v, out);
    one::<char>(v, out);
    one::<String>(v, out);
    one::<Option<i64>>(v, out);
    one::<Vec<u8>>(v, out);
    one::<(i64, i64)>(v, out);
    one::<BTreeMap<String, i64>>(v, out);
    one::<BTreeMap<u8, String>>(v, out);
    one::<S1>(v, out);
    one::<E1>(v, out);
    one::<E2>(v, out);
    one::<W>(v, out);
    one::<UnitS>(v, out);
    one::<CString>(v, out);
}

/// `run_value_inner` with every panic turned into an observation: also code that merely LOOKS at a
/// converted value (`Key::as_value`, `Display`, lookups) belongs to the engine
fn run_value<T: Z>(tera: &Tera, x: &T, cross: bool) -> Out {
    match catch(std::panic::AssertUnwindSafe(|| run_value_inner(tera, x, cross))) {
        Ok(o) => o,
        Err(p) => {
            let mut o = Out::default();
            o.fails.push(format!("panic while converting / inspecting / printing {x:?}: {p}"));
            o
        }
    }
}

fn run_value_inner<T: Z>(tera: &Tera, x: &T, cross: bool) -> Out {
    let mut out = Out::default();
    let sv = x.sval();
    let ty = T::ty();
    // 1. serialisation
    let ser = catch(std::panic::AssertUnwindSafe(|| Value::try_from_serializable(x)));
    let v = match ser {
        Err(p) => {
            out.fails.push(format!("try_from_serializable panicked: {p}"));
            return out;
        }
        Ok(Err(e)) => {
            let msg = e.to_string();
            out.model.push((format!("ser {sv}"), if msg.contains("map key must be") { "err badkey".into() } else { format!("err {msg}") }, "ser"));
            out.checks += 1;
            if T::in_family() || !x.contains_bad_key() {
                out.fails.push(format!("a value without an unrepresentable key was refused: {msg}"));
            }
            // the other construction paths refuse it too (never alter it)
            let fs = catch(std::panic::AssertUnwindSafe(|| Context::from_serialize(&Wrap { v: x }).is_err()));
            out.checks += 1;
            if fs != Ok(true) {
                out.fails.push(format!("from_serialize did not refuse a value try_from_serializable refuses: {fs:?}"));
            }
            out.tags.push("ser.refused".into());
            return out;
        }
        Ok(Ok(v)) => v,
    };
    out.model.push((format!("ser {sv}"), format!("ok {}", encode(&v)), "ser"));
    if let Some(keys) = x.expected_keys() {
        out.checks += 1;
        let mut want = keys.clone();
        want.sort();
        let mut got: Vec<String> = v.as_map().map(|m| m.keys().map(|k| k.to_string()).collect()).unwrap_or_default();
        got.sort();
        if want != got {
            out.fails.push(format!("the converted struct has the entries {got:?}, the fields that are serialised are {want:?} (a skipped field must be absent)"));
        }
    }
    out.checks += 1;
    if x.contains_bad_key() {
        // the property: a key that is not a string, integer, char or bool is refused, not altered
        out.fails.push(format!("a map key that cannot be represented was accepted (altered): {x:?} became {v}"));
        return out;
    }
    // 2. the three entry points
    let owned = de_show::<T>(catch(std::panic::AssertUnwindSafe(|| T::deserialize(v.clone()).map_err(|e| e.to_string()))));
    let byref = de_show::<T>(catch(std::panic::AssertUnwindSafe(|| T::deserialize(&v).map_err(|e| e.to_string()))));
    let viavd = de_show::<T>(catch(std::panic::AssertUnwindSafe(|| tera::verif_hooks::deserialize_via_value_deserializer::<T>(v.clone()))));
    for (name, (shown, y)) in [("owned Value", &owned), ("&Value", &byref), ("ValueDeserializer", &viavd)] {
        out.checks += 1;
        if T::in_family() {
            // the property itself: the original comes back
            let same = y.as_ref().is_some_and(|y| y.sval() == sv && (sv.contains("f32:7fc00000") || sv.contains("f64:7ff8000000000000") || y == x));
            if !same {
                out.fails.push(format!("{name}: deserialize(serialize(x)) = {shown} for x = {x:?}"));
            }
        } else if shown.starts_with("panic") {
            out.fails.push(format!("{name}: panic {shown}"));
        }
    }
    out.checks += 1;
    if owned.0 != byref.0 || owned.0 != viavd.0 {
        out.fails.push(format!("entry points disagree: owned {} / &Value {} / ValueDeserializer {}", owned.0, byref.0, viavd.0));
    }
    if !ty.contains("defaults!") {
        out.model.push((format!("rt {ty} {sv}"), owned.0.clone(), "de∘ser"));
    }
    out.tags.push(if owned.0.starts_with("ok") { "rt.ok".into() } else { "rt.err".into() });
    // 3. printing: three ways to fill the context give one text
    let mut c1 = Context::new();
    let ins = catch(std::panic::AssertUnwindSafe(|| {
        c1.insert("v", x);
        c1
    }));
    let mut c2 = Context::new();
    c2.insert_value("v", v.clone());
    let c3 = catch(std::panic::AssertUnwindSafe(|| Context::from_serialize(&Wrap { v: x })));
    let p2 = render(tera, &c2);
    out.checks += 2;
    match ins {
        Ok(c1) => {
            let p1 = render(tera, &c1);
            if p1 != p2 {
                out.fails.push(format!("insert prints {p1}, insert_value prints {p2}"));
            }
        }
        Err(p) => out.fails.push(format!("Context::insert panicked on a serialisable value: {p}")),
    }
    match c3 {
        Ok(Ok(c3)) => {
            let p3 = render(tera, &c3);
            if p3 != p2 {
                out.fails.push(format!("from_serialize prints {p3}, insert_value prints {p2}"));
            }
        }
        other => out.fails.push(format!("Context::from_serialize failed on a serialisable struct: {:?}", other.map(|r| r.map(|_| ()).map_err(|e| e.to_string())))),
    }
    // Context::from_serialize(&x) itself (x a struct or a map): the bindings it creates
    if let Some(m) = v.as_map() {
        let shown = match catch(std::panic::AssertUnwindSafe(|| Context::from_serialize(x))) {
            Err(p) => format!("panic {p}"),
            Ok(Err(_)) => "err".to_string(),
            Ok(Ok(c)) => {
                let mut es: Vec<(String, String)> = m
                    .keys()
                    .map(|k| {
                        let name = k.to_string();
                        (hexs(&name), c.get(&name).map(encode).unwrap_or_else(|| "missing".into()))
                    })
                    .collect();
                es.sort();
                es.dedup();
                // direct oracle: from_serialize(x) binds the text of every key to that entry's value,
                // exactly what insert_value(key text, value) would store
                out.checks += 1;
                let distinct_texts = m.keys().map(|k| k.to_string()).collect::<HashSet<_>>().len() == m.len();
                if distinct_texts {
                    for (k, val) in m.iter() {
                        let mut c2 = Context::new();
                        c2.insert_value(k.to_string(), val.clone());
                        if c.get(&k.to_string()).map(encode) != c2.get(&k.to_string()).map(encode) {
                            out.fails.push(format!("from_serialize binds `{}` to {:?}, insert_value to {:?}", k, c.get(&k.to_string()), val));
                            break;
                        }
                    }
                }
                let mut t = format!("ok {}", es.len());
                for (k, x) in es {
                    t.push_str(&format!(" {k} {x}"));
                }
                t
            }
        };
        out.model.push((format!("ctx {sv}"), shown, "from_serialize"));
    }
    // an undefined / none top-level value renders as an error or empty: compare whatever it is
    if !has_bytes(&v) {
        let imp = if v.is_undefined() { p2.clone() } else { p2.clone() };
        out.model.push((fmt_request(&v), imp, "print"));
    }
    // integers print exactly as Rust prints them
    // a string prints as itself, byte for byte
    if let Some(h) = sv.strip_prefix("s:") {
        out.checks += 1;
        if p2 != format!("ok {}", if h.is_empty() { "-" } else { h }) {
            out.fails.push(format!("the string {x:?} prints as {p2}"));
        }
    }
    if let Some(rest) = sv.strip_prefix("i:") {
        let dec = rest.split(':').nth(1).unwrap();
        out.checks += 1;
        if p2 != format!("ok {}", hexs(dec)) {
            out.fails.push(format!("integer {dec} prints as {p2}"));
        }
    }
    if cross {
        cross_reads(&v, &mut out);
    }
    out
}

/// maps print in sorted key order whatever the insertion order / hasher state: the same entries in
/// a fresh HashMap (other RandomState, reverse insertion) give the same text, and the text of a
/// BTreeMap with these entries
fn map_order_oracle<K: Z + Ord + Eq + std::hash::Hash, V: Z>(tera: &Tera, m: &BTreeMap<K, V>, out: &mut Out) {
    let show = |v: &dyn Fn(&mut Context)| -> String {
        match catch(std::panic::AssertUnwindSafe(|| {
            let mut c = Context::new();
            v(&mut c);
            render(tera, &c)
        })) {
            Ok(t) => t,
            Err(p) => format!("panic {p}"),
        }
    };
    let mut texts = Vec::new();
    texts.push(show(&|c: &mut Context| c.insert("v", m)));
    for rev in [false, true] {
        let mut h: HashMap<K, V> = HashMap::with_capacity(if rev { 64 } else { 0 });
        let es: Vec<(&K, &V)> = if rev { m.iter().rev().collect() } else { m.iter().collect() };
        for (k, v) in es {
            h.insert(k.clone(), v.clone());
        }
        texts.push(show(&|c: &mut Context| c.insert("v", &h)));
    }
    out.checks += 1;
    if texts.iter().any(|t| *t != texts[0] || t.starts_with("panic")) {
        out.fails.push(format!("the same map prints differently (or cannot be inserted): {texts:?}; map = {}", m.sval()));
    }
}


// ------------------------------------------------------------------ value level: a `Value` given back to serde

use tera::value::Key;

fn rand_key_v(rng: &mut Rng) -> Key<'static> {
    match rng.below(10) {
        0 => Key::Bool(rng.chance(1, 2)),
        1 => Key::U64(*rng.pick(&[0, 1, 2, 9, 10, 11, 99, 100, 200, 1000, u64::MAX, 1 << 63])),
        2 => Key::I64(*rng.pick(&[-1, -2, -10, -9, -100, i64::MIN, i64::MAX, 0, 1, 5, 10, 20])),
        3 => Key::U128(*rng.pick(&[u128::MAX, 1u128 << 64, 7, 70, 700])),
        4 => Key::I128(*rng.pick(&[i128::MIN, i128::MAX, -(1i128 << 64), -7, -70, 3, 30])),
        5 => Key::I64(rng.range(-1200, 1200)),
        6 => Key::U64(rng.below(100_000) as u64),
        7 => Key::from(rng.pick(&["a", "b", "B", "key", "", "true", "false", "1", "10", "9", "-1", "é", "z"]).to_string()),
        _ => Key::from(String::gen_(rng, 0)),
    }
}

/// `plain`: no undefined and no safe string (what a conversion of Rust data can produce)
fn rand_value_v(rng: &mut Rng, depth: usize, plain: bool) -> Value {
    let top = if depth == 0 { 9 } else { 13 };
    match rng.below(top) {
        0 => Value::none(),
        1 => Value::from(rng.chance(1, 2)),
        2 => Value::from(u64::gen_(rng, 0)),
        3 => Value::from(i64::gen_(rng, 0)),
        4 => Value::from(u128::gen_(rng, 0)),
        5 => Value::from(i128::gen_(rng, 0)),
        6 => Value::from(f64::gen_(rng, 0)),
        7 => {
            let s = String::gen_(rng, 0);
            if !plain && rng.chance(1, 3) { Value::safe_string(&s) } else { Value::from(s.as_str()) }
        }
        8 => {
            if !plain && rng.chance(1, 2) {
                Value::undefined()
            } else {
                Value::bytes((0..rng.below(4)).map(|_| rng.below(256) as u8).collect::<Vec<u8>>())
            }
        }
        9 => Value::from((0..rng.below(4)).map(|_| rand_value_v(rng, depth - 1, plain)).collect::<Vec<Value>>()),
        _ => {
            let mut m = tera::Map::new();
            for _ in 0..rng.below(6) {
                m.insert(rand_key_v(rng), rand_value_v(rng, depth - 1, plain));
            }
            Value::from(m)
        }
    }
}

/// the order of `impl Ord for Key` as the documentation states it, written independently:
/// bools, then integers by exact value whatever their width, then strings by bytes
fn key_cmp_ref(a: &Key<'_>, b: &Key<'_>) -> std::cmp::Ordering {
    fn rank(k: &Key<'_>) -> u8 {
        match k {
            Key::Bool(_) => 0,
            Key::U64(_) | Key::I64(_) | Key::U128(_) | Key::I128(_) => 1,
            _ => 2,
        }
    }
    /// (negative?, magnitude)
    fn num(k: &Key<'_>) -> Option<(bool, u128)> {
        Some(match k {
            Key::U64(n) => (false, *n as u128),
            Key::U128(n) => (false, *n),
            Key::I64(n) => (*n < 0, n.unsigned_abs() as u128),
            Key::I128(n) => (*n < 0, n.unsigned_abs()),
            _ => return None,
        })
    }
    match (a, b) {
        (Key::Bool(x), Key::Bool(y)) => x.cmp(y),
        _ => match (num(a), num(b)) {
            (Some((na, ma)), Some((nb, mb))) => match (na, nb) {
                (false, false) => ma.cmp(&mb),
                (true, true) => mb.cmp(&ma),
                (true, false) => std::cmp::Ordering::Less,
                (false, true) => std::cmp::Ordering::Greater,
            },
            _ => match (a.as_str(), b.as_str()) {
                (Some(x), Some(y)) => x.as_bytes().cmp(y.as_bytes()),
                _ => rank(a).cmp(&rank(b)),
            },
        },
    }
}

fn render_tpl(tera: &Tera, tpl: &str, ctx: &Context) -> String {
    match catch(std::panic::AssertUnwindSafe(|| tera.render(tpl, ctx))) {
        Err(p) => format!("panic {p}"),
        Ok(Ok(s)) => format!("ok {}", hexs(&s)),
        Ok(Err(_)) => "err".to_string(),
    }
}

fn print_of(tera: &Tera, v: &Value) -> Option<String> {
    let mut c = Context::new();
    c.insert_value("v", v.clone());
    match catch(std::panic::AssertUnwindSafe(|| tera.render("p", &c))) {
        Ok(Ok(s)) => Some(s),
        _ => None,
    }
}

/// Maps print in sorted KEY order, checked without a model of the format: every entry is printed
/// on its own (as a single-entry map, by the engine), and the text of the whole map must be those
/// entry texts in the order of the keys (`key_cmp_ref`), between one pair of braces, joined by one
/// constant separator. Applied to every map inside the value.
fn key_order_oracle(tera: &Tera, v: &Value, out: &mut Out) {
    if let Some(a) = v.as_array() {
        a.iter().for_each(|x| key_order_oracle(tera, x, out));
    }
    let Some(m) = v.as_map() else { return };
    m.values().for_each(|x| key_order_oracle(tera, x, out));
    if m.len() < 2 {
        return;
    }
    let mut es: Vec<(&Key<'static>, &Value)> = m.iter().collect();
    es.sort_by(|a, b| key_cmp_ref(a.0, b.0));
    let mut parts: Vec<String> = Vec::new();
    for (k, x) in &es {
        let mut single = tera::Map::new();
        single.insert((*k).clone(), (*x).clone());
        match print_of(tera, &Value::from(single)) {
            Some(t) if t.len() >= 2 => parts.push(t[1..t.len() - 1].to_string()),
            _ => return, // printing itself failed: reported elsewhere
        }
    }
    let Some(full) = print_of(tera, v) else { return };
    out.checks += 1;
    let ok = (0..=3usize).any(|d| {
        // separator = the d bytes that follow the first entry
        let start = 1 + parts[0].len();
        let Some(sep) = full.get(start..start + d) else { return false };
        let mut want = String::from(&full[..1]);
        want.push_str(&parts.join(sep));
        want.push_str(&full[full.len() - 1..]);
        want == full
    });
    if !ok {
        let keys: Vec<String> = es.iter().map(|(k, _)| k.to_string()).collect();
        out.fails.push(format!("map does not print its entries in key order {keys:?}: `{full}`"));
    }
}

fn is_plain(v: &Value) -> bool {
    use tera::value::ValueKind as K;
    match v.kind() {
        K::Undefined => false,
        K::String => !v.is_safe(),
        K::Array => v.as_array().unwrap().iter().all(is_plain),
        K::Map => v.as_map().unwrap().values().all(is_plain),
        _ => true,
    }
}

/// A `Value` handed to serde again (`Context::insert(k, &value)`, `Value::from_serializable(&value)`):
/// `impl Serialize for Value / Key` composed with `ValueSerializer` is the identity on converted
/// values, so `insert` and `insert_value` are interchangeable.
fn run_value_level(tera: &Tera, v: &Value) -> Out {
    let mut out = Out::default();
    let plain = is_plain(v);
    out.tags.push(if plain { "value.plain".into() } else { "value.with_safe_or_undefined".into() });
    // 1. second conversion
    let again = catch(std::panic::AssertUnwindSafe(|| Value::try_from_serializable(v)));
    let shown = match &again {
        Err(p) => format!("panic {p}"),
        Ok(Err(e)) => if e.to_string().contains("map key must be") { "err badkey".into() } else { "err".into() },
        Ok(Ok(v2)) => format!("ok {}", encode(v2)),
    };
    out.model.push((format!("reser {}", encode(v)), shown.clone(), "reser"));
    out.checks += 1;
    if plain && shown != format!("ok {}", encode(v)) {
        out.fails.push(format!("Value::from_serializable(&value) is not the value: {} became {shown}", encode(v)));
    }
    // 2. insert(&value) and insert_value(value) are interchangeable: printing, lookups by every key
    //    and index, iteration
    let c1 = catch(std::panic::AssertUnwindSafe(|| {
        let mut c = Context::new();
        c.insert("v", v);
        c
    }));
    let mut c2 = Context::new();
    c2.insert_value("v", v.clone());
    match c1 {
        Err(p) => out.fails.push(format!("Context::insert(&value) panicked: {p}")),
        Ok(mut c1) => {
            let mut probes: Vec<(String, Option<Value>)> = vec![("p".into(), None)];
            if let Some(m) = v.as_map() {
                probes.push(("iter".into(), None));
                for k in m.keys() {
                    probes.push(("idx".into(), Some(k.as_value())));
                }
            }
            if let Some(a) = v.as_array() {
                for i in 0..a.len().min(3) {
                    probes.push(("idx".into(), Some(Value::from(i as u64))));
                }
            }
            for (tpl, k) in probes {
                if let Some(k) = &k {
                    c1.insert_value("k", k.clone());
                    c2.insert_value("k", k.clone());
                }
                let (a, b) = (render_tpl(tera, &tpl, &c1), render_tpl(tera, &tpl, &c2));
                out.checks += 1;
                if a.starts_with("panic") || b.starts_with("panic") {
                    out.fails.push(format!("panic rendering `{tpl}`: {a} / {b}"));
                } else if plain && a != b {
                    out.fails.push(format!("insert(&value) and insert_value(value) differ on template `{tpl}`{}: {a} vs {b}", k.as_ref().map(|k| format!(" with k = {k}")).unwrap_or_default()));
                    break;
                }
            }
        }
    }
    // 3. key order of every map inside, and the whole text against the model
    key_order_oracle(tera, v, &mut out);
    // (a top-level undefined is refused by the VM before it is formatted)
    if !has_bytes(v) && !v.is_undefined() {
        out.model.push((fmt_request(v), render(tera, &c2), "print(value-level)"));
    }
    out
}

fn run_values(tera: &Tera, seed: u64, n: usize) -> TypeRun {
    let mut rng = Rng::new(seed ^ 0x7a1e);
    let mut outs = Vec::with_capacity(n + 8);
    let mut fixed: Vec<Value> = Vec::new();
    // integer keys that differ in digit count and sign; every key kind in one map; bool keys
    for keys in [vec![9i64, 10, 200, 1000], vec![-2, -1, 0, 1], vec![-10, -9, 9, 10, 100]] {
        let mut m = tera::Map::new();
        for k in keys {
            m.insert(Key::I64(k), Value::from(k));
        }
        fixed.push(Value::from(m));
    }
    let mut m = tera::Map::new();
    m.insert(Key::Bool(false), Value::from(0));
    m.insert(Key::Bool(true), Value::from(1));
    fixed.push(Value::from(m.clone()));
    m.insert(Key::U64(10), Value::from("ten"));
    m.insert(Key::I64(-3), Value::from("minus three"));
    m.insert(Key::U128(9), Value::from("nine"));
    m.insert(Key::from("10".to_string()), Value::from("string ten"));
    m.insert(Key::from("B".to_string()), Value::from(vec![Value::from(fixed[0].clone())]));
    fixed.push(Value::from(m));
    for v in fixed {
        outs.push((encode(&v), run_value_level(tera, &v)));
    }
    // constructing a Value is itself code under study (`Value::from(&str)`, `safe_string`, `Key::from`):
    // a panic there is an observation, not a crash of the harness
    let mut guarded = |desc: String, mk: &mut dyn FnMut() -> Value| {
        match catch(std::panic::AssertUnwindSafe(|| {
            let v = mk();
            (encode(&v), run_value_level(tera, &v))
        })) {
            Ok(r) => outs.push(r),
            Err(p) => {
                let mut o = Out::default();
                o.fails.push(format!("building / converting the value panicked ({desc}): {p}"));
                outs.push((desc, o));
            }
        }
    };
    for t in boundary_strings() {
        guarded(format!("s:{}", hex(t.as_bytes())), &mut || Value::from(t.as_str()));
        guarded(format!("S:{}", hex(t.as_bytes())), &mut || Value::safe_string(&t));
        guarded(format!("M1 s:{} s:{}", hex(t.as_bytes()), hex(t.as_bytes())), &mut || {
            let mut m = tera::Map::new();
            m.insert(Key::from(t.clone()), Value::from(vec![Value::from(t.as_str())]));
            Value::from(m)
        });
    }
    for i in 0..n {
        let d = 1 + rng.below(3);
        let mut r2 = rng.fork();
        guarded(format!("random value #{i}"), &mut || rand_value_v(&mut r2, d, i % 5 != 0));
    }
    TypeRun { name: "tera::Value", ty: "value".into(), in_family: false, outs }
}

// ------------------------------------------------------------------ args.rs: the typed readers

use tera::{ArgFromValue, Kwargs};

fn arg_show<T: Z>(r: Result<Result<T, tera::Error>, String>) -> String {
    match r {
        Err(p) => format!("panic {p}"),
        Ok(Ok(y)) => format!("ok {}", y.sval()),
        Ok(Err(e)) => match e.kind() {
            tera::ErrorKind::InvalidArgument { .. } => "err type".into(),
            tera::ErrorKind::OutOfRangeArgument { .. } => "err range".into(),
            _ => format!("err other {e}"),
        },
    }
}

/// one value read as `T` through every public typed reader: `T::try_from(Value)`,
/// `ArgFromValue::from_value(&Value)`, `Kwargs::get::<T>`, `Kwargs::must_get::<T>`
fn arg_one<T>(v: &Value, name: &str, out: &mut Out) -> String
where
    T: Z + TryFrom<Value, Error = tera::Error> + for<'k> ArgFromValue<'k, Output = T>,
{
    let kw = Kwargs::from([("k", v.clone())]);
    let a = arg_show::<T>(catch(std::panic::AssertUnwindSafe(|| T::try_from(v.clone()))));
    let b = arg_show::<T>(catch(std::panic::AssertUnwindSafe(|| <T as ArgFromValue>::from_value(v))));
    let c = arg_show::<T>(catch(std::panic::AssertUnwindSafe(|| kw.get::<T>("k").map(|o| o.unwrap()))));
    let d = arg_show::<T>(catch(std::panic::AssertUnwindSafe(|| kw.must_get::<T>("k"))));
    out.checks += 1;
    if a != b || a != c || a != d || a.starts_with("panic") {
        out.fails.push(format!("typed readers of {name} disagree on {}: try_from {a} / from_value {b} / Kwargs::get {c} / must_get {d}", encode(v)));
    }
    out.model.push((format!("arg {name} {}", encode(v)), a.clone(), "args.rs readers"));
    a
}

macro_rules! arg_matrix {
    ($v:expr, $out:expr) => {{
        arg_one::<i8>($v, "i8", $out);
        arg_one::<i16>($v, "i16", $out);
        arg_one::<i32>($v, "i32", $out);
        arg_one::<i64>($v, "i64", $out);
        arg_one::<i128>($v, "i128", $out);
        arg_one::<isize>($v, "i64", $out);
        arg_one::<u8>($v, "u8", $out);
        arg_one::<u16>($v, "u16", $out);
        arg_one::<u32>($v, "u32", $out);
        arg_one::<u64>($v, "u64", $out);
        arg_one::<u128>($v, "u128", $out);
        arg_one::<usize>($v, "u64", $out);
        arg_one::<f32>($v, "f32", $out);
        arg_one::<f64>($v, "f64", $out);
        arg_one::<bool>($v, "bool", $out);
    }};
}

#[derive(Deserialize)]
struct KW<T> {
    k: T,
}

/// "reading it back into the same Rust type returns the original" through the typed readers
fn arg_roundtrip<T>(x: &T, name: &str, matrix: bool) -> Out
where
    T: Z + TryFrom<Value, Error = tera::Error> + for<'k> ArgFromValue<'k, Output = T>,
{
    let mut out = Out::default();
    let v = Value::from_serializable(x);
    let got = arg_one::<T>(&v, name, &mut out);
    out.checks += 2;
    if got != format!("ok {}", x.sval()) {
        out.fails.push(format!("{name}: the typed readers (try_from / Kwargs::get) give {got} for {x:?}"));
    }
    // and `Kwargs::deserialize` (serde through `&Value`)
    let kw = Kwargs::from([("k", v.clone())]);
    let de = match catch(std::panic::AssertUnwindSafe(|| kw.deserialize::<KW<T>>())) {
        Ok(Ok(w)) => format!("ok {}", w.k.sval()),
        Ok(Err(_)) => "err".into(),
        Err(p) => format!("panic {p}"),
    };
    if de != format!("ok {}", x.sval()) {
        out.fails.push(format!("{name}: Kwargs::deserialize gives {de} for {x:?}"));
    }
    if matrix {
        arg_matrix!(&v, &mut out);
    }
    out
}

fn run_args(seed: u64, n: usize) -> TypeRun {
    let mut rng = Rng::new(seed ^ 0xa465);
    let mut outs: Vec<(String, Out)> = Vec::new();
    macro_rules! rt {
        ($t:ty, $name:expr, $x:expr, $m:expr) => {{
            let x: $t = $x;
            let o = catch(std::panic::AssertUnwindSafe(|| arg_roundtrip::<$t>(&x, $name, $m))).unwrap_or_else(|p| {
                let mut o = Out::default();
                o.fails.push(format!("panic in the typed readers for {x:?}: {p}"));
                o
            });
            outs.push((format!("{} {}", $name, x.sval()), o));
        }};
    }
    // floats: ±inf, NaN, ±0.0, subnormals, MAX, the edge of f32's range
    for x in [f32::INFINITY, f32::NEG_INFINITY, f32::NAN, 0.0, -0.0, f32::MAX, f32::MIN, f32::MIN_POSITIVE, 1e-45, -1e-45, 1.17549421e-38, 16777216.0, 16777217.0, 0.1] {
        rt!(f32, "f32", x, true);
    }
    for x in [
        f64::INFINITY, f64::NEG_INFINITY, f64::NAN, 0.0, -0.0, f64::MAX, f64::MIN, f64::MIN_POSITIVE, 5e-324,
        f32::MAX as f64, -(f32::MAX as f64), 3.4028235677973366e38, 3.4028235677973362e38, 3.402823567797337e38, 3.4028236e38, 1e39, -1e39,
        1e-45, 7.006492321624085e-46, 7.006492321624087e-46, 1e-46, 2.0, 2.5, -1.0, 255.0, 256.0, 1.7014118346046923e38, -1.7014118346046923e38, 1.7014118346046921e38, 3.4028236692093846e38, 1e300,
    ] {
        rt!(f64, "f64", x, true);
    }
    for _ in 0..n {
        let m = rng.chance(1, 3);
        match rng.below(15) {
            0 => rt!(i8, "i8", Z::gen_(&mut rng, 0), m),
            1 => rt!(i16, "i16", Z::gen_(&mut rng, 0), m),
            2 => rt!(i32, "i32", Z::gen_(&mut rng, 0), m),
            3 => rt!(i64, "i64", Z::gen_(&mut rng, 0), m),
            4 => rt!(i128, "i128", Z::gen_(&mut rng, 0), m),
            5 => rt!(isize, "i64", Z::gen_(&mut rng, 0), m),
            6 => rt!(u8, "u8", Z::gen_(&mut rng, 0), m),
            7 => rt!(u16, "u16", Z::gen_(&mut rng, 0), m),
            8 => rt!(u32, "u32", Z::gen_(&mut rng, 0), m),
            9 => rt!(u64, "u64", Z::gen_(&mut rng, 0), m),
            10 => rt!(u128, "u128", Z::gen_(&mut rng, 0), m),
            11 => rt!(usize, "u64", Z::gen_(&mut rng, 0), m),
            12 => rt!(f32, "f32", Z::gen_(&mut rng, 0), m),
            13 => rt!(f64, "f64", Z::gen_(&mut rng, 0), m),
            _ => rt!(bool, "bool", Z::gen_(&mut rng, 0), m),
        }
    }
    // other kinds read as numbers
    for v in [Value::from("1"), Value::none(), Value::undefined(), Value::from(vec![Value::from(1)]), Value::bytes(vec![1u8])] {
        let mut o = Out::default();
        arg_matrix!(&v, &mut o);
        outs.push((format!("other {}", encode(&v)), o));
    }
    TypeRun { name: "tera::args (typed readers)", ty: "args".into(), in_family: true, outs }
}

// ------------------------------------------------------------------ context histories

/// Several writes under ONE key through every construction path; after every step the binding
/// must be what a context built with `insert_value` alone holds (kind tree and rendering).
fn ctx_history(tera: &Tera, steps: &[(usize, Value)]) -> (String, Out) {
    match catch(std::panic::AssertUnwindSafe(|| ctx_history_inner(tera, steps))) {
        Ok(r) => r,
        Err(p) => {
            let mut o = Out::default();
            o.fails.push(format!("panic during a context history of {} steps: {p}", steps.len()));
            ("hist (panic)".into(), o)
        }
    }
}

fn ctx_history_inner(tera: &Tera, steps: &[(usize, Value)]) -> (String, Out) {
    let mut out = Out::default();
    let mut ctx = Context::new();
    let mut reference = Context::new();
    let mut desc = String::new();
    for (i, (path, val)) in steps.iter().enumerate() {
        let name = ["insert", "insert_value", "from_serialize+extend", "insert-into-other+extend", "remove"][*path];
        desc.push_str(&format!("{}{name}:{}", if i > 0 { " | " } else { "" }, encode(val)));
        let r = catch(std::panic::AssertUnwindSafe(|| {
            let mut ctx = ctx.clone();
            match path {
                0 => ctx.insert("v", val),
                1 => ctx.insert_value("v", val.clone()),
                2 => ctx.extend(Context::from_serialize(&Wrap { v: val }).expect("from_serialize")),
                3 => {
                    let mut other = Context::new();
                    other.insert("v", val);
                    ctx.extend(other);
                }
                _ => {
                    ctx.remove("v");
                }
            }
            ctx
        }));
        match r {
            Ok(c) => ctx = c,
            Err(p) => {
                out.fails.push(format!("history `{desc}`: panic {p}"));
                break;
            }
        }
        if *path == 4 {
            reference.remove("v");
        } else {
            reference.insert_value("v", val.clone());
        }
        out.checks += 2;
        let (a, b) = (ctx.get("v").map(encode), reference.get("v").map(encode));
        if a != b {
            out.fails.push(format!("after `{desc}` the key holds {a:?}; with insert_value alone it holds {b:?}"));
            break;
        }
        let (a, b) = (render(tera, &ctx), render(tera, &reference));
        if a != b {
            out.fails.push(format!("after `{desc}` `{{{{ v }}}}` renders {a}; with insert_value alone {b}"));
            break;
        }
    }
    (format!("hist {desc}"), out)
}

fn run_ctx_histories(tera: &Tera, seed: u64, n: usize) -> TypeRun {
    let mut rng = Rng::new(seed ^ 0xc7c7);
    let mut outs = Vec::new();
    // every ordered pair of write paths under the same key, with two different values
    for a in 0..4 {
        for b in 0..4 {
            outs.push(ctx_history(tera, &[(a, Value::from(1)), (b, Value::from("two"))]));
            outs.push(ctx_history(tera, &[(a, Value::from(1)), (4, Value::none()), (b, Value::from(2))]));
        }
    }
    for _ in 0..n {
        let len = 2 + rng.below(3);
        let mut r2 = rng.fork();
        match catch(std::panic::AssertUnwindSafe(|| {
            let steps: Vec<(usize, Value)> = (0..len)
                .map(|_| {
                    let p = if r2.chance(1, 10) { 4 } else { r2.below(4) };
                    let d = r2.below(3);
                    (p, rand_value_v(&mut r2, d, true))
                })
                .collect();
            ctx_history(tera, &steps)
        })) {
            Ok(r) => outs.push(r),
            Err(p) => {
                let mut o = Out::default();
                o.fails.push(format!("building a value for a context history panicked: {p}"));
                outs.push(("hist (panic while building)".into(), o));
            }
        }
    }
    TypeRun { name: "tera::Context (histories)", ty: "context".into(), in_family: true, outs }
}

struct TypeRun {
    name: &'static str,
    ty: String,
    in_family: bool,
    outs: Vec<(String, Out)>,
}

fn run_type<T: Z>(tera: &Tera, seed: u64, n: usize, cross_every: usize) -> TypeRun {
    let mut rng = Rng::new(seed ^ (std::any::type_name::<T>().bytes().fold(0u64, |a, b| a.wrapping_mul(131).wrapping_add(b as u64))));
    let mut outs = Vec::with_capacity(n);
    for i in 0..n {
        let x = T::gen_(&mut rng, 3);
        let o = run_value::<T>(tera, &x, cross_every != 0 && i % cross_every == 0);
        outs.push((x.sval(), o));
    }
    TypeRun { name: std::any::type_name::<T>(), ty: T::ty(), in_family: T::in_family(), outs }
}

fn run_fixed<T: Z>(tera: &Tera, xs: Vec<T>) -> TypeRun {
    let outs = xs.iter().map(|x| (x.sval(), run_value::<T>(tera, x, true))).collect();
    TypeRun { name: std::any::type_name::<T>(), ty: T::ty(), in_family: T::in_family(), outs }
}

/// regression values: F9 (top-level Option / enum through `&Value`), F11 (newtype structs: `W(5)`
/// was refused, `WV([[],[1]])` came back as `WV([])`), widths' extremes, the one-char / empty strings
/// every seed: for each UTF-8 width (1, 2, 2, 3, 4 bytes per char) every length 1..=24 chars — the
/// window where char count and byte count fall on different sides of the 21-byte inline limit of
/// the engine's string representation — plus mixed-width texts of 19..=24 bytes
fn boundary_strings() -> Vec<String> {
    let mut out = Vec::new();
    for w in ['a', 'é', 'я', '中', '😀'] {
        for n in 1..=24 {
            out.push(std::iter::repeat_n(w, n).collect::<String>());
        }
    }
    for n in 19..=24usize {
        let mut t = String::from("é中😀"); // 9 bytes
        while t.len() < n {
            t.push('x');
        }
        out.push(t);
    }
    out
}

fn fixed_runs(tera: &Tera) -> Vec<TypeRun> {
    let bs = boundary_strings();
    let mut runs = vec![
        // the boundary strings in every position: bare, newtype, Option, nested sequence, tuple,
        // struct field, map key, map value, enum payloads (newtype / tuple / struct variant), char-keyed
        run_fixed::<String>(tera, bs.clone()),
        run_fixed::<WS>(tera, bs.iter().map(|t| WS(t.clone())).collect()),
        run_fixed::<Option<String>>(tera, bs.iter().map(|t| Some(t.clone())).collect()),
        run_fixed::<Vec<Vec<String>>>(tera, bs.iter().map(|t| vec![vec![t.clone(), String::new()], vec![t.clone()]]).collect()),
        run_fixed::<(u8, String)>(tera, bs.iter().map(|t| (1, t.clone())).collect()),
        run_fixed::<S1>(tera, bs.iter().map(|t| S1 { a: 1, b: t.clone(), c: true }).collect()),
        run_fixed::<BTreeMap<String, i64>>(tera, bs.iter().map(|t| BTreeMap::from([(t.clone(), 1), ("k".to_string(), 2)])).collect()),
        run_fixed::<HashMap<String, Vec<Option<i64>>>>(tera, bs.iter().map(|t| HashMap::from([(t.clone(), vec![Some(1)])])).collect()),
        run_fixed::<BTreeMap<u8, String>>(tera, bs.iter().map(|t| BTreeMap::from([(7u8, t.clone())])).collect()),
        run_fixed::<E2>(tera, bs.iter().flat_map(|t| [E2::Text(t.clone()), E2::Mixed(t.clone(), Some(true)), E2::Point { x: 1, y: 2, label: Some(t.clone()) }]).collect()),
        run_fixed::<S3>(tera, bs.iter().map(|t| { let i = S1 { a: 0, b: t.clone(), c: false }; S3 { inner: i.clone(), list: vec![i.clone()], w: W(1), opt: Some(i) } }).collect()),
        run_fixed::<BTreeMap<String, E3>>(tera, bs.iter().map(|t| BTreeMap::from([(t.clone(), E3::St(S1 { a: 0, b: t.clone(), c: false }))])).collect()),
    ];
    runs.extend(fixed_runs_regression(tera));
    runs
}

fn fixed_runs_regression(tera: &Tera) -> Vec<TypeRun> {
    vec![
        // skip_serializing_if: every skippable field skipped / none skipped
        run_fixed::<SkipS>(tera, vec![
            SkipS { id: 1, tags: vec![], note: String::new(), count: 0, opt: None, last: true },
            SkipS { id: 1, tags: vec!["t".into()], note: "n".into(), count: 3, opt: Some(-1), last: false },
            SkipS { id: 0, tags: vec![], note: "n".into(), count: 0, opt: None, last: false },
        ]),
        run_fixed::<SkipE>(tera, vec![
            SkipE::Plain,
            SkipE::Rec { items: vec![], name: String::new(), n: 0 },
            SkipE::Rec { items: vec![1, 2], name: "x".into(), n: -5 },
        ]),
        run_fixed::<Vec<SkipE>>(tera, vec![vec![SkipE::Rec { items: vec![], name: String::new(), n: 7 }]]),
        run_fixed::<W>(tera, vec![W(5), W(i64::MIN)]),
        run_fixed::<WV>(tera, vec![WV(vec![vec![], vec![1]]), WV(vec![vec![]]), WV(vec![]), WV(vec![vec![1], vec![2]])]),
        run_fixed::<Vec<WV>>(tera, vec![vec![WV(vec![vec![], vec![1]])]]),
        run_fixed::<Option<W>>(tera, vec![Some(W(1)), None]),
        run_fixed::<WT>(tera, vec![WT((1, 2))]),
        run_fixed::<WS>(tera, vec![WS("hi".into()), WS(String::new())]),
        run_fixed::<E2>(tera, vec![E2::Wrapped(W(3)), E2::Nothing, E2::Unit(()), E2::Opt(None), E2::Opt(Some(0))]),
        run_fixed::<BTreeMap<WK, i64>>(tera, vec![BTreeMap::from([(WK(1), 2)])]),
        run_fixed::<Option<i64>>(tera, vec![Some(5), None]),
        run_fixed::<E1>(tera, vec![E1::A, E1::Article]),
        run_fixed::<u64>(tera, vec![u64::MAX, i64::MAX as u64 + 1, i64::MAX as u64]),
        run_fixed::<u128>(tera, vec![u128::MAX, u64::MAX as u128 + 1]),
        run_fixed::<i128>(tera, vec![i128::MIN, i128::MAX, i64::MIN as i128 - 1]),
        run_fixed::<String>(tera, vec!["".into(), "x".into(), "xy".into()]),
        run_fixed::<char>(tera, vec!['x', '\u{10ffff}', '\0']),
        run_fixed::<Option<Option<i64>>>(tera, vec![Some(None), Some(Some(1)), None]),
        run_fixed::<Option<()>>(tera, vec![Some(()), None]),
    ]
}

type Runner = Box<dyn Fn(&Tera, u64, usize, usize) -> TypeRun + Send + Sync>;

macro_rules! runners {
    ($($t:ty),* $(,)?) => { vec![$(Box::new(|t: &Tera, s: u64, n: usize, c: usize| run_type::<$t>(t, s, n, c)) as Runner),*] };
}

fn all_runners() -> Vec<Runner> {
    runners![
        // every primitive
        bool, i8, i16, i32, i64, i128, isize, u8, u16, u32, u64, u128, usize, f32, f64, char, String, (), UnitS, CString,
        // options
        Option<i64>, Option<u128>, Option<String>, Option<char>, Option<f32>, Option<Vec<u8>>, Option<(i8, String)>, Option<S1>, Option<E1>, Option<E2>,
        Option<W>, Option<BTreeMap<String, i64>>, Vec<Option<u64>>, Option<Vec<Option<bool>>>,
        // sequences and tuples
        Vec<i8>, Vec<u8>, Vec<String>, Vec<Vec<String>>, Vec<(i32, char)>, Vec<f64>, Vec<S1>, Vec<E2>, Vec<W>, (u8,), (u8, String), (i128, u128, f32),
        ((bool,), Vec<f64>, Option<char>, String), (Vec<(i8, i8)>, (String, (char, bool))), T2, T2b,
        // maps with every key kind
        BTreeMap<String, i64>, BTreeMap<bool, String>, BTreeMap<char, S1>, BTreeMap<i8, String>, BTreeMap<i16, u8>, BTreeMap<i32, Vec<bool>>,
        BTreeMap<i64, Option<char>>, BTreeMap<i128, u8>, BTreeMap<u8, E1>, BTreeMap<u16, (i8, i8)>, BTreeMap<u32, W>, BTreeMap<u64, Vec<bool>>,
        BTreeMap<u128, String>, BTreeMap<usize, isize>, HashMap<String, Vec<Option<i64>>>, HashMap<u32, BTreeMap<char, i16>>, HashMap<char, E2>,
        HashMap<bool, f64>, HashMap<i64, HashMap<String, bool>>, BTreeMap<String, BTreeMap<String, Vec<u8>>>, BTreeMap<String, E3>,
        // structs, newtype structs, enums
        S1, S2, S3, S4, S5, S6, W, WV, WS, WO, WW, WT, E1, E2, E3, Vec<E3>, (E1, E2), BTreeMap<WK, i64>, BTreeMap<E1, u8>, BTreeMap<Option<u8>, u8>,
        // serde(default, skip_serializing_if) fields, skipped and not, in every position
        SkipS, SkipE, Vec<SkipS>, Option<SkipS>, BTreeMap<String, SkipS>, Vec<SkipE>, (SkipS, SkipE), S7, BTreeMap<u8, SkipE>,
        // shapes the property excludes (an option or unit-like payload directly inside an Option): run for
        // correspondence and absence of panics only
        Option<Option<i64>>, Option<()>, Option<UnitS>, Option<WO>, Option<WU>, Vec<Option<Option<bool>>>, WU,
        // keys that are not representable: refused, not altered
        BTreeMap<(i8, i8), u8>, BTreeMap<Vec<u8>, u8>, BTreeMap<(), u8>, BTreeMap<Option<Option<u8>>, u8>, BTreeMap<CString, u8>, BTreeMap<BTreeMap<u8, u8>, u8>,
        BTreeMap<FK64, u8>, BTreeMap<FK32, String>, BTreeMap<Option<FK64>, u8>, BTreeMap<UnitS, u8>, BTreeMap<SK, u8>, BTreeMap<(u8,), u8>,
        Vec<BTreeMap<FK64, bool>>, Option<BTreeMap<FK32, u8>>, BTreeMap<String, BTreeMap<FK64, u8>>, BTreeMap<WU, u8>, BTreeMap<T2K, u8>
    ]
}

impl PartialOrd for E1 {
    fn partial_cmp(&self, o: &Self) -> Option<std::cmp::Ordering> {
        Some(self.cmp(o))
    }
}
impl Ord for E1 {
    fn cmp(&self, o: &Self) -> std::cmp::Ordering {
        self.sval().cmp(&o.sval())
    }
}
impl Eq for E1 {}

fn main() {
    if std::env::var("VERIF_LOUD_PANICS").is_err() {
        quiet_panics();
    }
    let env = Env::from_env();
    let mut report = Report::new("C19");
    let tera = engine();
    let exe = driver::driver_path(&env.verif_dir, "drv_c19");
    let runners = all_runners();

    if let Some(path) = replay_path() {
        // a replay file names the type (index in the zoo), the seed and the value's position
        let text = std::fs::read_to_string(&path).expect("replay file");
        let j: serde_json::Value = serde_json::from_str(&text).expect("replay json");
        let j = if j.get("replay").is_some() { j["replay"].clone() } else { j };
        if j["type"] == "tera::Context (histories)" {
            // value = "hist <path>:<wire> | <path>:<wire> …"
            let names = ["insert", "insert_value", "from_serialize+extend", "insert-into-other+extend", "remove"];
            let steps: Vec<(usize, Value)> = j["value"].as_str().unwrap().trim_start_matches("hist ").split(" | ").map(|st| {
                let (p, w) = st.split_once(':').unwrap();
                (names.iter().position(|n| *n == p).unwrap(), tera_verif_harness::wire::decode(w).expect("value"))
            }).collect();
            let (d, o) = ctx_history(&tera, &steps);
            println!("{d}\noracle failures: {:?}", o.fails);
            return;
        }
        if j["type"] == "tera::args (typed readers)" {
            let tr = run_args(j["seed"].as_u64().unwrap(), 0);
            // the fixed edge values are re-run; a random one is identified by its description
            for (d, o) in tr.outs.iter().filter(|(d, _)| Some(d.as_str()) == j["value"].as_str()) {
                println!("{d}");
                for (req, imp, _) in &o.model {
                    let m = driver::run_batch(&exe, std::slice::from_ref(req)).map(|v| v[0].clone());
                    println!("   request: {req}\n   implementation: {imp}\n   model: {m:?}");
                }
                println!("oracle failures: {:?}", o.fails);
            }
            println!("(value: {})", j["value"]);
            return;
        }
        if j["type"] == "tera::Value" {
            let v = tera_verif_harness::wire::decode(j["value"].as_str().unwrap()).expect("value");
            let o = run_value_level(&tera, &v);
            println!("value: {v} ({})", encode(&v));
            for (req, imp, stage) in &o.model {
                let m = driver::run_batch(&exe, std::slice::from_ref(req)).map(|v| v[0].clone());
                println!("[{stage}] request: {}\n   implementation: {imp}\n   model: {m:?}", req.chars().take(400).collect::<String>());
            }
            println!("oracle failures: {:?}", o.fails);
            return;
        }
        let ti = j["type_index"].as_u64().unwrap() as usize;
        let seed = j["seed"].as_u64().unwrap();
        let n = j["n"].as_u64().unwrap() as usize;
        let pos = j["position"].as_u64().unwrap() as usize;
        let tr = if ti < runners.len() { (runners[ti])(&tera, seed, n, 1) } else { fixed_runs(&tera).remove(ti - runners.len()) };
        let (sv, o) = &tr.outs[pos];
        println!("type: {} ({})\nvalue: {sv}", tr.name, tr.ty);
        for (req, imp, stage) in &o.model {
            let m = driver::run_batch(&exe, std::slice::from_ref(req)).map(|v| v[0].clone());
            println!("[{stage}] request: {}\n   implementation: {imp}\n   model: {m:?}", req.chars().take(400).collect::<String>());
        }
        println!("oracle failures: {:?}", o.fails);
        return;
    }

    let n = env.budget(2_500, 5_000);
    let rounds = env.budget(1, 24);
    let mut distinct: HashSet<u64> = HashSet::new();
    let mut shown = 0;
    for round in 0..rounds {
    let seed = env.seed.wrapping_add((round as u64).wrapping_mul(0x9E37_79B9_7F4A_7C15));
    let cross_every = env.budget(8, 4);
    let threads = std::thread::available_parallelism().map(|n| n.get()).unwrap_or(8).min(16);
    let next = std::sync::atomic::AtomicUsize::new(0);
    let results: Vec<TypeRun> = std::thread::scope(|s| {
        let tera = &tera;
        let runners = &runners;
        let next = &next;
        let hs: Vec<_> = (0..threads)
            .map(|_| {
                s.spawn(move || {
                    let mut mine = Vec::new();
                    loop {
                        let i = next.fetch_add(1, std::sync::atomic::Ordering::SeqCst);
                        if i >= runners.len() {
                            break;
                        }
                        mine.push((i, (runners[i])(tera, seed, n, cross_every)));
                    }
                    mine
                })
            })
            .collect();
        let mut all: Vec<(usize, TypeRun)> = hs.into_iter().flat_map(|h| h.join().unwrap()).collect();
        all.sort_by_key(|x| x.0);
        all.into_iter().map(|x| x.1).collect()
    });
    let mut results = results;
    results.push(run_values(&tera, seed, env.budget(20_000, 40_000)));
    results.push(run_args(seed, env.budget(6_000, 12_000)));
    results.push(run_ctx_histories(&tera, seed, env.budget(6_000, 12_000)));
    if round == 0 {
        let fixed = fixed_runs(&tera);
        report.count_n("values.fixed_regression", fixed.iter().map(|t| t.outs.len() as u64).sum());
        results.extend(fixed);
    }

    // map printing order (direct oracle)
    let mut extra = Out::default();
    {
        let mut rng = Rng::new(seed ^ 0x5eed);
        for _ in 0..env.budget(300, 600) {
            map_order_oracle::<String, i64>(&tera, &Z::gen_(&mut rng, 3), &mut extra);
            map_order_oracle::<i64, String>(&tera, &Z::gen_(&mut rng, 3), &mut extra);
            map_order_oracle::<u128, bool>(&tera, &Z::gen_(&mut rng, 3), &mut extra);
            map_order_oracle::<char, Vec<u8>>(&tera, &Z::gen_(&mut rng, 3), &mut extra);
            map_order_oracle::<bool, BTreeMap<i8, char>>(&tera, &Z::gen_(&mut rng, 3), &mut extra);
        }
    }
    report.oracle_checks += extra.checks;

    // ---- model
    let mut reqs: Vec<String> = Vec::new();
    let mut index: Vec<(usize, usize, usize)> = Vec::new(); // (type, value, model entry)
    for (ti, tr) in results.iter().enumerate() {
        for (vi, (_, o)) in tr.outs.iter().enumerate() {
            for (mi, (req, _, _)) in o.model.iter().enumerate() {
                reqs.push(req.clone());
                index.push((ti, vi, mi));
            }
        }
    }
    let model = match driver::run_batch_parallel(&exe, &reqs, threads) {
        Ok(m) => m,
        Err(e) => {
            report.notes.push(format!("model driver unavailable: {e}"));
            report.violation("model-mismatch", format!("model driver could not be run: {e}"), serde_json::json!({"detail": {"stage": "driver"}, "error": e}));
            Vec::new()
        }
    };

    let replay_of = |ti: usize, vi: usize, extra: serde_json::Value| {
        serde_json::json!({
            "type_index": ti, "type": results[ti].name, "sty": results[ti].ty, "seed": seed, "n": n, "position": vi,
            "value": results[ti].outs[vi].0, "detail": extra,
            "rerun": "harness/target/release/c19 --replay <this file>",
        })
    };

    let mut types_in_family = 0u64;
    let mut cands: Vec<(usize, usize, usize, usize)> = Vec::new();
    for (ti, tr) in results.iter().enumerate() {
        if tr.in_family {
            types_in_family += 1;
        }
        // shrink by selection: of all failing values of this type report the smallest ones
        let mut failing: Vec<usize> = tr.outs.iter().enumerate().filter(|(_, (_, o))| !o.fails.is_empty()).map(|(vi, _)| vi).collect();
        failing.sort_by_key(|vi| { let d = &tr.outs[*vi].0; d.len() + if d.starts_with("hist (panic") || d.starts_with("random value") { 1_000_000 } else { 0 } });
        for vi in failing.iter().take(2) {
            // descriptions that are not an input by themselves go last
            let d = &tr.outs[*vi].0;
            let penalty = if d.starts_with("hist (panic") || d.starts_with("random value") { 1_000_000 } else { 0 };
            cands.push((d.len() + penalty, ti, *vi, failing.len()));
        }
        for (_vi, (sv, o)) in tr.outs.iter().enumerate() {
            report.evaluations += 1;
            report.oracle_checks += o.checks;
            report.count(if tr.in_family { "values.in_family" } else { "values.excluded_shape_or_bad_key" });
            for t in &o.tags {
                report.count(&format!("tag.{t}"));
            }
            if distinct.insert({
                use std::hash::{Hash, Hasher};
                let mut h = std::collections::hash_map::DefaultHasher::new();
                (ti, sv.as_str()).hash(&mut h);
                h.finish()
            }) {
                report.distinct_nontrivial += 1;
            }
            if !o.fails.is_empty() {
                report.oracle_failures += o.fails.len() as u64;
            }
        }
    }
    cands.sort();
    for (_, ti, vi, nfail) in cands.iter().take(6) {
        let o = &results[*ti].outs[*vi].1;
        report.violation("property", format!("{}: {}", results[*ti].name, o.fails[0]), replay_of(*ti, *vi, serde_json::json!({"failures": o.fails, "failing_values_of_this_type": nfail})));
    }
    for f in &extra.fails {
        report.oracle_failures += 1;
        report.violation("property", f.clone(), serde_json::json!({"detail": {"oracle": "map printing order"}, "summary": f}));
    }
    if round == 0 {
        report.count_n("types.total", results.len() as u64);
        report.count_n("types.in_family", types_in_family);
    }

    if !model.is_empty() {
        for (k, (ti, vi, mi)) in index.iter().enumerate() {
            let (_, imp, stage) = &results[*ti].outs[*vi].1.model[*mi];
            report.model_comparisons += 1;
            report.count(&format!("stage.{stage}"));
            if &model[k] != imp {
                report.model_disagreements += 1;
                if shown < 5 && report.oracle_failures == 0 {
                    shown += 1;
                    report.violation(
                        "model-mismatch",
                        format!("{} [{stage}]: model `{}` vs implementation `{}` on `{}`", results[*ti].name, model[k].chars().take(200).collect::<String>(), imp.chars().take(200).collect::<String>(), reqs[k].chars().take(200).collect::<String>()),
                        replay_of(*ti, *vi, serde_json::json!({"stage": format!("correspondence:serde:{stage}"), "request": reqs[k], "model": model[k], "implementation": imp})),
                    );
                }
            }
        }
    }
    if round == 0 {
    for ti in [0usize, 20, 45, 70, 85, 95] {
        if let Some(tr) = results.get(ti) {
            if let Some((sv, o)) = tr.outs.get(3) {
                report.sample(serde_json::json!({"type": tr.name, "value": sv, "model_requests": o.model.iter().take(3).map(|m| (m.0.chars().take(200).collect::<String>(), m.1.chars().take(200).collect::<String>())).collect::<Vec<_>>()}));
            }
        }
    }
    }
    }
    report.count_n("rounds", rounds as u64);
    let inf = report.histogram.get("values.in_family").copied().unwrap_or(0);
    report.histogram.insert("pct_values_in_family(round trip oracle applies)".into(), inf * 100 / report.evaluations.max(1));
    report.rule = "a case is (Rust type of the zoo, generated value); distinct by (type, value); every case serialises the value with the real ValueSerializer and reads it back through the three entry points, so every case exercises the bridge (non-trivial); types outside the family (option / unit directly inside Option, unrepresentable keys) are run for correspondence, refusal and absence of panics".into();
    report.write(&out_path());
}
