//! C09 — bytecode optimisation never changes what a template renders.
//!
//! Three ties between the Lean model (`Model/Optimize.lean`, theorems in `Props/C09.lean`) and
//! `Chunk::optimize`, plus the property evaluated directly on the implementation:
//!  1. stage diff: model `optimize` applied to the REAL pre-pass listing of every chunk (main,
//!     blocks, components) of every generated template must equal the REAL stored listing;
//!  2. the same diff on synthetic instruction windows pushed through the real `Chunk::optimize`
//!     (jump operands everywhere incl. one-past-the-end and out of range, magic dump variable,
//!     instructions without spans) — exhaustive for short windows;
//!  3. structural oracle written here (independent of the model): un-fusing the stored listing
//!     gives the raw listing, every jump lands on the start of the group that begins at its old
//!     target;
//!  4. on/off differential: every generated template rendered by an engine built normally and by
//!     an engine built under `set_skip_optimize(true)`, over a lattice of contexts: same text, or
//!     both fail.  A share of the cases is also rendered (a) by a pair of engines with a
//!     user-installed escape function (`set_escape_fn`), and (b) through `render_to` /
//!     `render_block_to` / `render_component_to` into a writer that accepts only 1, 2 or 7 bytes per
//!     `write` call; and three directed templates whose main chunk has more than 65 535
//!     instructions after the pass, with taken jumps beyond that index (stream `big-chunk`; the
//!     Lean optimiser model is quadratic and is not run on those, the structural oracle is).
use std::collections::{BTreeMap, HashSet};
use tera::verif_hooks as hooks;
use std::cell::RefCell;
use tera::{Context, Delimiters, Kwargs, State, Tera, Value};
use tera_verif_harness::report::{out_path, replay_path, Report};
use tera_verif_harness::bcgen::*;
use tera_verif_harness::childrun::{child_main, run_batch, run_batches, Batch, Capped};
use tera_verif_harness::rng::Rng;
use tera_verif_harness::wire::{decode, encode, hex};
use tera_verif_harness::{catch, driver, quiet_panics, Env};

// ------------------------------------------------------------------------------ engines

fn build(templates: &[(String, String)], skip: bool) -> Result<Tera, String> {
    build_recorded(templates, skip).map(|(t, _)| t)
}

/// a user-installed escape function that is visibly not `escape_html`: `<` becomes `[LT]`, `&`
/// becomes `[AMP]`, the marker letter `b` is upper-cased, everything else is copied
fn custom_escape(input: &str, out: &mut dyn std::io::Write) -> std::io::Result<()> {
    for ch in input.chars() {
        match ch {
            '<' => out.write_all(b"[LT]")?,
            '&' => out.write_all(b"[AMP]")?,
            'b' => out.write_all(b"B")?,
            c => {
                let mut buf = [0u8; 4];
                out.write_all(c.encode_utf8(&mut buf).as_bytes())?
            }
        }
    }
    Ok(())
}

/// the same engine with `set_escape_fn(custom_escape)`
fn build_escaping(templates: &[(String, String)], skip: bool) -> Result<Tera, String> {
    build(templates, skip).map(|mut t| {
        t.set_escape_fn(custom_escape);
        t
    })
}

/// `Write` that takes at most `k` bytes per `write` call (a socket, a pipe, a small buffer):
/// `write_all` copes, a caller that ignores the returned count loses data. Capped like `Capped`.
struct ShortWriter {
    buf: Vec<u8>,
    k: usize,
    cap: usize,
}

impl std::io::Write for ShortWriter {
    fn write(&mut self, data: &[u8]) -> std::io::Result<usize> {
        let n = data.len().min(self.k);
        if self.buf.len() + n > self.cap {
            return Err(std::io::Error::other("verif: output larger than the cap"));
        }
        self.buf.extend_from_slice(&data[..n]);
        Ok(n)
    }
    fn flush(&mut self) -> std::io::Result<()> {
        Ok(())
    }
}

/// `render` through a writer that accepts `k` bytes per call
fn render_short(t: &Tera, name: &str, mode: &Mode, ctx: &Context, k: usize) -> String {
    let mut w = ShortWriter { buf: Vec::new(), k, cap: 1 << 20 };
    let r = catch(std::panic::AssertUnwindSafe(|| match mode {
        Mode::Render => t.render_to(name, ctx, &mut w),
        Mode::Block(b) => t.render_block_to(name, b, ctx, &mut w),
        Mode::Component(c) => t.render_component_to(c, ctx, None, true, &mut w),
    }));
    match r {
        Ok(Ok(())) => format!("ok {}", String::from_utf8_lossy(&w.buf)),
        Ok(Err(_)) => "err".to_string(),
        Err(p) => format!("panic {p}"),
    }
}

/// which extra variants a case is rendered under, next to the plain one: a third of the cases with
/// the custom escape function, a third through a short-writing writer (1, 2 or 7 bytes per call)
fn default_variants(id: u64) -> Vec<String> {
    match id % 3 {
        0 => vec!["plain".into(), "escape".into()],
        1 => vec!["plain".into(), format!("short:{}", [1, 2, 7][((id / 3) % 3) as usize])],
        _ => vec!["plain".into()],
    }
}

// ------------------------------------------------------------------------------ big chunks

/// Directed cases whose main chunk has more than 65 535 instructions AFTER the pass, followed by
/// jumps that are taken whatever the context: an index table narrower than `usize` shows here.
fn big_cases(first_id: usize) -> Vec<Case> {
    let mk = |k: usize, head: &str, unit: &str, times: usize, tail: &str| Case {
        id: first_id + k,
        stream: "big-chunk",
        shape: format!("big{k}"),
        place: Place::Body,
        segs: vec![format!("{head}{}{tail}", unit.repeat(times))],
    };
    vec![
        // 33 000 x (LoadConst, WriteTop) = 66 000 instructions, then both arms of an if/else
        mk(0, "", "{{ 1 }}", 33_000, "{% if b %}A{% else %}B{% endif %}|{% if not b %}C{% else %}D{% endif %}."),
        // 66 100 fused WritePath instructions, then a for loop (Iterate / Jump past 65 535) and an if
        mk(1, "{% set q = 7 %}", "{{ q }}", 66_100, "{% for x in [1, 2, 3] %}{{ x }}{% if x == 2 %}{% continue %}{% endif %},{% endfor %}{% if b %}A{% else %}B{% endif %}."),
        // short-circuit and ternary jumps past the limit
        mk(2, "", "{{ 1 }}", 33_000, "{{ b and 1 }}{{ b or 2 }}{{ 3 if b else 4 }}{{ 5 if not b else 6 }}."),
    ]
}

/// a long source as a recipe: `head + unit x times + tail` (found by looking for a run of at least
/// 1 000 repetitions of a unit of at most 40 bytes starting in the first 200 bytes)
fn compress_source(src: &str) -> serde_json::Value {
    if src.len() < 4000 || !src.is_ascii() {
        return serde_json::json!(src);
    }
    let b = src.as_bytes();
    // a unit that starts at a tag is preferred (pass 0), any unit otherwise (pass 1)
    for (pass, pos) in (0..2usize).flat_map(|pass| (0..200usize).map(move |pos| (pass, pos))) {
        if pos >= b.len() || (pass == 0 && b[pos] != b'{') {
            continue;
        }
        for ulen in 1..=40usize {
            if pos + ulen * 1000 > b.len() {
                break;
            }
            let unit = &b[pos..pos + ulen];
            let mut n = 0usize;
            while pos + (n + 1) * ulen <= b.len() && &b[pos + n * ulen..pos + (n + 1) * ulen] == unit {
                n += 1;
            }
            if n >= 1000 {
                return serde_json::json!({"head": &src[..pos], "unit": &src[pos..pos + ulen], "times": n, "tail": &src[pos + n * ulen..]});
            }
        }
    }
    serde_json::json!(src)
}

fn expand_source(v: &serde_json::Value) -> String {
    match v {
        serde_json::Value::String(s) => s.clone(),
        o => format!("{}{}{}", o["head"].as_str().unwrap_or(""), o["unit"].as_str().unwrap_or("").repeat(o["times"].as_u64().unwrap_or(0) as usize), o["tail"].as_str().unwrap_or("")),
    }
}

/// templates for a replay file (long sources as recipes)
fn tj(templates: &[(String, String)]) -> serde_json::Value {
    serde_json::Value::Array(templates.iter().map(|(n, s)| serde_json::json!([n, compress_source(s)])).collect())
}

/// a source for a summary line
fn show_src(src: &str) -> String {
    if src.len() < 4000 { src.to_string() } else { compress_source(src).to_string() }
}

/// builds the engine and returns with it the (pre, post) listings of every `Chunk::optimize`
/// call made while building (both from the same compilation)
fn build_recorded(templates: &[(String, String)], skip: bool) -> Result<(Tera, Vec<(Vec<String>, Vec<String>)>), String> {
    hooks::set_skip_optimize(skip);
    hooks::optimize_record_start();
    let r = catch(std::panic::AssertUnwindSafe(|| {
        let mut t = Tera::default();
        t.add_raw_templates(templates.iter().map(|(n, s)| (n.as_str(), s.as_str()))).map(|_| t)
    }));
    let rec = hooks::optimize_record_take();
    hooks::set_skip_optimize(false);
    let r = r.map(|x| x.map(|t| (t, rec)));
    match r {
        Ok(Ok(t)) => Ok(t),
        Ok(Err(e)) => Err(format!("{e}")),
        Err(p) => Err(format!("panic {p}")),
    }
}

/// "ok <text>" | "err" | "panic <msg>"; the output is capped at 1 MiB (beyond: an error)
fn render(t: &Tera, name: &str, mode: &Mode, ctx: &Context) -> String {
    let mut w = Capped::new(1 << 20);
    let r = catch(std::panic::AssertUnwindSafe(|| match mode {
        Mode::Render => t.render_to(name, ctx, &mut w),
        Mode::Block(b) => t.render_block_to(name, b, ctx, &mut w),
        Mode::Component(c) => t.render_component_to(c, ctx, None, true, &mut w),
    }));
    match r {
        Ok(Ok(())) => format!("ok {}", String::from_utf8_lossy(&w.buf)),
        Ok(Err(_)) => "err".to_string(),
        Err(p) => format!("panic {p}"),
    }
}

// ------------------------------------------------------------------------------ structural oracle

fn split_tok(tok: &str) -> (&str, &str, &str) {
    let (head, spans) = tok.split_once('@').unwrap_or((tok, ""));
    let (kind, arg) = head.split_once(':').unwrap_or((head, ""));
    (kind, arg, spans)
}

fn is_jump(kind: &str) -> bool {
    matches!(kind, "Jump" | "PopJumpIfFalse" | "JumpIfFalseOrPop" | "JumpIfTrueOrPop" | "Iterate")
}

/// The structural clauses of C09 checked directly on a (raw, stored) pair of real listings,
/// without the Lean model. `None` = holds.
fn structural_oracle(raw: &[String], stored: &[String]) -> Option<String> {
    // expand the stored listing; remember where each new instruction starts in old indices
    let mut expanded: Vec<(String, String, String)> = Vec::new(); // kind, arg, spans ("*": not compared here)
    let mut start_of_new: Vec<usize> = Vec::new();
    let mut i = 0usize; // old index
    for tok in stored {
        start_of_new.push(i);
        let (kind, arg, spans) = split_tok(tok);
        if (kind == "LoadPath" || kind == "WritePath")
            && !(raw.get(i).map(|r| split_tok(r).0) == Some(kind))
        {
            let names: Vec<&str> = if arg.is_empty() { vec![] } else { arg.split(',').collect() };
            if names.is_empty() || (kind == "LoadPath" && names.len() < 2) {
                return Some(format!("fused instruction with a too short path: {tok}"));
            }
            // spans: the fused instruction carries the spans of its path elements, in order
            let want: Vec<&str> = (i..i + names.len())
                .filter_map(|k| raw.get(k))
                .flat_map(|r| split_tok(r).2.split(';').filter(|x| !x.is_empty()))
                .collect();
            let got: Vec<&str> = spans.split(';').filter(|x| !x.is_empty()).collect();
            if want != got {
                return Some(format!("fused instruction {tok}: spans {got:?}, path elements had {want:?}"));
            }
            for (k, n) in names.iter().enumerate() {
                expanded.push(((if k == 0 { "LoadName" } else { "LoadAttr" }).to_string(), n.to_string(), "*".to_string()));
            }
            i += names.len();
            if kind == "WritePath" {
                expanded.push(("WriteTop".into(), String::new(), "*".into()));
                i += 1;
            }
        } else {
            expanded.push((kind.to_string(), arg.to_string(), spans.to_string()));
            i += 1;
        }
    }
    start_of_new.push(i);
    if expanded.len() != raw.len() {
        return Some(format!("un-fused stored listing has {} instructions, raw has {}", expanded.len(), raw.len()));
    }
    // which old indices are jump targets
    let mut targets: HashSet<usize> = HashSet::new();
    for (idx, r) in raw.iter().enumerate() {
        let (kind, arg, spans) = split_tok(r);
        let (ek, ea, es) = &expanded[idx];
        if kind != ek {
            return Some(format!("instruction {idx}: raw {kind}, un-fused stored {ek}"));
        }
        if es != "*" && spans != es {
            return Some(format!("instruction {idx} ({kind}): span `{spans}` became `{es}`"));
        }
        if is_jump(kind) {
            let t: usize = arg.parse().ok()?;
            targets.insert(t);
            let k: usize = ea.parse().ok()?;
            // the new operand must be the new instruction that starts exactly at the old target
            match start_of_new.get(k) {
                Some(s) if *s == t => {}
                Some(s) => return Some(format!("jump at {idx}: old target {t}, new operand {k} starts at old index {s}")),
                None => return Some(format!("jump at {idx}: new operand {k} out of range")),
            }
        } else if arg != ea {
            return Some(format!("instruction {idx} ({kind}): payload changed"));
        }
    }
    // no target strictly inside a group
    let starts: HashSet<usize> = start_of_new.iter().copied().collect();
    for t in targets {
        if t < raw.len() && !starts.contains(&t) {
            return Some(format!("old index {t} is a jump target but was merged into the middle of a fused instruction"));
        }
    }
    None
}

// ------------------------------------------------------------------------------ synthetic windows

fn syn_token(kind: &str, arg: &str, pos: usize, with_span: bool) -> String {
    if with_span {
        format!("{kind}:{arg}@1:{pos}-1:{}({pos}..{})", pos + 1, pos + 1)
    } else {
        format!("{kind}:{arg}@")
    }
}

fn syn_alphabet(len: usize, full: bool) -> Vec<(String, String, bool)> {
    let mut a: Vec<(String, String, bool)> = vec![
        ("LoadName".into(), hex(b"a"), true),
        ("LoadAttr".into(), hex(b"b"), true),
        ("WriteTop".into(), String::new(), false),
        ("WriteText".into(), hex(b"t"), false),
    ];
    if full {
        a.push(("LoadName".into(), hex(b"__tera_context"), true));
        a.push(("LoadAttrOpt".into(), hex(b"b"), true));
        a.push(("LoadName".into(), hex(b"n"), false));
        a.push(("LoadPath".into(), format!("{},{}", hex(b"p"), hex(b"q")), true));
        a.push(("Break".into(), String::new(), false));
    }
    for t in 0..=len + 1 {
        a.push(("JumpIfFalseOrPop".into(), t.to_string(), false));
        if full {
            a.push(("Iterate".into(), t.to_string(), false));
            a.push(("Jump".into(), t.to_string(), false));
            a.push(("PopJumpIfFalse".into(), t.to_string(), false));
            a.push(("JumpIfTrueOrPop".into(), t.to_string(), false));
        }
    }
    a
}

fn syn_window(choice: &[usize], alphabet: &[(String, String, bool)]) -> Vec<String> {
    choice.iter().enumerate().map(|(pos, &c)| {
        let (k, a, s) = &alphabet[c];
        syn_token(k, a, pos, *s)
    }).collect()
}

fn real_optimize(window: &[String]) -> String {
    match catch(std::panic::AssertUnwindSafe(|| hooks::optimize_wire(window))) {
        Ok(Ok(v)) => {
            if v.is_empty() { "ok".into() } else { format!("ok {}", v.join(" ")) }
        }
        Ok(Err(e)) => format!("hook-error {e}"),
        Err(_) => "panic".into(),
    }
}

// ------------------------------------------------------------------------------ path VM correspondence

thread_local! {
    static PROBE: RefCell<Option<Value>> = const { RefCell::new(None) };
}

fn engine_with_probe(templates: &[(String, String)], skip: bool) -> Result<Tera, String> {
    hooks::set_skip_optimize(skip);
    let r = catch(std::panic::AssertUnwindSafe(|| {
        let mut t = Tera::default();
        t.register_filter("probe", |v: Value, _: Kwargs, _: &State| {
            PROBE.with(|p| *p.borrow_mut() = Some(v.clone()));
            v
        });
        t.add_raw_templates(templates.iter().map(|(n, s)| (n.as_str(), s.as_str()))).map(|_| t)
    }));
    hooks::set_skip_optimize(false);
    match r {
        Ok(Ok(t)) => Ok(t),
        Ok(Err(e)) => Err(format!("{e}")),
        Err(p) => Err(format!("panic {p}")),
    }
}

/// The five path instructions of the real VM against Model/PathVm.lean (the model the semantic
/// theorems are about): every path `a`, `a.x`, `a.x.y`, `a.x.y.z` over attributes b, c, x, loaded
/// (value captured by a probe filter) and written, fused (engine with the pass) and unfused
/// (engine without), the root bound to each value of a lattice with undefined at every depth.
fn pathvm_stage(report: &mut Report, exe: &std::path::Path, threads: usize) {
    let attrs = ["b", "c", "x"];
    let mut paths: Vec<Vec<&str>> = vec![vec![]];
    for l in 1..=3usize {
        let mut idx = vec![0usize; l];
        loop {
            paths.push(idx.iter().map(|i| attrs[*i]).collect());
            let mut k = 0;
            while k < l {
                idx[k] += 1;
                if idx[k] < attrs.len() {
                    break;
                }
                idx[k] = 0;
                k += 1;
            }
            if k == l {
                break;
            }
        }
    }
    let roots: Vec<&str> = vec![
        "-", "U", "N", "B0", "i64:5", "s:62", "S:3c623e", "y:6263", "f:7ff8000000000000", "A0", "A1 M1 s:62 i64:1", "M0",
        "M1 s:62 i64:1", "M1 s:62 U", "M1 s:62 N", "M1 s:62 M0", "M1 s:62 M1 s:63 i64:2", "M1 s:62 M1 s:63 U",
        "M1 s:62 M1 s:63 M1 s:62 U", "M1 s:62 M1 s:63 M1 s:62 s:64", "M1 s:62 M1 s:63 M1 s:78 B1",
        "M2 s:62 M2 s:62 s:62 s:63 M1 s:62 s:64 s:63 A1 i64:1", "M2 s:62 U s:63 M1 s:62 U", "M1 s:63 M1 s:62 M1 s:63 N",
        "M2 s:62 M1 s:78 U s:78 M1 s:62 i64:1", "M2 i64:1 s:78 s:62 M1 B1 s:79", "M1 s:62 A2 U N",
        // special characters: safe and normal strings at the root and at leaves inside maps
        "s:3c623e2622273c2f623e", "S:3c623e2622273c2f623e", "M1 s:62 s:3c623e2622273c2f623e", "M1 s:62 S:3c623e2622273c2f623e",
        "M1 s:62 M1 s:63 s:3c623e2622273c2f623e", "M1 s:62 M1 s:63 S:3c623e2622273c2f623e", "M2 s:62 S:3c693e s:63 s:3c693e",
        "M1 s:62 M2 s:62 s:3c26 s:63 S:3c26", "M1 s:62 A1 s:3c623e", "M1 s:62 M1 s:63 y:3c623e", "M1 s:62 M1 s:63 A1 S:3c623e",
    ];
    let mut templates: Vec<(String, String)> = Vec::new();
    for (i, p) in paths.iter().enumerate() {
        let txt = std::iter::once("a").chain(p.iter().copied()).collect::<Vec<_>>().join(".");
        // `.html`: autoescaped; no suffix: not
        for suffix in ["", ".html"] {
            templates.push((format!("l{i}{suffix}"), format!("{{{{ {txt} | probe }}}}")));
            templates.push((format!("w{i}{suffix}"), format!("{{{{ {txt} }}}}")));
        }
    }
    let (on, off) = match (engine_with_probe(&templates, false), engine_with_probe(&templates, true)) {
        (Ok(a), Ok(b)) => (a, b),
        (a, b) => {
            report.violation("model-mismatch", format!("path templates cannot be registered: {:?} {:?}", a.err(), b.err()), serde_json::json!({"detail": {"stage": "pathvm"}}));
            return;
        }
    };
    // the engine with the pass really holds fused instructions for these templates
    let fused = (0..paths.len())
        .filter(|i| {
            hooks::stored_chunks_wire(&on, &format!("w{i}.html")).map(|c| c[0].1.iter().any(|t| t.starts_with("WritePath:"))).unwrap_or(false)
                && (paths[*i].is_empty() || hooks::stored_chunks_wire(&on, &format!("l{i}")).map(|c| c[0].1.iter().any(|t| t.starts_with("LoadPath:"))).unwrap_or(false))
        })
        .count();
    report.count_n("pathvm.paths", paths.len() as u64);
    report.count_n("pathvm.paths_fused_in_the_engine", fused as u64);
    let mut reqs = Vec::new();
    let mut real = Vec::new();
    let mut meta = Vec::new();
    for (i, p) in paths.iter().enumerate() {
        let path_arg = std::iter::once("a").chain(p.iter().copied()).map(|n| hex(n.as_bytes())).collect::<Vec<_>>().join(",");
        for root in &roots {
            let mut ctx = Context::new();
            if *root != "-" {
                ctx.insert_value("a", decode(root).expect("root value"));
            }
            for (auto, suffix) in [("n", ""), ("a", ".html")] {
                for (mode, engine) in [("f", &on), ("u", &off)] {
                    // load
                    PROBE.with(|pr| *pr.borrow_mut() = None);
                    let r = catch(std::panic::AssertUnwindSafe(|| engine.render(&format!("l{i}{suffix}"), &ctx)));
                    let probed = PROBE.with(|pr| pr.borrow_mut().take());
                    let out = match (r, probed) {
                        (Err(_), _) => "panic".to_string(),
                        (Ok(_), Some(v)) => format!("ok {}", encode(&v)),
                        (Ok(Err(_)), None) => "err".to_string(),
                        (Ok(Ok(_)), None) => "no-probe".to_string(),
                    };
                    reqs.push(format!("pv {mode} l {auto} {path_arg} {root}"));
                    real.push(out);
                    meta.push((i, *root, mode, "load"));
                    // write: the exact text
                    let r = catch(std::panic::AssertUnwindSafe(|| engine.render(&format!("w{i}{suffix}"), &ctx)));
                    let out = match r {
                        Err(_) => "panic".to_string(),
                        Ok(Ok(t)) => format!("ok {t}"),
                        Ok(Err(_)) => "err".to_string(),
                    };
                    reqs.push(format!("pv {mode} w {auto} {path_arg} {root}"));
                    real.push(out);
                    meta.push((i, *root, mode, "write"));
                }
            }
        }
    }
    // ---- scopes that disagree: the root of a path must come from `State::get_value` (loop
    // variables, assignments, the includer's state) and not from the user context. The value
    // under test is bound to `s`; `a` in the user context is a decoy with the same fields.
    let decoy = "M3 s:62 M3 s:62 s:4445434f59 s:63 M2 s:62 s:4445434f59 s:78 s:4445434f59 s:78 s:4445434f59 s:63 s:4445434f59 s:78 s:4445434f59";
    let scoped: [(&str, &str, &str); 5] = [
        ("set", "{% set a = s %}", ""),
        ("set_global", "{% set_global a = s %}", ""),
        ("set_in_if", "{% if true %}{% set a = s %}{% endif %}", ""),
        ("for", "{% for a in [s] %}", "{% endfor %}"),
        ("include_in_for", "{% for a in [s] %}{% include \"INC\" %}", "{% endfor %}"),
    ];
    let mut scoped_templates: Vec<(String, String)> = Vec::new();
    for (i, p) in paths.iter().enumerate() {
        let txt = std::iter::once("a").chain(p.iter().copied()).collect::<Vec<_>>().join(".");
        for (v, pre, post) in scoped {
            for (kind, body) in [("l", format!("{{{{ {txt} | probe }}}}")), ("w", format!("{{{{ {txt} }}}}"))] {
                let name = format!("s{kind}{i}_{v}.html");
                if v == "include_in_for" {
                    scoped_templates.push((format!("{name}_inc.html"), body.clone()));
                    scoped_templates.push((name.clone(), format!("{}{post}", pre.replace("INC", &format!("{name}_inc.html")))));
                } else {
                    scoped_templates.push((name, format!("{pre}{body}{post}")));
                }
            }
        }
    }
    match (engine_with_probe(&scoped_templates, false), engine_with_probe(&scoped_templates, true)) {
        (Ok(son), Ok(soff)) => {
            for (i, p) in paths.iter().enumerate() {
                let path_arg = std::iter::once("a").chain(p.iter().copied()).map(|n| hex(n.as_bytes())).collect::<Vec<_>>().join(",");
                for root in &roots {
                    let mut ctx = Context::new();
                    ctx.insert_value("a", decode(decoy).expect("decoy"));
                    if *root != "-" {
                        ctx.insert_value("s", decode(root).expect("root value"));
                    }
                    // an unbound `s` assigns undefined
                    let model_root = if *root == "-" { "U" } else { root };
                    for (v, _, _) in scoped {
                        // an included template treats an undefined value of the includer as absent
                        // and goes on to the user context (state.rs:106-111): not a case for the decoy
                        if v == "include_in_for" && (*root == "-" || *root == "U") {
                            continue;
                        }
                        for (mode, engine) in [("f", &son), ("u", &soff)] {
                            PROBE.with(|pr| *pr.borrow_mut() = None);
                            let r = catch(std::panic::AssertUnwindSafe(|| engine.render(&format!("sl{i}_{v}.html"), &ctx)));
                            let probed = PROBE.with(|pr| pr.borrow_mut().take());
                            let out = match (r, probed) {
                                (Err(_), _) => "panic".to_string(),
                                (Ok(_), Some(v)) => format!("ok {}", encode(&v)),
                                (Ok(Err(_)), None) => "err".to_string(),
                                (Ok(Ok(_)), None) => "no-probe".to_string(),
                            };
                            reqs.push(format!("pv {mode} l a {path_arg} {model_root}"));
                            real.push(out);
                            meta.push((i, *root, mode, "load"));
                            let r = catch(std::panic::AssertUnwindSafe(|| engine.render(&format!("sw{i}_{v}.html"), &ctx)));
                            let out = match r {
                                Err(_) => "panic".to_string(),
                                Ok(Ok(t)) => format!("ok {t}"),
                                Ok(Err(_)) => "err".to_string(),
                            };
                            reqs.push(format!("pv {mode} w a {path_arg} {model_root}"));
                            real.push(out);
                            meta.push((i, *root, mode, "write"));
                            report.count(&format!("pathvm.scoped.{v}"));
                        }
                    }
                }
            }
        }
        (a, b) => {
            report.violation("model-mismatch", format!("scoped path templates cannot be registered: {:?} {:?}", a.err(), b.err()), serde_json::json!({"detail": {"stage": "pathvm"}}));
        }
    }
    let model = match driver::run_batch_parallel(exe, &reqs, threads) {
        Ok(m) => m,
        Err(e) => {
            report.violation("model-mismatch", format!("model driver could not be run: {e}"), serde_json::json!({"detail": {"stage": "driver", "error": e}}));
            return;
        }
    };
    // what the model's sink stands for: the value formatted, through the escape function or not
    let expected_text = |m: &str| -> String {
        let (esc, wire) = if let Some(w) = m.strip_prefix("ok E ") {
            (true, w)
        } else if let Some(w) = m.strip_prefix("ok R ") {
            (false, w)
        } else {
            return m.to_string();
        };
        match decode(wire) {
            Some(v) => {
                let plain = format!("{v}");
                if esc {
                    let mut out = Vec::new();
                    let _ = tera::escape_html(&plain, &mut out);
                    format!("ok {}", String::from_utf8_lossy(&out))
                } else {
                    format!("ok {plain}")
                }
            }
            None => format!("undecodable {m}"),
        }
    };
    let mut shown = 0;
    for k in 0..reqs.len() {
        report.evaluations += 1;
        report.model_comparisons += 1;
        let (_, _, mode, kind) = meta[k];
        let m = if kind == "write" { expected_text(&model[k]) } else { model[k].clone() };
        report.count(&format!("pathvm.{kind}.{mode}.{}", real[k].split(' ').next().unwrap_or("")));
        if kind == "write" && model[k].starts_with("ok E") {
            report.count("pathvm.write.escaped");
        }
        if m != real[k] {
            report.model_disagreements += 1;
            if shown < 3 {
                shown += 1;
                report.violation(
                    "model-mismatch",
                    format!("path VM model `{}` (= `{}`) vs real VM `{}` on `{}`", model[k], m, real[k], reqs[k]),
                    serde_json::json!({"request": reqs[k], "model": model[k], "real": real[k], "detail": {"stage": "pathvm"}}),
                );
            }
        }
    }
    if let Some(k) = (0..reqs.len()).find(|k| real[*k].starts_with("ok M")) {
        report.sample(serde_json::json!({"request": reqs[k], "real_vm": real[k], "model": model[k]}));
    }
}

// ------------------------------------------------------------------------------ directed on/off cases

/// Directed on/off cases the lattice of `bcgen` does not reach (contexts are given in the wire
/// syntax): values PRINTED through a bare variable / dotted path (the fused `WritePath`) — 128-bit
/// and 64-bit extremes, floats with very long texts, NaN, bytes holding invalid UTF-8, safe and
/// normal strings — in autoescaped and plain templates, at top level, in captures and in loops;
/// and a loop variable / key RE-BOUND by `{% set %}` inside its own loop body followed by dotted
/// paths on it in `if` / filter / `for` / operator positions (the fused `LoadPath`); and variables
/// that exist only in the instance's global context (`tera.global_context()`, nested maps) used
/// through loaded dotted paths, written directly, in loops, captures and an include, also
/// shadowed by the render context.  Every case is
/// compared between the two engines through `render` (a `String`), `render_to` (raw bytes, hex) and
/// `render_to` into a writer that takes one byte per call.
fn directed_stage(report: &mut Report) {
    let print_bodies: [(&str, &str); 10] = [
        ("bare", "{{ v }}"),
        ("dot", "{{ m.k }}"),
        ("dot2", "[{{ m.q.j }}|{{ v }}]"),
        ("setblock", "{% set w %}{{ v }}{{ m.k }}{% endset %}<{{ w }}>"),
        ("filter", "{% filter upper %}{{ m.k }}-{{ v }}{% endfilter %}"),
        ("loop", "{% for x in l %}{{ x }},{% endfor %}{% for x in l2 %}{{ x.k }};{% endfor %}"),
        ("if", "{% if true %}{{ v }}{% else %}{{ m.k }}{% endif %}{{ m.k }}"),
        ("comp", "{% component cc(p) %}({{ p }}{{ body }}){% endcomponent cc %}{% <cc p={v}> %}{{ m.k }}{% </cc> %}"),
        ("safe", "{{ v | safe }}{{ m.k }}"),
        ("twice", "{{ v }}{{ v }}{{ m.k }}{{ m.k }}"),
    ];
    let values: [&str; 26] = [
        "i128:-170141183460469231731687303715884105728", // i128::MIN (40 characters)
        "i128:-170141183460469231731687303715884105727",
        "i128:-100000000000000000000000000000000000000", // -10^38
        "i128:-99999999999999999999999999999999999999",  // 39 characters
        "i128:170141183460469231731687303715884105727",
        "u128:340282366920938463463374607431768211455",
        "i64:-9223372036854775808",
        "u64:18446744073709551615",
        "i64:-1",
        "f:ffefffffffffffff", // f64::MIN: a text of more than 300 characters
        "f:7fefffffffffffff",
        "f:0000000000000001",
        "f:7ff8000000000000",
        "f:fff0000000000000",
        "f:8000000000000000",
        "y:ff",       // invalid UTF-8
        "y:61ff62c3", // invalid in the middle and truncated at the end
        "y:80",
        "y:e697a5",   // valid multi-byte
        "y:",
        "s:3c623e26e9",
        "S:3c623e26",
        "B1",
        "N",
        "A2 i128:-170141183460469231731687303715884105728 y:ff",
        "M1 s:6b y:ff",
    ];
    let rebind_bodies: [(&str, &str); 8] = [
        ("rb_if", "{% for x in xs %}{% set x = {\"f\": \"n\", \"ts\": [1, 2]} %}{% if x.f %}Y{% else %}N{% endif %}{{ x.f | upper }}{% for t in x.ts %}{{ t }}{% endfor %}{{ x.f ~ \"!\" }};{% endfor %}"),
        ("rb_before_after", "{% for x in xs %}[{{ x.f | default(value=\"-\") | upper }}{% set x = {\"f\": \"new\"} %}{{ x.f | upper }}{% if x.f == \"new\" %}=={% endif %}]{% endfor %}"),
        ("rb_key", "{% for k, x in mm %}{% set k = {\"f\": 1} %}{{ k.f + 1 }}{% set x = {\"f\": [7]} %}{% for t in x.f %}{{ t }}{% endfor %};{% endfor %}"),
        ("rb_nested", "{% for x in xs %}{% for y in [1] %}{% set x = {\"f\": \"in\"} %}{{ x.f | upper }}{% endfor %}{{ x.f | default(value=\"d\") | upper }};{% endfor %}"),
        ("rb_inner_only", "{% for x in xs %}{% for y in [1, 2] %}{% set y = {\"f\": y} %}{{ y.f * 2 }}{% if y.f > 1 %}>{% endif %}{% endfor %};{% endfor %}"),
        ("rb_global", "{% for x in xs %}{% set_global x = {\"f\": \"g\"} %}{{ x.f | default(value=\"d\") | upper }};{% endfor %}{{ x.f | upper }}"),
        ("rb_cond", "{% for x in xs %}{% if loop.first %}{% set x = {\"f\": \"one\"} %}{% endif %}{{ x.f | default(value=\"d\") | upper }}{% if x.f %}t{% endif %};{% endfor %}"),
        ("rb_compr", "{% for x in xs %}{% set x = {\"f\": [1, 2]} %}{{ [t * 2 for t in x.f] }}{{ x.f | length }};{% endfor %}"),
    ];
    // variables that exist ONLY in the instance's global context (`tera.global_context()`), used
    // through LOADED dotted paths (if / filter / set / for / operators / literals), written directly,
    // inside loops, captures and an include; also shadowed by the render context
    let global_bodies: [(&str, &str); 10] = [
        ("gl_if", "{% if site.lang == \"en\" %}E{% else %}O{% endif %}{% if site.nav.home.url %}u{% endif %}{% if not site.missing %}m{% endif %}"),
        ("gl_filter", "{{ site.title | upper }}{{ site.nav.home.url | length }}{{ site.nav.items | first }}"),
        ("gl_set", "{% set t = site.title %}{{ t }}{% set u = site.nav.home %}{{ u.url }}{% set_global z = site.n %}{{ z }}"),
        ("gl_for", "{% for i in site.nav.items %}{{ i }}{% endfor %}{% for k, v in site.nav.home %}{{ k }}={{ v }}{% endfor %}"),
        ("gl_ops", "{{ site.n + 1 }}{{ site.title ~ \"!\" }}{{ site.n in site.nav.items }}{{ [site.n, site.lang] }}{{ site.n if site.lang else 0 }}{{ site.n < gm.f.g }}"),
        ("gl_written", "{{ site.title }}|{{ gonly }}|{{ gm.f.g }}|{{ site.nav.home }}"),
        ("gl_loop", "{% for x in [1, 2] %}{% if site.lang == \"en\" %}{{ x }}{% endif %}{{ site.title | lower }}{{ gonly | upper }};{% endfor %}"),
        ("gl_capture", "{% set w %}{{ site.title | upper }}{% if gm.f.g %}{{ gm.f.g + 1 }}{% endif %}{% endset %}<{{ w }}>{% filter lower %}{{ site.lang | upper }}{% endfilter %}"),
        ("gl_inc_inner", "i{{ site.title | upper }}{% if site.lang == \"en\" %}E{% endif %}"),
        ("gl_include", "{% include \"gl_inc_inner\" %}|{{ site.lang | upper }}"),
    ];
    let globals: Vec<(String, String)> = vec![
        ("site".to_string(), "M4 s:6c616e67 s:656e s:6e i64:3 s:6e6176 M2 s:686f6d65 M1 s:75726c s:2f3c s:6974656d73 A2 i64:1 i64:3 s:7469746c65 s:543c693e".to_string()),
        ("gonly".to_string(), "s:4726".to_string()),
        ("gm".to_string(), "M1 s:66 M1 s:67 i64:7".to_string()),
    ];
    let rebind_ctx = vec![
        ("xs".to_string(), "A3 M2 s:66 s:6f s:7473 A1 i64:9 i64:3 M1 s:66 s:".to_string()),
        ("mm".to_string(), "M2 s:61 M1 s:66 s:6f s:62 i64:2".to_string()),
    ];
    let mut templates: Vec<(String, String)> = Vec::new();
    for (n, b) in print_bodies.iter().chain(rebind_bodies.iter()).chain(global_bodies.iter()) {
        // (component names are instance-wide: one per template)
        templates.push((format!("{n}.html"), b.replace("cc", "ch")));
        templates.push((n.to_string(), b.to_string()));
    }
    let (on, off) = match (build(&templates, false), build(&templates, true)) {
        (Ok(mut a), Ok(mut b)) => {
            for (k, w) in &globals {
                if let Some(v) = decode(w) {
                    a.global_context().insert_value(k.clone(), v.clone());
                    b.global_context().insert_value(k.clone(), v);
                }
            }
            (a, b)
        }
        (a, b) => {
            report.violation(
                "model-mismatch",
                format!("the directed on/off templates cannot be registered: on {:?} / off {:?}", a.err(), b.err()),
                serde_json::json!({"detail": {"stage": "directed-on-off"}, "templates": tj(&templates)}),
            );
            return;
        }
    };
    // (hex of the bytes render_to wrote | "err"), (render), (one byte per write)
    let outcome = |t: &Tera, name: &str, ctx: &Context| -> (String, String, String) {
        let mut w = Capped::new(1 << 20);
        let a = match catch(std::panic::AssertUnwindSafe(|| t.render_to(name, ctx, &mut w))) {
            Ok(Ok(())) => format!("ok {}", hex(&w.buf)),
            Ok(Err(_)) => "err".to_string(),
            Err(p) => format!("panic {p}"),
        };
        let b = match catch(std::panic::AssertUnwindSafe(|| t.render(name, ctx))) {
            Ok(Ok(s)) => format!("ok {s}"),
            Ok(Err(_)) => "err".to_string(),
            Err(p) => format!("panic {p}"),
        };
        let c = render_short(t, name, &Mode::Render, ctx, 1);
        (a, b, c)
    };
    let mut cases: Vec<(String, Vec<(String, String)>)> = Vec::new();
    for (n, _) in print_bodies.iter() {
        for v in values.iter() {
            let ctx = vec![
                ("v".to_string(), v.to_string()),
                ("m".to_string(), format!("M2 s:6b {v} s:71 M1 s:6a {v}")),
                ("l".to_string(), format!("A2 {v} {v}")),
                ("l2".to_string(), format!("A1 M1 s:6b {v}")),
            ];
            cases.push((n.to_string(), ctx.clone()));
            cases.push((format!("{n}.html"), ctx));
        }
    }
    for (n, _) in rebind_bodies.iter() {
        cases.push((n.to_string(), rebind_ctx.clone()));
        cases.push((format!("{n}.html"), rebind_ctx.clone()));
        cases.push((n.to_string(), vec![]));
    }
    for (n, _) in global_bodies.iter() {
        if *n == "gl_inc_inner" {
            continue;
        }
        for ctx in [
            vec![],
            vec![("other".to_string(), "i64:1".to_string())],
            // the render context shadows the global (wholly, and with a poorer map)
            vec![("site".to_string(), "M2 s:6c616e67 s:6672 s:7469746c65 s:43".to_string()), ("gonly".to_string(), "s:63".to_string())],
            vec![("gm".to_string(), "M1 s:66 M1 s:67 i64:0".to_string())],
        ] {
            cases.push((n.to_string(), ctx.clone()));
            cases.push((format!("{n}.html"), ctx));
        }
    }
    let mut reported: HashSet<String> = HashSet::new();
    for (name, ctxw) in &cases {
        let mut ctx = Context::new();
        for (k, w) in ctxw {
            if let Some(v) = decode(w) {
                ctx.insert_value(k.clone(), v);
            }
        }
        let a = outcome(&on, name, &ctx);
        let b = outcome(&off, name, &ctx);
        report.evaluations += 3;
        report.oracle_checks += 3;
        report.count(&format!("directed.{}", if a.1.starts_with("ok") { "ok" } else if a.1.starts_with("err") { "err" } else { "panic" }));
        for (which, x, y) in [("render_to (bytes, hex)", &a.0, &b.0), ("render", &a.1, &b.1), ("render_to into a writer taking 1 byte per call", &a.2, &b.2)] {
            if x != y {
                report.oracle_failures += 1;
                let key = format!("{}/{which}", name.trim_end_matches(".html"));
                if reported.len() < 4 && reported.insert(key) {
                    let src = templates.iter().find(|(n, _)| n == name).map(|t| t.1.clone()).unwrap_or_default();
                    // only the bindings the template mentions
                    let mut used: Vec<&(String, String)> = ctxw.iter().filter(|(k, _)| src.contains(&format!("{k}")) ).collect();
                    // (bindings of the instance's global context the template mentions, marked by position: after the render context)
                    let gl_used: Vec<&(String, String)> = globals.iter().filter(|(k, _)| src.contains(k.as_str()) && !ctxw.iter().any(|(c, _)| c == k)).collect();
                    let n_ctx_used = used.len();
                    used.extend(gl_used);
                    report.violation(
                        "property",
                        format!(
                            "optimisation pass changes the result (directed case, through {which}): `{src}` ({}) under render context {:?} + global_context() {:?} gives `{}` with the pass and `{}` without",
                            if name.ends_with(".html") { "autoescaped" } else { "not autoescaped" },
                            &used[..n_ctx_used],
                            &used[n_ctx_used..],
                            x.chars().take(160).collect::<String>(),
                            y.chars().take(160).collect::<String>()
                        ),
                        serde_json::json!({"directed": {"template": [name, src], "context": ctxw, "through": which,
                                "global_context": if src.contains("site") || src.contains("gonly") || src.contains("gm.") || src.contains("gl_inc_inner") { serde_json::json!(globals) } else { serde_json::json!([]) },
                                "also": templates.iter().filter(|(n, _)| src.contains(&format!("\"{n}\""))).collect::<Vec<_>>()},
                            "pass_on": x.chars().take(600).collect::<String>(), "pass_off": y.chars().take(600).collect::<String>(),
                            "rerun": "harness/target/release/c09 --replay <this file>"}),
                    );
                }
            }
        }
    }
    report.count_n("directed.cases", cases.len() as u64);
}

/// replay of a directed case
fn replay_directed(d: &serde_json::Value) {
    let name = d["template"][0].as_str().unwrap_or("t").to_string();
    let src = d["template"][1].as_str().unwrap_or("").to_string();
    let mut templates = vec![(name.clone(), src.clone())];
    for p in d["also"].as_array().cloned().unwrap_or_default() {
        if let (Some(n), Some(s)) = (p[0].as_str(), p[1].as_str()) {
            templates.push((n.to_string(), s.to_string()));
        }
    }
    println!("template {name}: {src}");
    let globals: Vec<(String, String)> = d["global_context"]
        .as_array()
        .cloned()
        .unwrap_or_default()
        .iter()
        .filter_map(|p| Some((p[0].as_str()?.to_string(), p[1].as_str()?.to_string())))
        .collect();
    for (k, w) in &globals {
        println!("  global context: {k} = {w}");
    }
    let mut ctx = Context::new();
    for p in d["context"].as_array().cloned().unwrap_or_default() {
        if let (Some(k), Some(w)) = (p[0].as_str(), p[1].as_str()) {
            println!("  {k} = {w}");
            if let Some(v) = decode(w) {
                ctx.insert_value(k.to_string(), v);
            }
        }
    }
    for (label, skip) in [("pass on ", false), ("pass off", true)] {
        match build(&templates, skip) {
            Ok(mut t) => {
                for (k, w) in &globals {
                    if let Some(v) = decode(w) {
                        t.global_context().insert_value(k.clone(), v);
                    }
                }
                for (cn, l) in hooks::stored_chunks_wire(&t, &name).unwrap_or_default() {
                    println!("  {label} {cn}: {}", l.join(" "));
                }
                let mut w = Capped::new(1 << 20);
                let r = catch(std::panic::AssertUnwindSafe(|| t.render_to(&name, &ctx, &mut w)));
                println!("{label}: render_to -> {:?}, bytes {}", r.map(|x| x.map_err(|e| e.to_string())), hex(&w.buf));
                println!("{label}: render    -> {:?}", catch(std::panic::AssertUnwindSafe(|| t.render(&name, &ctx).map_err(|e| e.to_string()))));
                println!("{label}: 1 byte per write -> {}", render_short(&t, &name, &Mode::Render, &ctx, 1));
            }
            Err(e) => println!("{label}: registration failed: {e}"),
        }
    }
}

// ------------------------------------------------------------------------------ differential

struct Diff {
    case: usize,
    mode: Mode,
    ctx: Ctx,
    /// "plain" | "escape" (custom escape function) | "short:<k>" (writer taking k bytes per call)
    variant: String,
    on: String,
    off: String,
}

fn agree(on: &str, off: &str) -> bool {
    on == off
}

fn mode_of_json(m: &serde_json::Value) -> Mode {
    match m {
        serde_json::Value::String(_) => Mode::Render,
        m if m.get("block").is_some() => Mode::Block(m["block"].as_str().unwrap().into()),
        m => Mode::Component(m["component"].as_str().unwrap().into()),
    }
}

fn item_json(case: &Case, modes: &[Mode], ctxs: &[Ctx]) -> serde_json::Value {
    serde_json::json!({
        "id": case.id, "name": case.name(), "stream": case.stream, "shape": case.shape,
        "modes": modes.iter().map(mode_json).collect::<Vec<_>>(),
        "ctxs": ctxs.iter().map(|c| c.to_vec()).collect::<Vec<_>>(),
    })
}

/// child side of the differential: both engines are built from the batch's templates, every item
/// is rendered in every mode under every context by both
fn child_diff(infile: &str, outfile: &str) -> ! {
    quiet_panics();
    child_main(
        infile,
        outfile,
        3,
        |common| {
            let templates: Vec<(String, String)> = common["templates"]
                .as_array()
                .unwrap()
                .iter()
                .map(|p| (p[0].as_str().unwrap().to_string(), p[1].as_str().unwrap().to_string()))
                .collect();
            let side = common["side"].as_str().unwrap_or("both").to_string();
            let on = if side != "off" { build(&templates, false).ok() } else { None };
            let off = if side != "on" { build(&templates, true).ok() } else { None };
            // the same pair with a user-installed escape function
            let (on_e, off_e) = if side == "both" { (build_escaping(&templates, false).ok(), build_escaping(&templates, true).ok()) } else { (None, None) };
            (on, off, on_e, off_e)
        },
        |(on, off, on_e, off_e), item| {
            let name = item["name"].as_str().unwrap();
            let mut n = 0u64;
            let mut classes = [0u64; 3];
            let mut rich: i64 = -1;
            let mut lines = Vec::new();
            let variants: Vec<String> = match item["variants"].as_array() {
                Some(v) => v.iter().filter_map(|x| x.as_str().map(|s| s.to_string())).collect(),
                None => default_variants(item["id"].as_u64().unwrap_or(2)),
            };
            let mut extra = 0u64;
            for m in item["modes"].as_array().unwrap() {
                let mode = mode_of_json(m);
                for c in item["ctxs"].as_array().unwrap() {
                    let c: Ctx = [c[0].as_u64().unwrap() as usize, c[1].as_u64().unwrap() as usize, c[2].as_u64().unwrap() as usize];
                    let ctx = make_ctx(&c);
                    // the extra variants: same comparison, other escaper / other writer
                    for v in variants.iter().filter(|v| v.as_str() != "plain") {
                        let (xa, xb) = if v == "escape" {
                            (on_e.as_ref().map(|t| render(t, name, &mode, &ctx)), off_e.as_ref().map(|t| render(t, name, &mode, &ctx)))
                        } else {
                            let k: usize = v.strip_prefix("short:").and_then(|k| k.parse().ok()).unwrap_or(1);
                            (on.as_ref().map(|t| render_short(t, name, &mode, &ctx, k)), off.as_ref().map(|t| render_short(t, name, &mode, &ctx, k)))
                        };
                        if let (Some(xa), Some(xb)) = (&xa, &xb) {
                            extra += 1;
                            if !agree(xa, xb) {
                                lines.push(format!("D {}", serde_json::json!({"mode": m, "ctx": c.to_vec(), "variant": v, "on": xa, "off": xb})));
                            }
                        }
                    }
                    if !variants.iter().any(|v| v == "plain") {
                        continue;
                    }
                    let a = on.as_ref().map(|t| render(t, name, &mode, &ctx));
                    let b = off.as_ref().map(|t| render(t, name, &mode, &ctx));
                    n += 1;
                    let shown = a.as_ref().or(b.as_ref()).cloned().unwrap_or_default();
                    let k = if shown.starts_with("ok") { 0 } else if shown.starts_with("err") { 1 } else { 2 };
                    classes[k] += 1;
                    if c == [RICH, RICH, RICH] && mode == Mode::Render {
                        rich = k as i64;
                    }
                    if let (Some(a), Some(b)) = (&a, &b) {
                        if item["id"].as_u64().unwrap_or(1) % 1499 == 0 && c == [RICH, RICH, RICH] && mode == Mode::Render {
                            lines.push(format!("X {}", serde_json::json!({"render": name, "context": ctx_json(&c), "pass_on": a, "pass_off": b})));
                        }
                        if !agree(a, b) {
                            lines.push(format!("D {}", serde_json::json!({"mode": m, "ctx": c.to_vec(), "variant": "plain", "on": a, "off": b})));
                        }
                    }
                }
            }
            lines.insert(0, format!("S {n} {} {} {} {rich}", classes[0], classes[1], classes[2]));
            lines.insert(1, format!("V {extra}"));
            lines
        },
    )
}

const CHILD_FLAG: &str = "--child-diff";

/// The on/off differential, run in child processes (a render that does not return, eats the
/// memory or kills the process is attributed to its case). Returns (renders, disagreements,
/// culprits: (case id, reason)).
fn differential(cases: &[Case], ctxs_per_case: &[Vec<Ctx>], threads: usize, hist: &mut BTreeMap<String, u64>, samples: &mut Vec<serde_json::Value>) -> (u64, Vec<Diff>, Vec<(usize, String)>) {
    let per_batch = 300usize;
    let batches: Vec<Batch> = cases
        .chunks(per_batch)
        .zip(ctxs_per_case.chunks(per_batch))
        .map(|(cs, xs)| Batch {
            common: serde_json::json!({"templates": cs.iter().flat_map(|c| c.templates()).collect::<Vec<_>>(), "side": "both"}),
            items: cs.iter().zip(xs).map(|(c, x)| item_json(c, &c.modes(), x)).collect(),
        })
        .collect();
    let results = run_batches(CHILD_FLAG, &batches, std::time::Duration::from_secs(600), threads);
    let mut n = 0u64;
    let mut diffs = Vec::new();
    let mut culprits = Vec::new();
    for (bi, r) in results.iter().enumerate() {
        let base = bi * per_batch;
        for (i, lines) in &r.results {
            let case = &cases[base + i];
            for l in lines {
                if let Some(st) = l.strip_prefix("S ") {
                    let v: Vec<i64> = st.split(' ').filter_map(|x| x.parse().ok()).collect();
                    if v.len() == 5 {
                        n += v[0] as u64;
                        *hist.entry(format!("render.{}.ok", case.stream)).or_insert(0) += v[1] as u64;
                        *hist.entry(format!("render.{}.err", case.stream)).or_insert(0) += v[2] as u64;
                        *hist.entry(format!("render.{}.panic", case.stream)).or_insert(0) += v[3] as u64;
                        if v[4] >= 0 && case.stream == "jump-adjacent" {
                            let class = ["ok", "err", "panic"][v[4] as usize];
                            *hist.entry(format!("rich_context.{}.{class}", case.shape)).or_insert(0) += 1;
                        }
                    }
                } else if let Some(v) = l.strip_prefix("V ") {
                    let k: u64 = v.parse().unwrap_or(0);
                    n += k;
                    *hist.entry("render.variant.custom_escaper_or_short_writer".into()).or_insert(0) += k;
                } else if let Some(x) = l.strip_prefix("X ") {
                    if let Ok(mut j) = serde_json::from_str::<serde_json::Value>(x) {
                        j["template"] = serde_json::json!(case.templates().last());
                        samples.push(j);
                    }
                } else if let Some(d) = l.strip_prefix("D ") {
                    if let Ok(j) = serde_json::from_str::<serde_json::Value>(d) {
                        let c = &j["ctx"];
                        diffs.push(Diff {
                            case: case.id,
                            mode: mode_of_json(&j["mode"]),
                            ctx: [c[0].as_u64().unwrap() as usize, c[1].as_u64().unwrap() as usize, c[2].as_u64().unwrap() as usize],
                            variant: j["variant"].as_str().unwrap_or("plain").to_string(),
                            on: j["on"].as_str().unwrap_or("").to_string(),
                            off: j["off"].as_str().unwrap_or("").to_string(),
                        });
                    }
                }
            }
        }
        for (i, reason) in &r.culprits {
            culprits.push((cases[base + i].id, reason.clone()));
        }
        if r.abandoned > 0 {
            *hist.entry("differential.items_abandoned".into()).or_insert(0) += r.abandoned as u64;
        }
    }
    (n, diffs, culprits)
}

/// one case, one side, in a child: "done" | "timeout" | "crash: …"
fn side_outcome(case: &Case, ctxs: &[Ctx], side: &str) -> String {
    // on its own and with a generous limit: a busy machine must not look like a hang
    let b = Batch {
        common: serde_json::json!({"templates": case.templates(), "side": side, "limit_secs": 25}),
        items: vec![item_json(case, &case.modes(), ctxs)],
    };
    let r = run_batch(CHILD_FLAG, 900_000 + case.id, &b, std::time::Duration::from_secs(60), 0);
    match r.culprits.first() {
        Some((_, reason)) => reason.clone(),
        None => "done".into(),
    }
}

/// does this (templates, render target, mode, context) still disagree between on and off?
/// (evaluated in a child process)
fn disagrees(templates: &[(String, String)], name: &str, mode: &Mode, c: &Ctx, variant: &str) -> Option<(String, String)> {
    let b = Batch {
        common: serde_json::json!({"templates": templates, "side": "both"}),
        items: vec![serde_json::json!({"id": 0, "name": name, "stream": "", "shape": "", "modes": [mode_json(mode)], "ctxs": [c.to_vec()], "variants": [variant]})],
    };
    let r = run_batch(CHILD_FLAG, 800_000, &b, std::time::Duration::from_secs(30), 0);
    for (_, lines) in &r.results {
        for l in lines {
            if let Some(d) = l.strip_prefix("D ") {
                let j: serde_json::Value = serde_json::from_str(d).ok()?;
                return Some((j["on"].as_str()?.to_string(), j["off"].as_str()?.to_string()));
            }
        }
    }
    None
}

/// greedy shrink: drop segments, move to the plain body, unbind variables
fn shrink(case: &Case, mode: &Mode, ctx: &Ctx, variant: &str) -> (Case, Mode, Ctx, String, String) {
    let mut best = case.clone();
    let mut best_mode = mode.clone();
    let mut best_ctx = *ctx;
    let mut last = disagrees(&best.templates(), &best.name(), &best_mode, &best_ctx, variant).unwrap_or_default();
    // a big-chunk case is minimal by construction (the size is the point): only its context shrinks
    let big = case.stream == "big-chunk";
    let t0 = std::time::Instant::now();
    let mut progress = true;
    while progress && t0.elapsed().as_secs() < 8 {
        progress = false;
        // fewer segments
        for i in 0..best.segs.len() {
            if best.segs.len() <= 1 || big {
                break;
            }
            let mut c = best.clone();
            c.segs.remove(i);
            if let Some(r) = disagrees(&c.templates(), &c.name(), &best_mode, &best_ctx, variant) {
                best = c;
                last = r;
                progress = true;
                break;
            }
        }
        // simpler place
        if best.place != Place::Body && !big {
            let mut c = best.clone();
            c.place = Place::Body;
            if let Some(r) = disagrees(&c.templates(), &c.name(), &Mode::Render, &best_ctx, variant) {
                best = c;
                best_mode = Mode::Render;
                last = r;
                progress = true;
            }
        }
        // simpler context
        for i in 0..3 {
            for simpler in [0usize, 6, 12] {
                if best_ctx[i] == simpler || (best_ctx[i] == 0) {
                    continue;
                }
                let mut c = best_ctx;
                c[i] = simpler;
                if let Some(r) = disagrees(&best.templates(), &best.name(), &best_mode, &c, variant) {
                    best_ctx = c;
                    last = r;
                    progress = true;
                    break;
                }
            }
        }
    }
    (best, best_mode, best_ctx, last.0, last.1)
}

fn mode_json(m: &Mode) -> serde_json::Value {
    match m {
        Mode::Render => serde_json::json!("render"),
        Mode::Block(b) => serde_json::json!({"block": b}),
        Mode::Component(c) => serde_json::json!({"component": c}),
    }
}

fn replay_json(templates: &[(String, String)], name: &str, mode: &Mode, ctx: &Ctx, variant: &str, on: &str, off: &str, detail: serde_json::Value) -> serde_json::Value {
    serde_json::json!({
        "templates": tj(templates),
        "render": name,
        "variant": variant,
        "mode": mode_json(mode),
        "context": ctx_json(ctx),
        "context_index": ctx.to_vec(),
        "pass_on": on,
        "pass_off": off,
        "detail": detail,
        "rerun": "harness/target/release/c09 --replay <this file>",
    })
}

fn run_replay(path: &str) {
    let text = std::fs::read_to_string(path).expect("replay file");
    let j: serde_json::Value = serde_json::from_str(&text).expect("replay json");
    let j = if j.get("replay").is_some() { j["replay"].clone() } else { j };
    if let Some(d) = j.get("directed") {
        replay_directed(d);
        return;
    }
    if let Some(w) = j.get("window") {
        let window: Vec<String> = w.as_array().unwrap().iter().map(|x| x.as_str().unwrap().to_string()).collect();
        println!("window: {}\nreal optimize: {}", window.join(" "), real_optimize(&window));
        let exe = driver::driver_path(&Env::from_env().verif_dir, "drv_c09");
        let m = driver::run_batch(&exe, &[format!("opt {}", window.join(" "))]);
        println!("model optimize: {m:?}");
        return;
    }
    let templates: Vec<(String, String)> = j["templates"]
        .as_array()
        .unwrap()
        .iter()
        .map(|p| (p[0].as_str().unwrap().to_string(), expand_source(&p[1])))
        .collect();
    let variant = j["variant"].as_str().unwrap_or("plain").to_string();
    let name = j["render"].as_str().unwrap().to_string();
    let mode = match &j["mode"] {
        serde_json::Value::String(_) => Mode::Render,
        m if m.get("block").is_some() => Mode::Block(m["block"].as_str().unwrap().into()),
        m => Mode::Component(m["component"].as_str().unwrap().into()),
    };
    let mut ctx = Context::new();
    for r in ROOTS {
        let w = j["context"][r].as_str().unwrap();
        if w != "-" {
            ctx.insert_value(r, decode(w).unwrap());
        }
    }
    let big = templates.iter().any(|(_, s)| s.len() > 100_000);
    for (n, s) in &templates {
        println!("template {n}: {}", show_src(s));
        if let Ok(chunks) = hooks::raw_chunks_wire(n, s, Delimiters::default()) {
            for (cn, l) in chunks {
                if l.len() > 5000 {
                    println!("  raw {cn}: {} instructions, the last 12: {}", l.len(), l[l.len() - 12..].join(" "));
                } else {
                    println!("  raw {cn}: {}", l.join(" "));
                }
            }
        }
    }
    println!("context: {}   variant: {variant}", j["context"]);
    let engines = if variant == "escape" { (build_escaping(&templates, false), build_escaping(&templates, true)) } else { (build(&templates, false), build(&templates, true)) };
    match engines {
        (Ok(on), Ok(off)) => {
            for (n, s) in &templates {
                let raw = hooks::raw_chunks_wire(n, s, Delimiters::default()).unwrap_or_default();
                for (k, (cn, l)) in hooks::stored_chunks_wire(&on, n).unwrap_or_default().into_iter().enumerate() {
                    if l.len() > 5000 {
                        println!("  optimised {n} {cn}: {} instructions, the last 12: {}", l.len(), l[l.len() - 12..].join(" "));
                    } else {
                        println!("  optimised {n} {cn}: {}", l.join(" "));
                    }
                    if let Some((_, r)) = raw.get(k) {
                        if let Some(d) = structural_oracle(r, &l) {
                            println!("  structural oracle on {n} {cn}: {d}");
                        }
                    }
                }
            }
            let shorten = |x: String| if big && x.len() > 300 { format!("{} … {} ({} bytes)", x.chars().take(60).collect::<String>(), x.chars().rev().take(120).collect::<Vec<_>>().into_iter().rev().collect::<String>(), x.len()) } else { x };
            let rend = |t: &Tera| match variant.strip_prefix("short:").and_then(|k| k.parse::<usize>().ok()) {
                Some(k) => render_short(t, &name, &mode, &ctx, k),
                None => render(t, &name, &mode, &ctx),
            };
            println!("pass on : {}", shorten(rend(&on)));
            println!("pass off: {}", shorten(rend(&off)));
        }
        (a, b) => println!("registration: on {:?} / off {:?}", a.err(), b.err()),
    }
}

// ------------------------------------------------------------------------------ main

fn main() {
    quiet_panics();
    let env = Env::from_env();
    {
        let args: Vec<String> = std::env::args().collect();
        if let Some(i) = args.iter().position(|a| a == CHILD_FLAG) {
            child_diff(&args[i + 1], &args[i + 2]);
        }
    }
    if let Some(p) = replay_path() {
        run_replay(&p);
        return;
    }
    let mut report = Report::new("C09");
    let mut rng = Rng::new(env.seed);
    let threads = std::thread::available_parallelism().map(|n| n.get()).unwrap_or(8).min(16);
    let exe = driver::driver_path(&env.verif_dir, "drv_c09");

    // ---- generate
    let mut cases = generate_cases(&mut rng, env.budget(24, 120), env.budget(6000, 50_000));
    let first_big = cases.iter().map(|c| c.id).max().unwrap_or(0) + 1;
    cases.extend(big_cases(first_big));
    let mut all_templates: Vec<(String, String)> = Vec::new();
    for c in &cases {
        all_templates.extend(c.templates());
        report.count(&format!("case.stream.{}", c.stream));
        report.count(&format!("case.place.{:?}", c.place));
    }
    report.count_n("templates.total", all_templates.len() as u64);

    // ---- build the two engines (sequentially: the switch is process-global)
    let ((on, records), off, cases) = match (build_recorded(&all_templates, false), build(&all_templates, true)) {
        (Ok(on), Ok(off)) => (on, off, cases),
        (e1, _) => {
            // some generated template was refused: find the culprits one case at a time and drop them
            report.notes.push(format!("bulk registration failed ({:?}); registering case by case", e1.err()));
            let mut kept = Vec::new();
            for c in cases {
                match build(&c.templates(), false) {
                    Ok(_) => kept.push(c),
                    Err(e) => {
                        report.count("case.rejected_at_registration");
                        // refused (or panicking) only because of the pass: a difference in behaviour
                        if build(&c.templates(), true).is_ok() {
                            report.oracle_checks += 1;
                            report.oracle_failures += 1;
                            if report.violations.iter().filter(|v| v.summary.starts_with("registration")).count() < 2 {
                                report.violation(
                                    "property",
                                    format!(
                                        "registration of `{}` fails with the optimisation pass ({}) and succeeds without it",
                                        c.templates().last().map(|t| show_src(&t.1)).unwrap_or_default(),
                                        e.lines().next().unwrap_or("").chars().take(160).collect::<String>()
                                    ),
                                    serde_json::json!({"templates": tj(&c.templates()), "render": c.name(), "mode": "render", "context": ctx_json(&[0, 0, 0]),
                                        "pass_on": format!("registration: {}", e.lines().next().unwrap_or("")), "pass_off": "registration ok",
                                        "rerun": "harness/target/release/c09 --replay <this file>"}),
                                );
                            }
                        }
                        let first = e.lines().next().unwrap_or("").chars().take(60).collect::<String>();
                        report.count(&format!("rejected.{first}"));
                        if report.notes.len() < 6 {
                            report.notes.push(format!("rejected: {:?} — {}", c.templates(), e.chars().take(200).collect::<String>()));
                        }
                    }
                }
            }
            let tpls: Vec<(String, String)> = kept.iter().flat_map(|c| c.templates()).collect();
            all_templates = tpls;
            (
                build_recorded(&all_templates, false).expect("registration of the accepted cases (pass on)"),
                build(&all_templates, true).expect("registration of the accepted cases (pass off)"),
                kept,
            )
        }
    };

    // ---- stage diff on real listings
    struct ChunkObs {
        case: usize,
        tpl: String,
        chunk: String,
        raw: Vec<String>,
        stored: Vec<String>,
        stored_off: Vec<String>,
        recorded: bool,
    }
    let mut obs: Vec<ChunkObs> = Vec::new();
    let mut case_fused: HashSet<usize> = HashSet::new();
    let mut case_fused_and_jump: HashSet<usize> = HashSet::new();
    // post listing -> pre listings of the passes that produced it
    let mut by_post: std::collections::HashMap<String, Vec<Vec<String>>> = std::collections::HashMap::new();
    report.count_n("optimize.calls_recorded", records.len() as u64);
    for (pre, post) in records {
        by_post.entry(post.join(" ")).or_default().push(pre);
    }
    for c in &cases {
        for (n, _) in c.templates() {
            let st_on = hooks::stored_chunks_wire(&on, &n).unwrap_or_default();
            let st_off = hooks::stored_chunks_wire(&off, &n).unwrap_or_default();
            if st_on.len() != st_off.len() {
                report.violation(
                    "model-mismatch",
                    format!("template {n}: {} chunks with the pass, {} without", st_on.len(), st_off.len()),
                    serde_json::json!({"templates": tj(&c.templates()), "detail": {"stage": "optimize-listing:chunk-set"}}),
                );
                continue;
            }
            for ((cn, so), (_, sf)) in st_on.into_iter().zip(st_off.into_iter()) {
                // the pre-pass listing of the very compilation that produced this stored chunk; a
                // stored chunk no recorded pass produced must at least be a fixed point of the pass
                let (r, recorded) = match by_post.get_mut(&so.join(" ")).and_then(|v| v.pop()) {
                    Some(pre) => (pre, true),
                    None => (so.clone(), false),
                };
                if !recorded {
                    report.count("chunks.not_produced_by_a_recorded_pass");
                }
                let fused = so.iter().any(|t| t.starts_with("LoadPath:") || t.starts_with("WritePath:"));
                let jumps = r.iter().any(|t| is_jump(split_tok(t).0));
                if fused {
                    case_fused.insert(c.id);
                    if jumps {
                        case_fused_and_jump.insert(c.id);
                    }
                }
                obs.push(ChunkObs { case: c.id, tpl: n.clone(), chunk: cn, raw: r, stored: so, stored_off: sf, recorded });
            }
        }
    }
    report.count_n("chunks.total", obs.len() as u64);
    report.count_n("chunks.main", obs.iter().filter(|o| o.chunk == "main").count() as u64);
    report.count_n("chunks.block", obs.iter().filter(|o| o.chunk.starts_with("block:")).count() as u64);
    report.count_n("chunks.component", obs.iter().filter(|o| o.chunk.starts_with("component:")).count() as u64);
    report.count_n("chunks.with_fusion", obs.iter().filter(|o| o.raw.len() != o.stored.len()).count() as u64);
    report.count_n("instructions.raw", obs.iter().map(|o| o.raw.len() as u64).sum());
    report.count_n("instructions.stored", obs.iter().map(|o| o.stored.len() as u64).sum());
    report.count_n("cases.with_fusion", case_fused.len() as u64);
    report.count_n("cases.with_fusion_and_jump", case_fused_and_jump.len() as u64);

    // the Lean optimiser is list based and quadratic: listings beyond this size are left to the
    // structural oracle and the on/off differential
    const MODEL_MAX_INSTRUCTIONS: usize = 20_000;
    report.count_n("chunks.too_big_for_the_model_stage", obs.iter().filter(|o| o.raw.len() > MODEL_MAX_INSTRUCTIONS).count() as u64);
    let reqs: Vec<String> = obs.iter().map(|o| if o.raw.len() > MODEL_MAX_INSTRUCTIONS { "opt WriteTop:@".to_string() } else { format!("opt {}", o.raw.join(" ")) }).collect();
    let model = match driver::run_batch_parallel(&exe, &reqs, threads) {
        Ok(m) => m,
        Err(e) => {
            report.violation("model-mismatch", format!("model driver could not be run: {e}"), serde_json::json!({"detail": {"stage": "driver", "error": e}}));
            Vec::new()
        }
    };
    let mut stage_mismatch: Vec<usize> = Vec::new();
    let mut structural_fail: Vec<(usize, String)> = Vec::new();
    // the hypotheses of the theorems, checked on every real raw listing
    let mut assumption_fail: Vec<(usize, String)> = Vec::new();
    for (i, o) in obs.iter().enumerate() {
        if !o.recorded {
            continue;
        }
        for (p, tok) in o.raw.iter().enumerate() {
            let (kind, arg, spans) = split_tok(tok);
            let nspans = spans.split(';').filter(|x| !x.is_empty()).count();
            let bad = if is_jump(kind) && arg.parse::<usize>().map(|t| t > o.raw.len()).unwrap_or(true) {
                Some(format!("jump operand beyond the one-past-the-end index at {p}: {tok}"))
            } else if kind == "LoadPath" || kind == "WritePath" {
                Some(format!("the compiler emitted a fused instruction at {p}: {tok}"))
            } else if (kind == "LoadName" || kind == "LoadAttr") && nspans != 1 {
                Some(format!("{kind} with {nspans} spans at {p}"))
            } else {
                None
            };
            if let Some(b) = bad {
                assumption_fail.push((i, b));
                break;
            }
        }
    }
    report.count_n("assumptions.checked_chunks", obs.len() as u64);
    report.count_n("assumptions.failed_chunks", assumption_fail.len() as u64);
    for (i, b) in assumption_fail.iter().take(2) {
        let o = &obs[*i];
        report.violation(
            "model-mismatch",
            format!("a hypothesis of the C09 theorems does not hold for the compiled bytecode of {} ({}): {b}", o.tpl, o.chunk),
            serde_json::json!({"raw": o.raw, "detail": {"stage": "compiler-output-assumptions", "what": b}}),
        );
    }
    for (i, o) in obs.iter().enumerate() {
        // the switch really switches the pass off (otherwise the differential is vacuous)
        if o.stored_off.iter().any(|t| t.starts_with("LoadPath:") || t.starts_with("WritePath:")) {
            report.count("sanity.off_engine_not_raw");
        }
        if !model.is_empty() && o.raw.len() <= MODEL_MAX_INSTRUCTIONS {
            report.model_comparisons += 1;
            let want = if o.stored.is_empty() { "ok".to_string() } else { format!("ok {}", o.stored.join(" ")) };
            if model[i] != want {
                report.model_disagreements += 1;
                stage_mismatch.push(i);
            }
        }
        if o.recorded {
            report.oracle_checks += 1;
            if let Some(d) = structural_oracle(&o.raw, &o.stored) {
                report.oracle_failures += 1;
                structural_fail.push((i, d));
            }
        }
    }
    if report.histogram.get("sanity.off_engine_not_raw").copied().unwrap_or(0) > 0 {
        report.violation(
            "model-mismatch",
            "the engine built under set_skip_optimize(true) does not hold the raw bytecode: the on/off differential would be vacuous".into(),
            serde_json::json!({"detail": {"stage": "hook:set_skip_optimize"}}),
        );
    }

    // ---- synthetic windows through the real Chunk::optimize (in rounds, to bound memory)
    let max_exh = env.budget(4, 5);
    let mut window_mismatch: Vec<(Vec<String>, String, String)> = Vec::new();
    let mut window_samples: Vec<serde_json::Value> = Vec::new();
    let mut window_distinct: HashSet<u64> = HashSet::new();
    let rounds = env.budget(1, 12);
    let per_round = env.budget(120_000, 3_000_000) / rounds;
    for round in 0..rounds {
        let mut windows: Vec<Vec<String>> = Vec::new();
        if round == 0 {
            for len in 0..=max_exh {
                let alpha = syn_alphabet(len, false);
                let mut choice = vec![0usize; len];
                loop {
                    windows.push(syn_window(&choice, &alpha));
                    let mut k = 0;
                    while k < len {
                        choice[k] += 1;
                        if choice[k] < alpha.len() {
                            break;
                        }
                        choice[k] = 0;
                        k += 1;
                    }
                    if k == len {
                        break;
                    }
                }
            }
            report.count_n("windows.exhaustive", windows.len() as u64);
        }
        let n_before = windows.len();
        for _ in 0..per_round {
            let len = 1 + rng.below(9);
            let alpha = syn_alphabet(len, true);
            // bias towards paths
            let choice: Vec<usize> = (0..len).map(|_| if rng.chance(1, 2) { rng.below(4) } else { rng.below(alpha.len()) }).collect();
            windows.push(syn_window(&choice, &alpha));
        }
        report.count_n("windows.random", (windows.len() - n_before) as u64);
        let real_w: Vec<String> = {
            let chunk = windows.len().div_ceil(threads).max(1);
            std::thread::scope(|s| {
                let hs: Vec<_> = windows.chunks(chunk).map(|ws| s.spawn(move || ws.iter().map(|w| real_optimize(w)).collect::<Vec<_>>())).collect();
                hs.into_iter().flat_map(|h| h.join().unwrap()).collect()
            })
        };
        let wreqs: Vec<String> = windows.iter().map(|w| format!("opt {}", w.join(" "))).collect();
        let model_w = driver::run_batch_parallel(&exe, &wreqs, threads).unwrap_or_default();
        for (i, w) in windows.iter().enumerate() {
            report.evaluations += 1;
            let class = real_w[i].split(' ').next().unwrap_or("");
            report.count(&format!("window.real.{class}"));
            if real_w[i] != format!("ok {}", w.join(" ")) {
                use std::hash::{Hash, Hasher};
                let mut h = std::collections::hash_map::DefaultHasher::new();
                wreqs[i].hash(&mut h);
                if window_distinct.insert(h.finish()) {
                    // the pass changed something (or panicked): a non-trivial window
                    report.distinct_nontrivial += 1;
                }
            }
            if !model_w.is_empty() {
                report.model_comparisons += 1;
                if model_w[i] != real_w[i] {
                    report.model_disagreements += 1;
                    if window_mismatch.len() < 5 {
                        window_mismatch.push((w.clone(), real_w[i].clone(), model_w[i].clone()));
                    }
                }
            }
            if let Some(rest) = real_w[i].strip_prefix("ok") {
                let stored: Vec<String> = rest.split_whitespace().map(|s| s.to_string()).collect();
                // windows may contain pre-fused instructions and dangling jumps: the structural
                // oracle is stated for compiler output, so only apply it when all operands are in range
                let in_range = w.iter().all(|t| {
                    let (k, a, _) = split_tok(t);
                    !is_jump(k) || a.parse::<usize>().map(|x| x <= w.len()).unwrap_or(false)
                });
                if in_range {
                    report.oracle_checks += 1;
                    if let Some(d) = structural_oracle(w, &stored) {
                        report.oracle_failures += 1;
                        if report.violations.len() < 5 {
                            report.violation(
                                "property",
                                format!("Chunk::optimize breaks the structural clause on a synthetic instruction window: {d}"),
                                serde_json::json!({"window": w, "real": real_w[i], "detail": {"oracle": d}, "rerun": "harness/target/release/c09 --replay <this file>"}),
                            );
                        }
                    }
                }
            }
        }
        if round == 0 {
            for i in [n_before / 2, windows.len() - 1] {
                window_samples.push(serde_json::json!({"window": windows[i].join(" "), "real": real_w[i], "model": model_w.get(i)}));
            }
        }
    }

    // ---- the path instructions of the real VM against the model the semantic theorems are about
    pathvm_stage(&mut report, &exe, threads);

    // ---- directed on/off cases (extreme / invalid values printed through paths, re-bound loop variables)
    directed_stage(&mut report);

    // ---- on/off differential
    let n_ctx = env.budget(7, 14);
    let ctxs_per_case: Vec<Vec<Ctx>> = cases.iter().map(|_| contexts_for(&mut rng, n_ctx)).collect();
    let mut hist = BTreeMap::new();
    let mut render_samples: Vec<serde_json::Value> = Vec::new();
    let (n_renders, diffs, culprits) = differential(&cases, &ctxs_per_case, threads, &mut hist, &mut render_samples);
    for (k, v) in hist {
        report.count_n(&k, v);
    }
    report.evaluations += n_renders;
    report.oracle_checks += n_renders;
    report.oracle_failures += diffs.len() as u64;
    report.distinct_nontrivial += case_fused.len() as u64;

    let case_by_id: BTreeMap<usize, &Case> = cases.iter().map(|c| (c.id, c)).collect();
    // renders that did not come back: which side?
    report.count_n("differential.cases_not_returning", culprits.len() as u64);
    for (cid, reason) in culprits.iter().take(3) {
        let case = case_by_id[cid];
        let idx = cases.iter().position(|c| c.id == *cid).unwrap_or(0);
        let ctxs = &ctxs_per_case[idx];
        let on_r = side_outcome(case, ctxs, "on");
        let off_r = side_outcome(case, ctxs, "off");
        report.oracle_checks += 1;
        if on_r != off_r {
            report.oracle_failures += 1;
            report.violation(
                "property",
                format!(
                    "rendering `{}` with the pass: {on_r}; without the pass: {off_r} (limit 25 s per case on its own, 3 GiB)",
                    case.templates().last().map(|t| show_src(&t.1)).unwrap_or_default()
                ),
                serde_json::json!({"templates": tj(&case.templates()), "render": case.name(), "mode": "render",
                    "context": ctx_json(&ctxs[0]), "contexts_tried": ctxs.iter().map(ctx_json).collect::<Vec<_>>(),
                    "pass_on": on_r, "pass_off": off_r, "detail": {"first_seen": reason},
                    "rerun": "harness/target/release/c09 --replay <this file>   (renders in-process: may not return)"}),
            );
        } else {
            report.notes.push(format!("case t{cid} does not return on either side ({on_r}); not a difference between pass on and off"));
        }
    }
    let mut seen_shapes: HashSet<String> = HashSet::new();
    for d in &diffs {
        let case = case_by_id[&d.case];
        if !seen_shapes.insert(format!("{}/{:?}/{}", case.shape, case.place, d.variant.split(':').next().unwrap_or(""))) || report.violations.len() >= 6 {
            continue;
        }
        let (sc, sm, sx, on_r, off_r) = shrink(case, &d.mode, &d.ctx, &d.variant);
        let how = match d.variant.as_str() {
            "plain" => String::new(),
            "escape" => " (engines with a user-installed escape function: `<` -> `[LT]`, `&` -> `[AMP]`, `b` -> `B`)".to_string(),
            v => format!(" (through render_to into a writer that takes {} byte(s) per write call)", v.strip_prefix("short:").unwrap_or("?")),
        };
        // where the two texts part
        let cut = |x: &str| -> String {
            let common = on_r.chars().zip(off_r.chars()).take_while(|(a, b)| a == b).count();
            let from = common.saturating_sub(20);
            format!("{}{}", if from > 0 { "…" } else { "" }, x.chars().skip(from).take(80).collect::<String>())
        };
        let first_seen = |x: &str| x.chars().take(400).collect::<String>();
        report.violation(
            "property",
            format!(
                "optimisation pass changes the result{how}: `{}` under context {} renders `{}` with the pass and `{}` without",
                sc.templates().last().map(|t| show_src(&t.1)).unwrap_or_default(),
                ctx_json(&sx),
                cut(&on_r),
                cut(&off_r)
            ),
            replay_json(&sc.templates(), &sc.name(), &sm, &sx, &d.variant, &first_seen(&on_r), &first_seen(&off_r), serde_json::json!({"original_case": tj(&case.templates()), "first_seen": {"on": first_seen(&d.on), "off": first_seen(&d.off)}})),
        );
    }

    // ---- the structural oracle on real listings
    for (i, d) in structural_fail.iter().take(4) {
        let o = &obs[*i];
        let case = case_by_id[&o.case];
        report.violation(
            "property",
            format!("stored bytecode of {} ({}) is not the raw bytecode with only variable paths merged: {d} — template {}", o.tpl, o.chunk, case.templates().last().map(|t| show_src(&t.1)).unwrap_or_default()),
            serde_json::json!({"templates": tj(&case.templates()), "render": case.name(), "mode": "render", "context": ctx_json(&[0, 0, 0]),
                "raw": if o.raw.len() > 5000 { serde_json::json!(format!("{} instructions (see the replay output)", o.raw.len())) } else { serde_json::json!(o.raw) },
                "stored": if o.stored.len() > 5000 { serde_json::json!(format!("{} instructions", o.stored.len())) } else { serde_json::json!(o.stored) },
                "detail": {"oracle": d}, "rerun": "harness/target/release/c09 --replay <this file>"}),
        );
    }

    // ---- model disagreements: only reported if no property failure was found, after a burst
    let have_property_failure = report.violations.iter().any(|v| v.kind == "property");
    if !have_property_failure && (!stage_mismatch.is_empty() || !window_mismatch.is_empty()) {
        // targeted burst: the mismatching templates (and all shapes again) under 10x the contexts
        let burst_cases: Vec<Case> = {
            let mut ids: Vec<usize> = stage_mismatch.iter().map(|i| obs[*i].case).collect();
            ids.sort();
            ids.dedup();
            let mut v: Vec<Case> = ids.iter().filter_map(|i| case_by_id.get(i).map(|c| (*c).clone())).collect();
            if v.is_empty() {
                v = cases.iter().filter(|c| c.stream == "jump-adjacent").cloned().collect();
            }
            v
        };
        let burst_ctxs: Vec<Vec<Ctx>> = burst_cases.iter().map(|_| contexts_for(&mut rng, n_ctx * 10)).collect();
        let mut h2 = BTreeMap::new();
        let (n2, d2, _) = differential(&burst_cases, &burst_ctxs, threads, &mut h2, &mut Vec::new());
        report.count_n("burst.renders", n2);
        report.oracle_checks += n2;
        report.oracle_failures += d2.len() as u64;
        if let Some(d) = d2.first() {
            let case = case_by_id[&d.case];
            let (sc, sm, sx, on_r, off_r) = shrink(case, &d.mode, &d.ctx, &d.variant);
            report.violation(
                "property",
                format!("optimisation pass changes the result (found by the burst after a listing mismatch): on `{}` / off `{}`", on_r.chars().take(80).collect::<String>(), off_r.chars().take(80).collect::<String>()),
                replay_json(&sc.templates(), &sc.name(), &sm, &sx, &d.variant, &on_r, &off_r, serde_json::json!({"stage": "optimize-listing"})),
            );
        } else {
            for i in stage_mismatch.iter().take(3) {
                let o = &obs[*i];
                let case = case_by_id[&o.case];
                report.violation(
                    "model-mismatch",
                    format!("model optimize(raw listing) differs from the stored listing of {} ({})", o.tpl, o.chunk),
                    serde_json::json!({"templates": tj(&case.templates()), "render": case.name(), "mode": "render", "context": ctx_json(&[0, 0, 0]),
                        "raw": o.raw, "stored": o.stored, "model": model.get(*i),
                        "detail": {"stage": "optimize-listing", "chunk": o.chunk}, "rerun": "harness/target/release/c09 --replay <this file>"}),
                );
            }
            for (w, real, model) in window_mismatch.iter().take(3) {
                report.violation(
                    "model-mismatch",
                    format!("model optimize differs from Chunk::optimize on a synthetic window: real `{real}` model `{model}`"),
                    serde_json::json!({"window": w, "real": real, "model": model,
                        "detail": {"stage": "optimize-synthetic-window"}, "rerun": "harness/target/release/c09 --replay <this file>"}),
                );
            }
        }
    }

    // ---- samples, rule
    for i in [0usize, obs.len() / 3, obs.len() / 2, obs.len().saturating_sub(8)] {
        if let Some(o) = obs.get(i).filter(|o| o.raw.len() < 2000) {
            let case = case_by_id[&o.case];
            report.sample(serde_json::json!({"template": case.templates().last(), "chunk": o.chunk, "raw": o.raw.join(" "), "stored": o.stored.join(" "), "model": model.get(i)}));
        }
    }
    for x in &window_samples {
        report.sample(x.clone());
    }
    for x in render_samples.iter().take(3) {
        report.sample(x.clone());
    }
    let frac = |a: usize, b: usize| if b == 0 { 0.0 } else { a as f64 / b as f64 };
    report.notes.push(format!(
        "{:.0}% of generated cases have at least one fused instruction in their stored bytecode, {:.0}% have one in a chunk that also contains a jump",
        100.0 * frac(case_fused.len(), cases.len()),
        100.0 * frac(case_fused_and_jump.len(), cases.len())
    ));
    report.exhaustive = false;
    report.rule = format!(
        "evaluations = synthetic windows + on/off renders. Non-trivial: a synthetic window on which Chunk::optimize changes the code or panics (distinct by window), plus a generated template case whose stored bytecode contains a fused instruction (distinct by case; every case is rendered under {} contexts in each applicable mode: whole / block / component). Windows of length <= {} over the path alphabet with every jump operand 0..=len+1 are enumerated exhaustively.",
        n_ctx + 4, max_exh
    );
    tera_verif_harness::childrun::cleanup();
    report.write(&out_path());
}
