//! C20 — tera-contrib codecs are lossless and emit only their target alphabet.
//!
//! Every case goes through the REAL filters registered on a real `Tera` and rendered through a
//! template (`{{ s | b64_encode(url_safe=…, padded=…) }}` …).  For every case:
//!  * correspondence: the output (or error class) is compared with the Lean model (`drv_c20`): the
//!    encoders, decoders, the percent-decoder and the JSON writer AND reader of the theorems;
//!  * direct oracles (independent of the model): decoders of the real crates (base64,
//!    percent-encoding, serde_json) applied to the real encoders' output, template-level
//!    decode∘encode, alphabet membership, slug shape, a from-first-principles validity test for
//!    `b64_decode` input, an independent JSON reader compared with the canonical image.
use base64::Engine;
use std::collections::{BTreeMap, HashSet};
use tera::value::{Key, ValueKind};
use tera::{Context, Tera, Value};
use tera_verif_harness::report::{out_path, replay_path, Report};
use tera_verif_harness::rng::Rng;
use tera_verif_harness::wire::{hex, unhex};
use tera_verif_harness::{catch, driver, quiet_panics, Env};

// ------------------------------------------------------------------ engine

fn engine() -> Tera {
    let mut tera = Tera::default();
    tera.autoescape_on(Vec::<&str>::new());
    tera.register_filter("b64_encode", tera_contrib::base64::b64_encode);
    tera.register_filter("b64_decode", tera_contrib::base64::b64_decode);
    tera.register_filter("urlencode", tera_contrib::urlencode::urlencode);
    tera.register_filter("urlencode_strict", tera_contrib::urlencode::urlencode_strict);
    tera.register_filter("json_encode", tera_contrib::json::json_encode);
    tera.register_filter("slug", tera_contrib::slug::slug);
    let mut tpls: Vec<(String, String)> = Vec::new();
    for u in [false, true] {
        for p in [false, true] {
            tpls.push((format!("b64e{}{}", u as u8, p as u8), format!("{{{{ s | b64_encode(url_safe={u}, padded={p}) }}}}")));
            tpls.push((
                format!("b64rt{}{}", u as u8, p as u8),
                format!("{{{{ s | b64_encode(url_safe={u}, padded={p}) | b64_decode(url_safe={u}) }}}}"),
            ));
        }
        tpls.push((format!("b64d{}", u as u8), format!("{{{{ s | b64_decode(url_safe={u}) }}}}")));
    }
    // defaults: url_safe=false, padded=true
    tpls.push(("b64e_default".into(), "{{ s | b64_encode }}".into()));
    tpls.push(("b64d_default".into(), "{{ s | b64_decode }}".into()));
    tpls.push(("url0".into(), "{{ s | urlencode }}".into()));
    tpls.push(("url1".into(), "{{ s | urlencode_strict }}".into()));
    tpls.push(("slug".into(), "{{ s | slug }}".into()));
    tpls.push(("json".into(), "{{ v | json_encode }}".into()));
    tpls.push(("jsonp".into(), "{{ v | json_encode(pretty=true) }}".into()));
    tpls.push(("json2".into(), "{{ v | json_encode | json_encode }}".into()));
    tera.add_raw_templates(tpls).expect("templates");
    tera
}

fn err_text(e: &tera::Error) -> String {
    let mut s = match e.kind() {
        tera::ErrorKind::RenderingError(r) => r.message().to_string(),
        _ => e.to_string(),
    };
    let mut src = std::error::Error::source(e);
    while let Some(x) = src {
        s.push_str(" | ");
        s.push_str(&x.to_string());
        src = x.source();
    }
    s
}

fn classify_b64_err(msg: &str) -> &'static str {
    if msg.contains("Invalid base64: Invalid symbol") {
        "invalidbyte"
    } else if msg.contains("Invalid base64: Invalid input length") {
        "invalidlength"
    } else if msg.contains("Invalid base64: Invalid last symbol") {
        "invalidlastsymbol"
    } else if msg.contains("Invalid base64: Invalid padding") {
        "invalidpadding"
    } else if msg.contains("Invalid UTF-8") {
        "utf8"
    } else {
        "other"
    }
}

/// Ok(output) | Err("err <class>") | Err("panic …")
fn render_s(tera: &Tera, tpl: &str, s: &str) -> Result<String, String> {
    let mut ctx = Context::new();
    ctx.insert_value("s", Value::from(s));
    match catch(std::panic::AssertUnwindSafe(|| tera.render(tpl, &ctx))) {
        Err(p) => Err(format!("panic {p}")),
        Ok(Ok(out)) => Ok(out),
        Ok(Err(e)) => Err(format!("err {}", classify_b64_err(&err_text(&e)))),
    }
}

fn render_v(tera: &Tera, tpl: &str, v: &Value) -> Result<String, String> {
    let mut ctx = Context::new();
    ctx.insert_value("v", v.clone());
    match catch(std::panic::AssertUnwindSafe(|| tera.render(tpl, &ctx))) {
        Err(p) => Err(format!("panic {p}")),
        Ok(Ok(out)) => Ok(out),
        Ok(Err(e)) => Err(format!("err {}", err_text(&e).chars().take(80).collect::<String>())),
    }
}

fn hx(b: &[u8]) -> String {
    if b.is_empty() { "-".into() } else { hex(b) }
}

fn show(r: &Result<String, String>) -> String {
    match r {
        Ok(s) => format!("ok {}", hx(s.as_bytes())),
        Err(e) => e.clone(),
    }
}

// ------------------------------------------------------------------ independent references

const STD: &[u8; 64] = b"ABCDEFGHIJKLMNOPQRSTUVWXYZabcdefghijklmnopqrstuvwxyz0123456789+/";
const URL: &[u8; 64] = b"ABCDEFGHIJKLMNOPQRSTUVWXYZabcdefghijklmnopqrstuvwxyz0123456789-_";

/// From first principles: `inp` is acceptable base64 (alphabet `url`, padding optional) iff it is
/// the unpadded canonical encoding of some byte string followed by at most as many `=` as
/// complete the last quad. Returns the bytes it denotes.
fn ref_b64_decode(url: bool, inp: &[u8]) -> Option<Vec<u8>> {
    let alpha = if url { URL } else { STD };
    let body_len = inp.iter().rposition(|&b| b != b'=').map(|i| i + 1).unwrap_or(0);
    let (body, pad) = inp.split_at(body_len);
    if body.len() % 4 == 1 || pad.len() > (4 - body.len() % 4) % 4 {
        return None;
    }
    let mut bits: u32 = 0;
    let mut nbits = 0;
    let mut out = Vec::new();
    for &c in body {
        let v = alpha.iter().position(|&a| a == c)? as u32;
        bits = (bits << 6) | v;
        nbits += 6;
        if nbits >= 8 {
            nbits -= 8;
            out.push((bits >> nbits) as u8);
            bits &= (1 << nbits) - 1;
        }
    }
    if bits != 0 {
        return None; // non-zero trailing bits: not the encoding of any byte string
    }
    Some(out)
}

fn unreserved(b: u8) -> bool {
    b.is_ascii_alphanumeric() || matches!(b, b'-' | b'.' | b'_' | b'~')
}

/// every byte is allowed by `ok`, or is a `%` followed by two upper-case hex digits
fn escaped_text_ok(out: &[u8], ok: impl Fn(u8) -> bool) -> bool {
    let mut i = 0;
    while i < out.len() {
        if out[i] == b'%' {
            let h = |b: u8| b.is_ascii_digit() || (b'A'..=b'F').contains(&b);
            if i + 2 >= out.len() {
                return false;
            }
            if !(h(out[i + 1]) && h(out[i + 2])) {
                return false;
            }
            i += 3;
        } else if ok(out[i]) {
            i += 1;
        } else {
            return false;
        }
    }
    true
}

fn slug_shape_ok(out: &str) -> bool {
    let b = out.as_bytes();
    b.iter().all(|c| c.is_ascii_lowercase() || c.is_ascii_digit() || *c == b'-')
        && !out.starts_with('-')
        && !out.ends_with('-')
        && !out.contains("--")
}

// ---- a small JSON reader written for this check (numbers kept as their text)

#[derive(Debug, Clone, PartialEq)]
enum J {
    Null,
    Bool(bool),
    Num(String),
    Str(String),
    Arr(Vec<J>),
    Obj(Vec<(String, J)>),
}

struct P<'a> {
    s: &'a [u8],
    i: usize,
}

impl P<'_> {
    fn ws(&mut self) {
        while self.i < self.s.len() && matches!(self.s[self.i], b' ' | b'\n' | b'\r' | b'\t') {
            self.i += 1;
        }
    }
    fn lit(&mut self, w: &str) -> Option<()> {
        if self.s[self.i..].starts_with(w.as_bytes()) {
            self.i += w.len();
            Some(())
        } else {
            None
        }
    }
    fn value(&mut self, depth: usize) -> Option<J> {
        if depth > 200 {
            return None;
        }
        self.ws();
        let c = *self.s.get(self.i)?;
        match c {
            b'n' => self.lit("null").map(|_| J::Null),
            b't' => self.lit("true").map(|_| J::Bool(true)),
            b'f' => self.lit("false").map(|_| J::Bool(false)),
            b'"' => self.string().map(J::Str),
            b'[' => {
                self.i += 1;
                let mut xs = Vec::new();
                self.ws();
                if self.s.get(self.i) == Some(&b']') {
                    self.i += 1;
                    return Some(J::Arr(xs));
                }
                loop {
                    xs.push(self.value(depth + 1)?);
                    self.ws();
                    match self.s.get(self.i)? {
                        b',' => self.i += 1,
                        b']' => {
                            self.i += 1;
                            return Some(J::Arr(xs));
                        }
                        _ => return None,
                    }
                }
            }
            b'{' => {
                self.i += 1;
                let mut es = Vec::new();
                self.ws();
                if self.s.get(self.i) == Some(&b'}') {
                    self.i += 1;
                    return Some(J::Obj(es));
                }
                loop {
                    self.ws();
                    let k = self.string()?;
                    self.ws();
                    if self.s.get(self.i) != Some(&b':') {
                        return None;
                    }
                    self.i += 1;
                    let v = self.value(depth + 1)?;
                    es.push((k, v));
                    self.ws();
                    match self.s.get(self.i)? {
                        b',' => self.i += 1,
                        b'}' => {
                            self.i += 1;
                            return Some(J::Obj(es));
                        }
                        _ => return None,
                    }
                }
            }
            b'-' | b'0'..=b'9' => {
                // RFC 8259 number grammar
                let st = self.i;
                if self.s[self.i] == b'-' {
                    self.i += 1;
                }
                match self.s.get(self.i)? {
                    b'0' => self.i += 1,
                    b'1'..=b'9' => {
                        while self.s.get(self.i).is_some_and(|c| c.is_ascii_digit()) {
                            self.i += 1;
                        }
                    }
                    _ => return None,
                }
                if self.s.get(self.i) == Some(&b'.') {
                    self.i += 1;
                    if !self.s.get(self.i)?.is_ascii_digit() {
                        return None;
                    }
                    while self.s.get(self.i).is_some_and(|c| c.is_ascii_digit()) {
                        self.i += 1;
                    }
                }
                if matches!(self.s.get(self.i), Some(b'e' | b'E')) {
                    self.i += 1;
                    if matches!(self.s.get(self.i), Some(b'+' | b'-')) {
                        self.i += 1;
                    }
                    if !self.s.get(self.i)?.is_ascii_digit() {
                        return None;
                    }
                    while self.s.get(self.i).is_some_and(|c| c.is_ascii_digit()) {
                        self.i += 1;
                    }
                }
                Some(J::Num(String::from_utf8(self.s[st..self.i].to_vec()).ok()?))
            }
            _ => None,
        }
    }
    fn hex4(&mut self) -> Option<u32> {
        let t = std::str::from_utf8(self.s.get(self.i..self.i + 4)?).ok()?;
        self.i += 4;
        u32::from_str_radix(t, 16).ok()
    }
    fn string(&mut self) -> Option<String> {
        if self.s.get(self.i) != Some(&b'"') {
            return None;
        }
        self.i += 1;
        let mut out: Vec<u8> = Vec::new();
        loop {
            let c = *self.s.get(self.i)?;
            self.i += 1;
            match c {
                b'"' => return String::from_utf8(out).ok(),
                b'\\' => {
                    let e = *self.s.get(self.i)?;
                    self.i += 1;
                    let ch = match e {
                        b'"' => '"',
                        b'\\' => '\\',
                        b'/' => '/',
                        b'b' => '\u{8}',
                        b'f' => '\u{c}',
                        b'n' => '\n',
                        b'r' => '\r',
                        b't' => '\t',
                        b'u' => {
                            let mut n = self.hex4()?;
                            if (0xD800..0xDC00).contains(&n) {
                                if self.s.get(self.i..self.i + 2) != Some(b"\\u") {
                                    return None;
                                }
                                self.i += 2;
                                let lo = self.hex4()?;
                                if !(0xDC00..0xE000).contains(&lo) {
                                    return None;
                                }
                                n = 0x10000 + ((n - 0xD800) << 10) + (lo - 0xDC00);
                            }
                            char::from_u32(n)?
                        }
                        _ => return None,
                    };
                    let mut buf = [0u8; 4];
                    out.extend_from_slice(ch.encode_utf8(&mut buf).as_bytes());
                }
                c if c < 0x20 => return None, // raw control characters are not valid JSON
                c => out.push(c),
            }
        }
    }
}

fn parse_json(text: &str) -> Option<J> {
    let mut p = P { s: text.as_bytes(), i: 0 };
    let v = p.value(0)?;
    p.ws();
    if p.i == text.len() { Some(v) } else { None }
}


/// the tree in the notation of the model driver's `jread` answer; float tokens are read with
/// Rust's correctly rounded parser and collected (token → bits) for the model's `parseF` parameter
fn show_j(j: &J, floats: &mut BTreeMap<String, u64>, out: &mut String) {
    match j {
        J::Null => out.push_str("null"),
        J::Bool(b) => out.push_str(if *b { "true" } else { "false" }),
        J::Num(t) => {
            if t.contains(['.', 'e', 'E']) {
                let bits = t.parse::<f64>().map(|f| f.to_bits()).unwrap_or(0);
                floats.insert(t.clone(), bits);
                out.push_str(&format!("f:{bits:016x}"));
            } else if let Ok(i) = t.parse::<i128>() {
                out.push_str(&format!("i:{i}"));
            } else if let Ok(u) = t.parse::<u128>() {
                out.push_str(&format!("i:{u}"));
            } else {
                out.push_str("i:?");
            }
        }
        J::Str(s) => out.push_str(&format!("s:{}", hx(s.as_bytes()))),
        J::Arr(xs) => {
            out.push_str(&format!("[ {}", xs.len()));
            for x in xs {
                out.push(' ');
                show_j(x, floats, out);
            }
        }
        J::Obj(es) => {
            out.push_str(&format!("{{ {}", es.len()));
            for (k, x) in es {
                out.push(' ');
                out.push_str(&hx(k.as_bytes()));
                out.push(' ');
                show_j(x, floats, out);
            }
        }
    }
}

fn key_text(k: &Key<'_>) -> String {
    match k {
        Key::Bool(b) => b.to_string(),
        Key::U64(n) => n.to_string(),
        Key::I64(n) => n.to_string(),
        Key::U128(n) => n.to_string(),
        Key::I128(n) => n.to_string(),
        Key::String(s) => s.to_string(),
        Key::Str(s) => s.to_string(),
        _ => "?".to_string(),
    }
}

/// Expected JSON image: keys stringified, bytes as arrays, none/undefined ↦ null; floats carried
/// as `f:<bits>`; objects sorted by key. `collision` is set when two keys have the same text.
fn canon(v: &Value, collision: &mut bool, nonfinite: &mut bool) -> J {
    match v.kind() {
        ValueKind::Undefined | ValueKind::None => J::Null,
        ValueKind::Bool => J::Bool(v.as_bool().unwrap()),
        ValueKind::U64 | ValueKind::U128 => J::Num(v.as_u128().unwrap().to_string()),
        ValueKind::I64 | ValueKind::I128 => J::Num(v.as_i128().unwrap().to_string()),
        ValueKind::F64 => {
            let f = v.as_f64().unwrap();
            if f.is_finite() {
                J::Num(format!("f:{:016x}", f.to_bits()))
            } else {
                *nonfinite = true;
                J::Null
            }
        }
        ValueKind::String => J::Str(v.as_str().unwrap().to_string()),
        ValueKind::Bytes => J::Arr(v.as_bytes().unwrap().iter().map(|b| J::Num(b.to_string())).collect()),
        ValueKind::Array => J::Arr(v.as_array().unwrap().iter().map(|x| canon(x, collision, nonfinite)).collect()),
        ValueKind::Map => {
            let mut es: Vec<(String, J)> =
                v.as_map().unwrap().iter().map(|(k, x)| (key_text(k), canon(x, collision, nonfinite))).collect();
            es.sort_by(|a, b| a.0.cmp(&b.0));
            if es.windows(2).any(|w| w[0].0 == w[1].0) {
                *collision = true;
            }
            J::Obj(es)
        }
        _ => J::Null,
    }
}

/// the parsed document in the same normal form (floats re-read with Rust's correctly rounded
/// `str::parse::<f64>` and carried as bits; integers as canonical decimal text)
fn normalise(j: &J, expect: &J) -> J {
    match (j, expect) {
        (J::Num(t), J::Num(e)) if e.starts_with("f:") => match t.parse::<f64>() {
            Ok(f) => J::Num(format!("f:{:016x}", f.to_bits())),
            Err(_) => J::Num(format!("unparsable:{t}")),
        },
        (J::Arr(xs), J::Arr(es)) if xs.len() == es.len() => J::Arr(xs.iter().zip(es).map(|(x, e)| normalise(x, e)).collect()),
        (J::Obj(xs), J::Obj(es)) if xs.len() == es.len() => {
            let mut xs: Vec<(String, J)> = xs.clone();
            xs.sort_by(|a, b| a.0.cmp(&b.0));
            J::Obj(xs.iter().zip(es).map(|((k, x), (_, e))| (k.clone(), normalise(x, e))).collect())
        }
        _ => j.clone(),
    }
}

/// structure comparison with serde_json's own reader (numbers: exact when they fit 64 bits)
fn serde_agrees(sv: &serde_json::Value, e: &J) -> bool {
    match (sv, e) {
        (serde_json::Value::Null, J::Null) => true,
        (serde_json::Value::Bool(a), J::Bool(b)) => a == b,
        (serde_json::Value::String(a), J::Str(b)) => a == b,
        (serde_json::Value::Number(n), J::Num(t)) => {
            if let Some(bits) = t.strip_prefix("f:") {
                let f = f64::from_bits(u64::from_str_radix(bits, 16).unwrap());
                // serde_json's default float reader is "best effort": allow a relative error
                n.as_f64().is_some_and(|g| g == f || ((g - f) / f).abs() < 1e-15)
            } else if let Ok(u) = t.parse::<u64>() {
                n.as_u64() == Some(u)
            } else if let Ok(i) = t.parse::<i64>() {
                n.as_i64() == Some(i)
            } else {
                n.is_f64() // wider than 64 bits: serde_json::Value can only hold an approximation
            }
        }
        (serde_json::Value::Array(a), J::Arr(b)) => a.len() == b.len() && a.iter().zip(b).all(|(x, y)| serde_agrees(x, y)),
        (serde_json::Value::Object(a), J::Obj(b)) => {
            a.len() == b.len() && b.iter().all(|(k, y)| a.get(k).is_some_and(|x| serde_agrees(x, y)))
        }
        _ => false,
    }
}

// ------------------------------------------------------------------ wire for values (iteration order kept)

fn enc_ordered(v: &Value, out: &mut String, floats: &mut BTreeMap<u64, String>) {
    match v.kind() {
        ValueKind::Undefined => out.push('U'),
        ValueKind::None => out.push('N'),
        ValueKind::Bool => out.push_str(if v.as_bool().unwrap() { "B1" } else { "B0" }),
        ValueKind::U64 => out.push_str(&format!("u64:{}", v.as_u128().unwrap())),
        ValueKind::I64 => out.push_str(&format!("i64:{}", v.as_i128().unwrap())),
        ValueKind::U128 => out.push_str(&format!("u128:{}", v.as_u128().unwrap())),
        ValueKind::I128 => out.push_str(&format!("i128:{}", v.as_i128().unwrap())),
        ValueKind::F64 => {
            let f = v.as_f64().unwrap();
            let bits = if f.is_nan() { 0x7ff8000000000000 } else { f.to_bits() };
            if f.is_finite() {
                // the float printer is a parameter of the model: supplied by the real printer
                floats.entry(bits).or_insert_with(|| serde_json::to_string(&f).unwrap());
            }
            out.push_str(&format!("f:{bits:016x}"));
        }
        ValueKind::String => {
            out.push_str(if v.is_safe() { "S:" } else { "s:" });
            out.push_str(&hex(v.as_str().unwrap().as_bytes()));
        }
        ValueKind::Bytes => {
            out.push_str("y:");
            out.push_str(&hex(v.as_bytes().unwrap()));
        }
        ValueKind::Array => {
            let a = v.as_array().unwrap();
            out.push_str(&format!("A{}", a.len()));
            for x in a {
                out.push(' ');
                enc_ordered(x, out, floats);
            }
        }
        ValueKind::Map => {
            let m = v.as_map().unwrap();
            out.push_str(&format!("M{}", m.len()));
            for (k, x) in m.iter() {
                out.push(' ');
                enc_ordered(&k.as_value(), out, floats);
                out.push(' ');
                enc_ordered(x, out, floats);
            }
        }
        _ => out.push('?'),
    }
}

fn json_request(v: &Value) -> String {
    let mut body = String::new();
    let mut floats = BTreeMap::new();
    enc_ordered(v, &mut body, &mut floats);
    let mut req = format!("json {}", floats.len());
    for (b, t) in &floats {
        req.push_str(&format!(" {b:x}={}", hex(t.as_bytes())));
    }
    req.push(' ');
    req.push_str(&body);
    req
}

fn slug_request(s: &str) -> String {
    let mut seen: Vec<char> = Vec::new();
    for c in s.chars() {
        if !c.is_ascii() && !seen.contains(&c) {
            seen.push(c);
        }
    }
    let mut req = format!("slug {} {}", hx(s.as_bytes()), seen.len());
    for c in seen {
        // transliteration is a parameter of the model: supplied by the real deunicode crate
        match deunicode::deunicode_char(c) {
            Some(t) => req.push_str(&format!(" {:x}={}", c as u32, hx(t.as_bytes()))),
            None => req.push_str(&format!(" {:x}=!", c as u32)),
        }
    }
    req
}

// ------------------------------------------------------------------ cases

#[derive(Clone, Debug)]
enum Op {
    B64Enc(bool, bool),
    B64Dec(bool),
    Url(bool),
    PctDecode,
    Slug,
    Json,
    /// the model's JSON reader on the real compact output
    JsonRead,
}

#[derive(Clone)]
struct Case {
    op: Op,
    s: String,
    v: Option<Value>,
}

struct Outcome {
    req: String,
    imp: String,
    /// Some(description) when the property fails on the implementation
    oracle: Option<String>,
    oracle_checks: u64,
    tags: Vec<String>,
}

fn op_name(op: &Op) -> String {
    match op {
        Op::B64Enc(u, p) => format!("b64e{}{}", *u as u8, *p as u8),
        Op::B64Dec(u) => format!("b64d{}", *u as u8),
        Op::Url(s) => format!("url{}", *s as u8),
        Op::PctDecode => "pctd".into(),
        Op::Slug => "slug".into(),
        Op::Json => "json".into(),
        Op::JsonRead => "jread".into(),
    }
}

fn run_case(tera: &Tera, c: &Case) -> Outcome {
    let mut tags = Vec::new();
    let mut checks = 0u64;
    let mut fail: Option<String> = None;
    let mut check = |ok: bool, what: &dyn Fn() -> String| {
        checks += 1;
        if !ok && fail.is_none() {
            fail = Some(what());
        }
    };
    let s = &c.s;
    let (req, imp) = match &c.op {
        Op::B64Enc(u, p) => {
            let (u, p) = (*u, *p);
            let name = format!("b64e{}{}", u as u8, p as u8);
            let r = render_s(tera, &name, s);
            let req = format!("b64e {} {} {}", u as u8, p as u8, hx(s.as_bytes()));
            match &r {
                Ok(out) => {
                    let ob = out.as_bytes();
                    let alpha = if u { URL } else { STD };
                    let body_len = ob.iter().rposition(|&b| b != b'=').map(|i| i + 1).unwrap_or(0);
                    check(ob[..body_len].iter().all(|b| alpha.contains(b)), &|| format!("output `{out}` leaves the {} alphabet", if u { "url-safe" } else { "standard" }));
                    let want_pad = if p { (3 - s.len() % 3) % 3 } else { 0 };
                    check(ob.len() - body_len == want_pad, &|| format!("padding: {} `=` for {} input bytes, padded={p}", ob.len() - body_len, s.len()));
                    check(body_len == (s.len() * 4).div_ceil(3), &|| format!("length {} for {} input bytes", body_len, s.len()));
                    // decoders of the real crate: the strict engine matching the options …
                    let strict = match (u, p) {
                        (false, true) => base64::engine::general_purpose::STANDARD.decode(ob),
                        (false, false) => base64::engine::general_purpose::STANDARD_NO_PAD.decode(ob),
                        (true, true) => base64::engine::general_purpose::URL_SAFE.decode(ob),
                        (true, false) => base64::engine::general_purpose::URL_SAFE_NO_PAD.decode(ob),
                    };
                    check(strict.as_deref().ok() == Some(s.as_bytes()), &|| format!("the base64 crate's own decoder does not return the input from `{out}`"));
                    // … an independent decoder …
                    check(ref_b64_decode(u, ob).as_deref() == Some(s.as_bytes()), &|| format!("reference decoding of `{out}` is not the input"));
                    // … and the template-level round trip the property names
                    let rt = render_s(tera, &format!("b64rt{}{}", u as u8, p as u8), s);
                    check(rt.as_deref().ok() == Some(s.as_str()), &|| format!("b64_decode(b64_encode(s)) = {} for url_safe={u}, padded={p}", show(&rt)));
                    if !u && p {
                        let d = render_s(tera, "b64e_default", s);
                        check(d.as_ref().ok() == Some(out), &|| "default options differ from url_safe=false, padded=true".to_string());
                    }
                    tags.push(format!("b64e.len%3={}", s.len() % 3));
                }
                Err(e) => check(false, &|| format!("b64_encode failed: {e}")),
            }
            (req, show(&r))
        }
        Op::B64Dec(u) => {
            let u = *u;
            let r = render_s(tera, &format!("b64d{}", u as u8), s);
            let req = format!("b64d {} {}", u as u8, hx(s.as_bytes()));
            let reference = ref_b64_decode(u, s.as_bytes());
            match &r {
                Ok(out) => {
                    check(reference.as_deref() == Some(out.as_bytes()), &|| format!("`{s}` was accepted as `{out}` but is not a base64 encoding of it"));
                    tags.push("b64d.accepted".into());
                }
                Err(e) if e.starts_with("panic") => check(false, &|| format!("b64_decode panicked: {e}")),
                Err(e) => {
                    // an error is right iff the input is not base64, or its bytes are not UTF-8
                    let valid = reference.as_ref().is_some_and(|b| std::str::from_utf8(b).is_ok());
                    check(!valid, &|| format!("valid base64 `{s}` refused: {e}"));
                    check(e != "err other", &|| format!("unexpected error for `{s}`"));
                    tags.push(format!("b64d.{}", e.replace(' ', ".")));
                }
            }
            if !u {
                let d = render_s(tera, "b64d_default", s);
                check(show(&d) == show(&r), &|| "default option differs from url_safe=false".to_string());
            }
            (req, show(&r))
        }
        Op::Url(strict) => {
            let strict = *strict;
            let r = render_s(tera, if strict { "url1" } else { "url0" }, s);
            let req = format!("url {} {}", strict as u8, hx(s.as_bytes()));
            match &r {
                Ok(out) => {
                    let ok_char = |b: u8| if strict { b.is_ascii_alphanumeric() } else { unreserved(b) || b == b'/' };
                    check(escaped_text_ok(out.as_bytes(), ok_char), &|| format!("`{out}` has a character outside the target alphabet or a malformed escape"));
                    // every unreserved character (and `/`) is left alone by the non-strict form
                    if !strict {
                        let plain_in = s.bytes().filter(|b| unreserved(*b) || *b == b'/').count();
                        let plain_out = out.bytes().filter(|b| *b != b'%').count() - 2 * out.bytes().filter(|b| *b == b'%').count();
                        check(plain_in == plain_out, &|| format!("an unreserved character was escaped in `{out}`"));
                    }
                    let dec: Vec<u8> = percent_encoding::percent_decode_str(out).collect();
                    check(dec == s.as_bytes(), &|| format!("percent-decoding `{out}` does not return the input"));
                    if s.bytes().any(|b| !b.is_ascii_alphanumeric()) {
                        tags.push("url.escaped-something".into());
                    }
                }
                Err(e) => check(false, &|| format!("urlencode failed: {e}")),
            }
            (req, show(&r))
        }
        Op::PctDecode => {
            // ties the model's percent-decoder (used in `percent_roundtrip`) to the real one
            let dec: Vec<u8> = percent_encoding::percent_decode_str(s).collect();
            (format!("pctd {}", hx(s.as_bytes())), format!("ok {}", hx(&dec)))
        }
        Op::Slug => {
            let r = render_s(tera, "slug", s);
            match &r {
                Ok(out) => {
                    check(slug_shape_ok(out), &|| format!("slug `{out}` is not lowercase letters, digits and single interior hyphens"));
                    // no letter or digit of the input is lost
                    let want: usize = s.chars().filter(|c| c.is_ascii_alphanumeric()).count();
                    let got = out.bytes().filter(|b| b.is_ascii_alphanumeric()).count();
                    check(got >= want, &|| format!("slug `{out}` lost an ASCII letter or digit"));
                    if !out.is_empty() {
                        tags.push("slug.nonempty".into());
                    }
                }
                Err(e) => check(false, &|| format!("slug failed: {e}")),
            }
            (slug_request(s), show(&r))
        }
        Op::JsonRead => {
            let v = c.v.as_ref().unwrap();
            let r = render_v(tera, "json", v);
            match &r {
                Ok(text) => match parse_json(text) {
                    Some(j) => {
                        let mut floats = BTreeMap::new();
                        let mut shown = String::new();
                        show_j(&j, &mut floats, &mut shown);
                        let mut req = format!("jread {}", floats.len());
                        for (t, b) in &floats {
                            req.push_str(&format!(" {}={b:016x}", hex(t.as_bytes())));
                        }
                        req.push(' ');
                        req.push_str(&hx(text.as_bytes()));
                        (req, format!("ok {shown}"))
                    }
                    None => {
                        check(false, &|| format!("compact output is not valid JSON: {text}"));
                        (format!("jread 0 {}", hx(text.as_bytes())), "none".into())
                    }
                },
                Err(e) => {
                    check(false, &|| format!("json_encode failed: {e}"));
                    ("jread 0 -".into(), e.clone())
                }
            }
        }
        Op::Json => {
            let v = c.v.as_ref().unwrap();
            let r = render_v(tera, "json", v);
            let rp = render_v(tera, "jsonp", v);
            let mut collision = false;
            let mut nonfinite = false;
            let expect = canon(v, &mut collision, &mut nonfinite);
            for (which, out) in [("compact", &r), ("pretty", &rp)] {
                match out {
                    Ok(text) => {
                        let mine = parse_json(text);
                        check(mine.is_some(), &|| format!("{which} output is not valid JSON: {text}"));
                        let theirs = serde_json::from_str::<serde_json::Value>(text);
                        check(theirs.is_ok(), &|| format!("serde_json refuses the {which} output: {text}"));
                        if !collision {
                            if let Some(j) = &mine {
                                check(normalise(j, &expect) == expect, &|| format!("{which} output decodes to different data: {text}"));
                            }
                            if let Ok(sv) = &theirs {
                                check(serde_agrees(sv, &expect), &|| format!("serde_json reads different data from the {which} output: {text}"));
                            }
                        }
                    }
                    Err(e) => check(false, &|| format!("json_encode ({which}) failed: {e}")),
                }
            }
            // the chain `v | json_encode | json_encode`: the second document is the JSON STRING holding
            // the first one (encoding text that happens to be JSON is still encoding a string)
            if let Ok(first) = &r {
                let r2 = render_v(tera, "json2", v);
                check(r2.as_ref().ok().and_then(|t| parse_json(t)) == Some(J::Str(first.clone())), &|| format!("json_encode(json_encode(v)) does not decode to the first document `{first}`: {}", show(&r2)));
            }
            if v.as_str().is_some_and(|t| t.starts_with(['{', '[']) && parse_json(t).is_some()) {
                tags.push("json.string-holding-a-json-document".into());
            }
            if collision {
                tags.push("json.key-text-collision(observation)".into());
            }
            if nonfinite {
                tags.push("json.nonfinite-float(outside property)".into());
            }
            (json_request(v), show(&r))
        }
    };
    if imp.starts_with("panic") && fail.is_none() {
        fail = Some(format!("panic: {imp}"));
    }
    Outcome { req, imp, oracle: fail, oracle_checks: checks, tags }
}

// ------------------------------------------------------------------ generators

const INTERESTING: &[&str] = &[
    "", " ", "a", "ab", "abc", "abcd", "hello world", "Hello, 世界! 🌍", "<<??>>", "~~~", "???", ">>>", "\u{0}", "\u{7f}", "\u{80}", "\u{7ff}",
    "\u{800}", "\u{ffff}", "\u{10000}", "\u{10ffff}", "é", "ß", "Æúű--cool?", "  --test_-_cool", "user@example.com", "You & Me", "a/b c?d=e&f#g",
    "%", "%%", "%41", "%4", "%zz", "100%", "a%2Fb", "-", "--", "-a-", "a--b", "_", "A_Z", "İ", "ǅ", "ﬁ", "Ⅷ", "中文", "日本語テキスト", "한국어",
    "\u{200b}", "\u{feff}", "\u{e000}", "😀😀", "a\nb\tc\r\n", "\"quoted\"", "back\\slash", "tab\there", "=", "==", "a=", "=a", "QQ==", "QQ=",
];

fn rand_char(rng: &mut Rng) -> char {
    loop {
        let n = match rng.below(12) {
            0..=3 => rng.below(0x80) as u32,
            4 => 0x20 + rng.below(0x5f) as u32,
            5 => 0x80 + rng.below(0x780) as u32,
            6 | 7 => 0x800 + rng.below(0xF800) as u32,
            8 => 0x10000 + rng.below(0x100000) as u32,
            9 => *rng.pick(&[0x7f, 0x80, 0x7ff, 0x800, 0xd7ff, 0xe000, 0xfffd, 0xffff, 0x10000, 0x10ffff, 0x2028, 0x2029]),
            10 => 0x4e00 + rng.below(0x5000) as u32,
            _ => *rng.pick(&[0x130, 0x1c5, 0xdf, 0xe9, 0xc6, 0x1f600, 0x3b1, 0x416, 0x5d0, 0x627]),
        };
        if let Some(c) = char::from_u32(n) {
            return c;
        }
    }
}

fn rand_string(rng: &mut Rng, max_len: usize) -> String {
    let len = match rng.below(10) {
        0 => 0,
        1..=5 => rng.below(8),
        6..=8 => rng.below(40),
        _ => rng.below(max_len.max(1)),
    };
    match rng.below(6) {
        0 => (0..len).map(|_| (0x20 + rng.below(0x5f) as u8) as char).collect(), // printable ASCII
        1 => (0..len).map(|_| *rng.pick(&['-', '_', ' ', 'a', 'Z', '9', '!', 'é', '-', '.', '~', '/', '%'])).collect(),
        2 => (0..len).map(|_| char::from_u32(rng.below(0x100) as u32).unwrap()).collect(), // bytes-as-chars (Latin-1)
        _ => (0..len).map(|_| rand_char(rng)).collect(),
    }
}

/// inputs for `b64_decode`: mostly near-valid
fn b64_decode_input(rng: &mut Rng, url: bool) -> String {
    let alpha = if url { URL } else { STD };
    let base = rand_string(rng, 60);
    let enc = match rng.below(4) {
        0 => base64::engine::general_purpose::STANDARD.encode(&base),
        1 => base64::engine::general_purpose::STANDARD_NO_PAD.encode(&base),
        2 => base64::engine::general_purpose::URL_SAFE.encode(&base),
        _ => base64::engine::general_purpose::URL_SAFE_NO_PAD.encode(&base),
    };
    let mut b: Vec<char> = enc.chars().collect();
    match rng.below(12) {
        0 | 1 | 2 => {} // valid for one of the alphabets
        3 => {
            // random symbols: valid alphabet, arbitrary length and trailing bits
            b = (0..rng.below(12)).map(|_| alpha[rng.below(64)] as char).collect();
        }
        4 if !b.is_empty() => {
            let i = rng.below(b.len());
            b[i] = alpha[rng.below(64)] as char;
        }
        5 if !b.is_empty() => {
            b.truncate(rng.below(b.len()));
        }
        6 => b.push('='),
        7 => {
            let i = rng.below(b.len() + 1);
            b.insert(i, '=');
        }
        8 => b.push(*rng.pick(&['\n', ' ', '!', '.', 'é', '\u{0}'])),
        9 if !b.is_empty() => {
            let i = rng.below(b.len());
            b[i] = *rng.pick(&['+', '/', '-', '_', '=', ' ', '\n', '*', 'é']);
        }
        10 => {
            // strip padding partially
            if b.last() == Some(&'=') {
                b.pop();
            }
        }
        _ => {
            // bytes that are not UTF-8 once decoded
            let raw: Vec<u8> = (0..rng.below(6) + 1).map(|_| rng.below(256) as u8).collect();
            b = (if url { base64::engine::general_purpose::URL_SAFE.encode(&raw) } else { base64::engine::general_purpose::STANDARD.encode(&raw) }).chars().collect();
        }
    }
    b.into_iter().collect()
}

fn rand_key(rng: &mut Rng) -> Key<'static> {
    match rng.below(9) {
        0 => Key::Bool(rng.chance(1, 2)),
        1 => Key::U64(*rng.pick(&[0, 1, 2, u64::MAX, 1 << 63])),
        2 => Key::I64(*rng.pick(&[-1, -2, i64::MIN, i64::MAX, 0, 1])),
        3 => Key::U128(*rng.pick(&[u128::MAX, 1u128 << 64, 7])),
        4 => Key::I128(*rng.pick(&[i128::MIN, i128::MAX, -(1i128 << 64), -7])),
        5 => Key::from(rng.pick(&["a", "b", "key", "", "true", "1", "-1", "k\"q", "é", "new\nline"]).to_string()),
        _ => Key::from(rand_string(rng, 12)),
    }
}

fn rand_f64(rng: &mut Rng, allow_nonfinite: bool) -> f64 {
    match rng.below(8) {
        0 => *rng.pick(&[0.0, -0.0, 1.0, -1.0, 0.1, 0.5, 1e21, 1e-7, 1e300, 5e-324, f64::MAX, f64::MIN_POSITIVE, 123456789.125, 9007199254740993.0, 1e15, 1e16, 1e17]),
        1 => rng.range(-1000, 1000) as f64,
        2 => rng.range(-100000, 100000) as f64 / 1000.0,
        3 if allow_nonfinite => *rng.pick(&[f64::NAN, f64::INFINITY, f64::NEG_INFINITY]),
        _ => loop {
            let f = f64::from_bits(rng.next_u64());
            if f.is_finite() {
                break f;
            }
        },
    }
}

fn rand_value(rng: &mut Rng, depth: usize, allow_nonfinite: bool) -> Value {
    let top = if depth == 0 { 10 } else { 13 };
    match rng.below(top) {
        0 => Value::none(),
        1 => Value::from(rng.chance(1, 2)),
        2 => Value::from(*rng.pick(&[0u64, 1, 255, u64::MAX, 1 << 63, 1 << 53])),
        3 => Value::from(*rng.pick(&[0i64, -1, i64::MIN, i64::MAX, -255, 42])),
        4 => Value::from(*rng.pick(&[u128::MAX, 1u128 << 64, u64::MAX as u128, 0, 12345678901234567890123456789])),
        5 => Value::from(*rng.pick(&[i128::MIN, i128::MAX, -(1i128 << 64), i64::MIN as i128 - 1, -1, 0])),
        6 => Value::from(rand_f64(rng, allow_nonfinite)),
        7 | 8 => {
            let s = match rng.below(4) {
                0 => rng.pick(&["", "\"", "\\", "\u{8}\u{c}\n\r\t", "\u{0}\u{1f}\u{7f}", "\u{2028}\u{2029}", "😀", "</script>", "a\"b\\c/d"]).to_string(),
                _ => rand_string(rng, 30),
            };
            if rng.chance(1, 5) { Value::safe_string(&s) } else { Value::from(s.as_str()) }
        }
        9 => {
            if rng.chance(1, 2) {
                Value::bytes((0..rng.below(6)).map(|_| rng.below(256) as u8).collect::<Vec<u8>>())
            } else {
                Value::from(rng.next_u64() as i64 >> rng.below(64))
            }
        }
        10 => {
            if rng.chance(1, 6) { Value::undefined() } else { Value::from((0..rng.below(4)).map(|_| rand_value(rng, depth - 1, allow_nonfinite)).collect::<Vec<Value>>()) }
        }
        11 => Value::from((0..rng.below(5)).map(|_| rand_value(rng, depth - 1, allow_nonfinite)).collect::<Vec<Value>>()),
        _ => {
            let mut m = tera::Map::new();
            for _ in 0..rng.below(5) {
                m.insert(rand_key(rng), rand_value(rng, depth - 1, allow_nonfinite));
            }
            Value::from(m)
        }
    }
}

fn string_ops() -> Vec<Op> {
    vec![
        Op::B64Enc(false, true),
        Op::B64Enc(false, false),
        Op::B64Enc(true, true),
        Op::B64Enc(true, false),
        Op::Url(false),
        Op::Url(true),
        Op::Slug,
    ]
}

// ------------------------------------------------------------------ shrinking

/// smallest string (by removing / simplifying chars) on which `bad` still holds
fn shrink_string(s: &str, bad: &dyn Fn(&str) -> bool) -> String {
    let mut cur: Vec<char> = s.chars().collect();
    let mut chunk = cur.len().div_ceil(2).max(1);
    while chunk >= 1 {
        let mut i = 0;
        let mut progressed = false;
        while i < cur.len() {
            let mut cand = cur.clone();
            cand.drain(i..(i + chunk).min(cand.len()));
            let t: String = cand.iter().collect();
            if bad(&t) {
                cur = cand;
                progressed = true;
            } else {
                i += chunk;
            }
        }
        if chunk == 1 && !progressed {
            break;
        }
        if !progressed {
            chunk /= 2;
        }
    }
    for i in 0..cur.len() {
        for r in ['a', 'A', '0', '-', ' '] {
            if cur[i] != r {
                let mut cand = cur.clone();
                cand[i] = r;
                let t: String = cand.iter().collect();
                if bad(&t) {
                    cur = cand;
                    break;
                }
            }
        }
    }
    cur.into_iter().collect()
}

fn shrink_value(v: &Value, bad: &dyn Fn(&Value) -> bool) -> Value {
    let mut cur = v.clone();
    loop {
        let mut kids: Vec<Value> = Vec::new();
        if let Some(a) = cur.as_array() {
            kids.extend(a.iter().cloned());
            for i in 0..a.len() {
                let mut b = a.to_vec();
                b.remove(i);
                kids.push(Value::from(b));
            }
        }
        if let Some(m) = cur.as_map() {
            kids.extend(m.values().cloned());
            for k in m.keys() {
                let mut b = m.clone();
                b.remove(k);
                kids.push(Value::from(b));
            }
        }
        match kids.into_iter().find(|k| bad(k)) {
            Some(k) => cur = k,
            None => return cur,
        }
    }
}

fn replay_json(c: &Case, o: &Outcome, model: Option<&String>, extra: serde_json::Value) -> serde_json::Value {
    serde_json::json!({
        "op": op_name(&c.op),
        "input_hex": hx(c.s.as_bytes()),
        "input": c.s,
        "value": c.v.as_ref().map(tera_verif_harness::wire::encode),
        "request": o.req,
        "implementation": o.imp,
        "model": model,
        "detail": extra,
        "rerun": "harness/target/release/c20 --replay <this file>",
    })
}

fn parse_op(name: &str) -> Option<Op> {
    Some(match name {
        "b64e00" => Op::B64Enc(false, false),
        "b64e01" => Op::B64Enc(false, true),
        "b64e10" => Op::B64Enc(true, false),
        "b64e11" => Op::B64Enc(true, true),
        "b64d0" => Op::B64Dec(false),
        "b64d1" => Op::B64Dec(true),
        "url0" => Op::Url(false),
        "url1" => Op::Url(true),
        "pctd" => Op::PctDecode,
        "slug" => Op::Slug,
        "json" => Op::Json,
        "jread" => Op::JsonRead,
        _ => return None,
    })
}

/// id of the known finding that covers the JSON key-text collision, if the lead filed one
fn known_collision_id(env: &Env) -> Option<String> {
    let text = std::fs::read_to_string(env.verif_dir.join("known_findings.json")).ok()?;
    let j: serde_json::Value = serde_json::from_str(&text).ok()?;
    j["findings"].as_array()?.iter().find(|f| f["property"] == "C20" && f["status"] == "known" && f["shape"] == "json-key-text-collision").and_then(|f| f["id"].as_str().map(|s| s.to_string()))
}

fn main() {
    quiet_panics();
    let env = Env::from_env();
    let mut report = Report::new("C20");
    let tera = engine();
    let exe = driver::driver_path(&env.verif_dir, "drv_c20");

    if let Some(path) = replay_path() {
        let text = std::fs::read_to_string(&path).expect("replay file");
        let j: serde_json::Value = serde_json::from_str(&text).expect("replay json");
        let j = if j.get("replay").is_some() { j["replay"].clone() } else { j };
        let op = parse_op(j["op"].as_str().unwrap()).expect("op");
        let s = String::from_utf8(if j["input_hex"] == "-" { vec![] } else { unhex(j["input_hex"].as_str().unwrap()).unwrap() }).unwrap();
        let v = j["value"].as_str().and_then(tera_verif_harness::wire::decode);
        let c = Case { op, s, v };
        let o = run_case(&tera, &c);
        let m = driver::run_batch(&exe, std::slice::from_ref(&o.req)).map(|v| v[0].clone());
        println!("request: {}\nimplementation: {}\nmodel: {:?}\noracle: {:?}", o.req, o.imp, m, o.oracle);
        return;
    }

    let rounds = env.budget(1, 16);
    let mut distinct: HashSet<u64> = HashSet::new();
    for round in 0..rounds {
    let mut rng = Rng::new(env.seed.wrapping_add((round as u64).wrapping_mul(0x9E37_79B9_7F4A_7C15)));
    let mut cases: Vec<Case> = Vec::new();
    let sops = string_ops();
    if round == 0 {

    // 1. fixed inputs: every ASCII character alone, doubled and in context; the interesting list
    let mut fixed: Vec<String> = INTERESTING.iter().map(|s| s.to_string()).collect();
    for b in 0u8..128 {
        let c = b as char;
        fixed.push(c.to_string());
        fixed.push(format!("{c}{c}"));
        fixed.push(format!("a{c}b"));
        fixed.push(format!("{c}x"));
        fixed.push(format!("x{c}"));
    }
    for n in [255usize, 256, 257, 1000, 4095, 4096, 4097] {
        fixed.push("a".repeat(n));
        fixed.push("é-".repeat(n / 3));
        fixed.push((0..n).map(|i| char::from_u32(0x20 + (i as u32 * 7) % 0x5f).unwrap()).collect());
    }
    fixed.push((0..env.budget(100_000, 3_000_000)).map(|i| char::from_u32(0x21 + (i as u32 * 31) % 0x250).unwrap_or('x')).collect());
    report.count_n("gen.fixed_strings", fixed.len() as u64);
    for s in &fixed {
        for op in &sops {
            cases.push(Case { op: op.clone(), s: s.clone(), v: None });
        }
        for u in [false, true] {
            cases.push(Case { op: Op::B64Dec(u), s: s.clone(), v: None });
        }
        cases.push(Case { op: Op::PctDecode, s: s.clone(), v: None });
    }
    // exhaustive small space: every string of 1..=3 symbols over a 7-letter set for b64_decode
    // (all padding / length / trailing-bit shapes of the last quad)
    {
        let syms = ['A', 'Q', 'g', '/', '_', '=', '!'];
        let mut all: Vec<String> = vec![];
        for l in 1..=env.budget(4, 5) {
            let mut idx = vec![0usize; l];
            loop {
                all.push(idx.iter().map(|i| syms[*i]).collect());
                let mut k = 0;
                while k < l {
                    idx[k] += 1;
                    if idx[k] < syms.len() {
                        break;
                    }
                    idx[k] = 0;
                    k += 1;
                }
                if k == l {
                    break;
                }
            }
        }
        report.count_n("gen.b64d_exhaustive_strings", all.len() as u64);
        for s in all {
            for u in [false, true] {
                cases.push(Case { op: Op::B64Dec(u), s: s.clone(), v: None });
            }
        }
    }
    }
    // 2. random strings
    let n_rand = env.budget(60_000, 250_000);
    for _ in 0..n_rand {
        let s = rand_string(&mut rng, 300);
        for op in &sops {
            cases.push(Case { op: op.clone(), s: s.clone(), v: None });
        }
    }
    // 3. decoder inputs (near-valid and adversarial)
    for _ in 0..env.budget(200_000, 750_000) {
        let u = rng.chance(1, 2);
        cases.push(Case { op: Op::B64Dec(u), s: b64_decode_input(&mut rng, u), v: None });
    }
    for _ in 0..env.budget(50_000, 250_000) {
        let mut s = rand_string(&mut rng, 30);
        // sprinkle percent signs and hex digits
        let mut t = String::new();
        for c in s.drain(..) {
            if rng.chance(1, 4) {
                t.push('%');
            }
            if rng.chance(1, 3) {
                t.push(*rng.pick(&['0', '9', 'a', 'f', 'A', 'F', 'g', 'G', '4', '1']));
            }
            t.push(c);
        }
        cases.push(Case { op: Op::PctDecode, s: t, v: None });
    }
    // 4. values for json_encode
    for i in 0..env.budget(60_000, 250_000) {
        let d = 1 + rng.below(4);
        let v = rand_value(&mut rng, d, i % 50 == 0);
        cases.push(Case { op: Op::JsonRead, s: String::new(), v: Some(v.clone()) });
        cases.push(Case { op: Op::Json, s: String::new(), v: Some(v) });
    }
    // strings whose whole text is a well-formed JSON document (top level and nested): fixed ones every
    // seed, and the real encoding of generated values (= the input of a double-encode chain)
    {
        let mut texts: Vec<String> = Vec::new();
        if round == 0 {
            texts.extend(["[]", "{}", "[1, 2]", "[1,2]", "{\"a\": 1}", "{\"a\":1}", "[[]]", "[\"x\"]", "{\"k\":{\"n\":null}}", "[true,false,null]", " []", "[] ", "[", "{", "[1,]", "{a:1}", "\"s\"", "null", "1", "\"[]\""].iter().map(|t| t.to_string()));
        }
        for _ in 0..env.budget(2_000, 8_000) {
            let d = 1 + rng.below(3);
            let inner = rand_value(&mut rng, d, false);
            if let Ok(t) = serde_json::to_string(&inner) {
                texts.push(t);
            }
        }
        for t in texts {
            let top = Value::from(t.as_str());
            cases.push(Case { op: Op::JsonRead, s: String::new(), v: Some(top.clone()) });
            cases.push(Case { op: Op::Json, s: String::new(), v: Some(top.clone()) });
            let mut m = tera::Map::new();
            m.insert(Key::from("doc".to_string()), top.clone());
            cases.push(Case { op: Op::Json, s: String::new(), v: Some(Value::from(vec![top, Value::from(m)])) });
        }
    }
    // the key-text collision shape once: {1: "a", "1": "b"} (an observation unless listed in
    // known_findings.json as a known finding of C20 with shape "json-key-text-collision")
    if round == 0 {
        let mut m = tera::Map::new();
        m.insert(Key::U64(1), Value::from("a"));
        m.insert(Key::from("1".to_string()), Value::from("b"));
        cases.push(Case { op: Op::Json, s: String::new(), v: Some(Value::from(m)) });
    }
    // deep nesting once
    if round == 0 {
        let mut v = Value::from(1);
        for _ in 0..100 {
            v = Value::from(vec![v]);
        }
        cases.push(Case { op: Op::Json, s: String::new(), v: Some(v) });
    }

    // ---- run the implementation and the oracles, in parallel
    let threads = std::thread::available_parallelism().map(|n| n.get()).unwrap_or(8).min(16);
    let chunk = cases.len().div_ceil(threads).max(1);
    let outcomes: Vec<Outcome> = std::thread::scope(|s| {
        let tera = &tera;
        let hs: Vec<_> = cases.chunks(chunk).map(|cs| s.spawn(move || cs.iter().map(|c| run_case(tera, c)).collect::<Vec<_>>())).collect();
        hs.into_iter().flat_map(|h| h.join().unwrap()).collect()
    });

    // ---- the model
    let reqs: Vec<String> = outcomes.iter().map(|o| o.req.clone()).collect();
    let model = match driver::run_batch_parallel(&exe, &reqs, threads) {
        Ok(m) => m,
        Err(e) => {
            report.notes.push(format!("model driver unavailable: {e}"));
            report.violation("model-mismatch", format!("model driver could not be run: {e}"), serde_json::json!({"detail": {"stage": "driver"}, "error": e}));
            Vec::new()
        }
    };

    let mut mismatches: Vec<usize> = Vec::new();
    let mut fails: Vec<usize> = Vec::new();
    let mut reached = 0u64;
    for (i, (c, o)) in cases.iter().zip(&outcomes).enumerate() {
        report.evaluations += 1;
        report.oracle_checks += o.oracle_checks;
        let name = op_name(&c.op);
        let class = if o.imp.starts_with("ok") { "ok".to_string() } else { o.imp.replace(' ', ".") };
        report.count(&format!("op.{name}.{class}"));
        for t in &o.tags {
            report.count(&format!("tag.{t}"));
        }
        if matches!(c.op, Op::Json | Op::JsonRead) {
            report.count(&format!("json.top.{}", c.v.as_ref().unwrap().name()));
        } else {
            let l = c.s.len();
            report.count(&format!("len.{}", if l == 0 { "0" } else if l < 4 { "1-3" } else if l < 16 { "4-15" } else if l < 64 { "16-63" } else if l < 1024 { "64-1023" } else { "1024+" }));
            if !c.s.is_ascii() {
                report.count("strings.non_ascii");
            }
        }
        // reached the codec: every case does except a decoder input refused at its first byte
        if !(matches!(c.op, Op::B64Dec(_)) && o.imp == "err invalidbyte") {
            reached += 1;
        }
        if distinct.insert({
            use std::hash::{Hash, Hasher};
            let mut h = std::collections::hash_map::DefaultHasher::new();
            o.req.hash(&mut h);
            h.finish()
        }) {
            report.distinct_nontrivial += 1;
        }
        if o.oracle.is_some() {
            report.oracle_failures += 1;
            fails.push(i);
        }
        if !model.is_empty() {
            report.model_comparisons += 1;
            if model[i] != o.imp {
                report.model_disagreements += 1;
                mismatches.push(i);
            }
        }
    }
    report.count_n("reached_codec_body", reached);

    // ---- failures: shrink, then report
    let rerun = |c: &Case| -> (Outcome, Option<String>) {
        let o = run_case(&tera, c);
        let m = driver::run_batch(&exe, std::slice::from_ref(&o.req)).ok().map(|v| v[0].clone());
        (o, m)
    };
    for &i in fails.iter().take(4) {
        let c = &cases[i];
        let small = match &c.v {
            Some(v) => Case { v: Some(shrink_value(v, &|x| run_case(&tera, &Case { op: c.op.clone(), s: String::new(), v: Some(x.clone()) }).oracle.is_some())), ..c.clone() },
            None => Case { s: shrink_string(&c.s, &|t| run_case(&tera, &Case { op: c.op.clone(), s: t.to_string(), v: None }).oracle.is_some()), ..c.clone() },
        };
        let (o, m) = rerun(&small);
        let why = o.oracle.clone().unwrap_or_default();
        report.violation("property", format!("{}: {}", op_name(&c.op), why), replay_json(&small, &o, m.as_ref(), serde_json::json!({"oracle": why})));
    }
    if round == 0 {
        if let Some(id) = known_collision_id(&env) {
            if let Some((c, o)) = cases.iter().zip(&outcomes).filter(|(_, o)| o.tags.iter().any(|t| t.starts_with("json.key-text-collision"))).min_by_key(|(_, o)| o.req.len()) {
                report.violation("property", "json_encode: two keys with the same JSON text give an object with a duplicate name (a reader keeps one)".into(), replay_json(c, o, None, serde_json::json!({"shape": "json-key-text-collision"})));
                if let Some(v) = report.violations.last_mut() {
                    v.known = Some(id);
                }
            }
        }
    }
    if fails.is_empty() && !mismatches.is_empty() {
        // model and implementation differ while every oracle passed on the sampled inputs: search
        // around the disagreeing inputs (10× burst of mutated neighbours) for an oracle failure
        let mut found = false;
        let mut burst_rng = rng.fork();
        'burst: for &i in mismatches.iter().take(3) {
            let c = &cases[i];
            if c.v.is_some() {
                continue;
            }
            for _ in 0..env.budget(20_000, 200_000) {
                let mut cs: Vec<char> = c.s.chars().collect();
                for _ in 0..1 + burst_rng.below(3) {
                    let r = rand_char(&mut burst_rng);
                    match burst_rng.below(3) {
                        0 if !cs.is_empty() => {
                            let k = burst_rng.below(cs.len());
                            cs[k] = r;
                        }
                        1 if !cs.is_empty() => {
                            let k = burst_rng.below(cs.len());
                            cs.remove(k);
                        }
                        _ => {
                            let k = burst_rng.below(cs.len() + 1);
                            cs.insert(k, r);
                        }
                    }
                }
                let cand = Case { op: c.op.clone(), s: cs.into_iter().collect(), v: None };
                let o = run_case(&tera, &cand);
                report.oracle_checks += o.oracle_checks;
                if let Some(why) = &o.oracle {
                    let small = Case { s: shrink_string(&cand.s, &|t| run_case(&tera, &Case { op: c.op.clone(), s: t.to_string(), v: None }).oracle.is_some()), ..cand.clone() };
                    let (o2, m) = rerun(&small);
                    report.oracle_failures += 1;
                    report.violation("property", format!("{}: {}", op_name(&c.op), o2.oracle.clone().unwrap_or(why.clone())), replay_json(&small, &o2, m.as_ref(), serde_json::json!({"found_by": "burst around a model disagreement"})));
                    found = true;
                    break 'burst;
                }
            }
        }
        if !found {
            for &i in mismatches.iter().take(4) {
                let c = &cases[i];
                let differs = |cand: &Case| {
                    let (o, m) = rerun(cand);
                    m.is_some_and(|m| m != o.imp)
                };
                let small = match &c.v {
                    Some(v) => Case { v: Some(shrink_value(v, &|x| differs(&Case { op: c.op.clone(), s: String::new(), v: Some(x.clone()) }))), ..c.clone() },
                    None if c.s.len() < 2000 => Case { s: shrink_string(&c.s, &|t| differs(&Case { op: c.op.clone(), s: t.to_string(), v: None })), ..c.clone() },
                    None => c.clone(),
                };
                let (o, m) = rerun(&small);
                report.violation(
                    "model-mismatch",
                    format!("{}: model `{}` vs implementation `{}`", op_name(&c.op), m.clone().unwrap_or_default().chars().take(120).collect::<String>(), o.imp.chars().take(120).collect::<String>()),
                    replay_json(&small, &o, m.as_ref(), serde_json::json!({"stage": format!("correspondence:contrib:{}", op_name(&c.op))})),
                );
            }
        }
    }

    let n = cases.len();
    if round == 0 {
    for i in [0usize, n / 7, 2 * n / 7, 3 * n / 7, 4 * n / 7, 5 * n / 7, 6 * n / 7, n - 1] {
        let (c, o) = (&cases[i], &outcomes[i]);
        if o.req.len() < 600 {
            report.sample(serde_json::json!({"op": op_name(&c.op), "input": c.s, "value": c.v.as_ref().map(|v| v.to_string()), "request": o.req, "implementation": o.imp, "model": model.get(i)}));
        }
    }
    }
    }
    report.count_n("rounds", rounds as u64);
    let reached = report.histogram.get("reached_codec_body").copied().unwrap_or(0);
    report.histogram.insert("pct_reached_codec_body".into(), reached * 100 / report.evaluations.max(1));
    report.rule = "a case is (filter with options, input); inputs: every ASCII character alone / doubled / in context, a list of boundary strings (empty, every UTF-8 length, surrogates' neighbours, long), seeded random strings over ASCII, Latin-1 and all planes, near-valid and adversarial decoder inputs (all strings of ≤ 4 symbols over {A,Q,g,/,_,=,!} exhaustively), generated values of every kind for json_encode (written by the real filter, compared with the model writer, read back by serde_json, by an independent reader and by the model reader); distinct by model request (filter, options, input); a case is non-trivial when the filter ran on it (all cases: the filters are total on strings)".into();
    report.write(&out_path());
}
