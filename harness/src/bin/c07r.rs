//! C07 (clause "all references are checked when templates are added") — tie of
//! lean/TeraModel/Model/FinalizeRefs.lean + Props/C07Refs.lean to the engine.
//!
//! Templates are generated with references of every kind (filter, test, function, component,
//! include) at every location (template body, block, component body, capture / filter section,
//! argument expression, list comprehension), in every role (stand-alone, child, ancestor, included).
//! Exactly one reference may be dangling: by renaming it, by REPLACING the provider of a component
//! with a version without it, or by replacing the includer.  For every set and every step of every
//! history:
//!  * the engine's call tables (`verif_hooks::call_tables`) vs the tables the generator knows it
//!    wrote, and the registered names (`registered_builtins`)            — correspondence (tables)
//!  * acceptance, error class and derived state vs the model (`drv_c10`: `histr`, summaries with
//!    call tables, Model/FinalizeRefs.lean)                               — correspondence (model)
//!  * the property itself: a call whose resulting set has a dangling reference must fail at add
//!    time and one without must succeed; after EVERY step every template of the instance is
//!    rendered under catch_unwind: a panic (an unchecked VM lookup that fails) is a violation
//! Everything that touches the engine runs in worker processes.
use std::collections::{BTreeMap, BTreeSet};
use std::io::{Read, Write};
use std::process::{Command, Stdio};
use std::time::{Duration, Instant};
use tera::{Context, Tera};
use tera_verif_harness::report::{out_path, replay_path, Report};
use tera_verif_harness::rng::Rng;
use tera_verif_harness::tplgen::{canon_err, engine, err_class, mark, real_derived};
use tera_verif_harness::{catch, driver, quiet_panics, Env};

const KINDS: [&str; 5] = ["filter", "test", "function", "component", "include"];
const LOCS: [&str; 6] = ["body", "block", "compbody", "capture", "argument", "comprehension"];

#[derive(Clone, Debug, PartialEq, Eq, Hash, serde::Serialize, serde::Deserialize)]
struct Site {
    kind: String,
    name: String,
    loc: String,
}

#[derive(Clone, Debug, Default, PartialEq, Eq, Hash, serde::Serialize, serde::Deserialize)]
struct RTpl {
    name: String,
    parent: Option<String>,
    /// defines the top-level block `x`
    block_x: bool,
    x_calls_super: bool,
    sites: Vec<Site>,
    /// components defined with a plain body
    defines: Vec<String>,
    tag: String,
}

#[derive(Clone, Debug, serde::Serialize, serde::Deserialize)]
struct CaseR {
    label: String,
    prefixes: Vec<String>,
    /// each step is one `add_raw_templates` batch
    steps: Vec<Vec<RTpl>>,
}

// ---------------------------------------------------------------- sources and what they reference

/// the expression / statement for one reference and every (kind, name) it mentions
fn snippet(s: &Site) -> Option<(String, Vec<(String, String)>)> {
    let n = &s.name;
    let mut refs: Vec<(String, String)> = vec![(s.kind.clone(), n.clone())];
    let call = if n == "range" { "range(end=2)".to_string() } else { format!("{n}()") };
    let stmt = match s.kind.as_str() {
        "filter" => format!("{{{{ \"a\" | {n} }}}}"),
        "test" => format!("{{% if 1 is {n} %}}y{{% endif %}}"),
        "function" => format!("{{{{ {call} }}}}"),
        "component" => format!("{{{{<{n} />}}}}"),
        _ => format!("{{% include \"{n}\" %}}"),
    };
    let text = match s.loc.as_str() {
        "body" | "block" | "compbody" => stmt,
        "capture" => {
            if s.kind == "filter" {
                format!("{{% filter {n} %}}t{{% endfilter %}}")
            } else {
                refs.push(("filter".into(), "upper".into()));
                format!("{{% filter upper %}}{stmt}{{% endfilter %}}")
            }
        }
        "argument" => match s.kind.as_str() {
            "filter" => {
                refs.push(("filter".into(), "default".into()));
                format!("{{{{ 1 | default(value=\"a\" | {n}) }}}}")
            }
            "test" => {
                refs.push(("filter".into(), "default".into()));
                format!("{{{{ 1 | default(value=(1 is {n})) }}}}")
            }
            "function" => {
                refs.push(("filter".into(), "default".into()));
                format!("{{{{ 1 | default(value={call}) }}}}")
            }
            "component" => format!("{{% set z = <{n} /> %}}"),
            _ => return None,
        },
        _ => match s.kind.as_str() {
            "filter" => format!("{{{{ [a | {n} for a in [\"b\"]] }}}}"),
            "test" => format!("{{{{ [a for a in [1] if a is {n}] }}}}"),
            "function" => format!("{{{{ [{call} for a in [1]] }}}}"),
            "component" => format!("{{{{ [<{n} /> for a in [1]] }}}}"),
            _ => return None,
        },
    };
    Some((text, refs))
}

impl RTpl {
    fn own_comp(&self) -> String {
        format!("c_{}", mark(&self.name))
    }
    fn source(&self) -> String {
        let mut s = String::new();
        if let Some(p) = &self.parent {
            s.push_str(&format!("{{% extends \"{p}\" %}}"));
        }
        s.push_str(&format!("<{}{}:", mark(&self.name), mark(&self.tag)));
        for site in self.sites.iter().filter(|x| !matches!(x.loc.as_str(), "block" | "compbody")) {
            s.push_str(&snippet(site).map(|x| x.0).unwrap_or_default());
        }
        if self.block_x {
            s.push_str("{% block x %}[");
            if self.x_calls_super {
                s.push_str("{{ super() }}");
            }
            for site in self.sites.iter().filter(|x| x.loc == "block") {
                s.push_str(&snippet(site).map(|x| x.0).unwrap_or_default());
            }
            s.push_str("]{% endblock x %}");
        }
        s.push('>');
        for c in &self.defines {
            s.push_str(&format!("{{% component {c}() %}}k{{% endcomponent {c} %}}"));
        }
        if self.sites.iter().any(|x| x.loc == "compbody") {
            let c = self.own_comp();
            s.push_str(&format!("{{% component {c}() %}}("));
            for site in self.sites.iter().filter(|x| x.loc == "compbody") {
                s.push_str(&snippet(site).map(|x| x.0).unwrap_or_default());
            }
            s.push_str(&format!("){{% endcomponent {c} %}}"));
        }
        s
    }
    /// every (kind, name) the source mentions
    fn refs(&self) -> Vec<(String, String)> {
        let mut v = Vec::new();
        for s in &self.sites {
            if let Some((_, r)) = snippet(s) {
                v.extend(r);
            }
        }
        if self.block_x && self.x_calls_super {
            v.push(("function".into(), "super".into()));
        }
        v
    }
    fn table(&self, kind: &str) -> Vec<String> {
        let s: BTreeSet<String> = self.refs().into_iter().filter(|r| r.0 == kind).map(|r| r.1).collect();
        s.into_iter().collect()
    }
    fn components_defined(&self) -> Vec<String> {
        let mut v = self.defines.clone();
        if self.sites.iter().any(|x| x.loc == "compbody") {
            v.push(self.own_comp());
        }
        v
    }
    /// `<tplr>` of Driver/RegWire.lean
    fn wire(&self) -> String {
        let mut t: Vec<String> = vec![self.name.clone(), self.parent.clone().unwrap_or_else(|| "-".into()), self.source().len().to_string(), "0".into()];
        let inc = |loc: &dyn Fn(&str) -> bool| -> Vec<String> { self.sites.iter().filter(|s| s.kind == "include" && loc(&s.loc) && snippet(s).is_some()).map(|s| s.name.clone()).collect() };
        // blocks
        if self.block_x {
            let bi = inc(&|l| l == "block");
            t.push("1".into());
            t.extend(["x".to_string(), if self.x_calls_super { "1".into() } else { "0".into() }, "-".into(), bi.len().to_string()]);
            t.extend(bi);
        } else {
            t.push("0".into());
        }
        let ti = inc(&|l| !matches!(l, "block" | "compbody"));
        t.push(ti.len().to_string());
        t.extend(ti);
        // components
        let ci = inc(&|l| l == "compbody");
        let comps = self.components_defined();
        t.push(comps.len().to_string());
        for c in &comps {
            t.push(c.clone());
            if *c == self.own_comp() && self.sites.iter().any(|x| x.loc == "compbody") {
                t.push(ci.len().to_string());
                t.extend(ci.iter().cloned());
            } else {
                t.push("0".into());
            }
        }
        let cc = self.table("component");
        t.push(cc.len().to_string());
        t.extend(cc);
        for kind in ["filter", "test", "function"] {
            let tb = self.table(kind);
            t.push(tb.len().to_string());
            t.extend(tb);
        }
        t.join(" ")
    }
}

fn resolve<'a>(names: &'a BTreeSet<String>, prefixes: &[String], target: &str) -> Option<&'a String> {
    if let Some(n) = names.get(target) {
        return Some(n);
    }
    prefixes.iter().find_map(|p| names.get(&format!("{p}{target}")))
}

/// the first dangling reference of a set, by construction knowledge only (independent of the
/// engine and of the model): Some(description)
fn dangling(reg: &(Vec<String>, Vec<String>, Vec<String>), prefixes: &[String], set: &BTreeMap<String, RTpl>) -> Option<String> {
    let names: BTreeSet<String> = set.keys().cloned().collect();
    let comps: BTreeSet<String> = set.values().flat_map(|t| t.components_defined()).collect();
    // (a missing parent is reported first, with its own error kind)
    for t in set.values() {
        if let Some(p) = &t.parent {
            if resolve(&names, prefixes, p).is_none() {
                return Some(format!("parent `{p}` of `{}`", t.name));
            }
        }
    }
    for t in set.values() {
        for (kind, n) in t.refs() {
            let ok = match kind.as_str() {
                "filter" => reg.0.contains(&n),
                "test" => reg.1.contains(&n),
                "function" => n == "super" || reg.2.contains(&n),
                "component" => comps.contains(&n),
                _ => resolve(&names, prefixes, &n).is_some(),
            };
            if !ok {
                return Some(format!("{kind} `{n}` in `{}`", t.name));
            }
        }
    }
    None
}

// ---------------------------------------------------------------- cases

fn site(kind: &str, name: &str, loc: &str) -> Site {
    Site { kind: kind.into(), name: name.into(), loc: loc.into() }
}

fn good_name(kind: &str) -> &'static str {
    match kind {
        "filter" => "lower",
        "test" => "odd",
        "function" => "range",
        "component" => "K",
        _ => "inc",
    }
}
fn bad_name(kind: &str) -> &'static str {
    match kind {
        "filter" => "nosuch_f",
        "test" => "nosuch_t",
        "function" => "nosuch_g",
        "component" => "Nosuch",
        _ => "nosuch_tpl",
    }
}

fn base_set(prefixed: bool) -> Vec<RTpl> {
    let inc = if prefixed { "th/inc" } else { "inc" };
    vec![
        RTpl { name: "r".into(), block_x: true, defines: vec!["K".into()], ..Default::default() },
        RTpl { name: inc.into(), ..Default::default() },
    ]
}

/// the subject template carrying one site, in a role
fn subject(role: &str, st: Site) -> Vec<RTpl> {
    let needs_block = st.loc == "block";
    match role {
        "standalone" => vec![RTpl { name: "s".into(), block_x: needs_block, sites: vec![st], ..Default::default() }],
        "child" => vec![RTpl { name: "s".into(), parent: Some("r".into()), block_x: needs_block, x_calls_super: needs_block, sites: vec![st], ..Default::default() }],
        "included" => vec![
            RTpl { name: "s".into(), block_x: needs_block, sites: vec![st], ..Default::default() },
            RTpl { name: "m".into(), sites: vec![site("include", "s", "body")], ..Default::default() },
        ],
        _ => vec![
            // the subject is an ancestor: a root with a child
            RTpl { name: "s".into(), block_x: true, sites: vec![st], ..Default::default() },
            RTpl { name: "ch".into(), parent: Some("s".into()), block_x: true, x_calls_super: true, ..Default::default() },
        ],
    }
}

fn all_cases(quick: bool, seed: u64) -> Vec<CaseR> {
    let mut cases = Vec::new();
    let roles = ["standalone", "child", "included", "ancestor"];
    for kind in KINDS {
        for loc in LOCS {
            if snippet(&site(kind, "x", loc)).is_none() {
                continue;
            }
            for role in roles {
                for prefixed in [false, true] {
                    if prefixed && kind != "include" {
                        continue;
                    }
                    let prefixes: Vec<String> = if prefixed { vec!["th/".into()] } else { vec![] };
                    for bad in [false, true] {
                        let name = if bad { bad_name(kind) } else { good_name(kind) };
                        let mut set = base_set(prefixed);
                        set.extend(subject(role, site(kind, name, loc)));
                        cases.push(CaseR { label: format!("set {kind} {loc} {role} {}", if bad { "dangling" } else { "valid" }), prefixes: prefixes.clone(), steps: vec![set] });
                    }
                    // history: valid set, then the subject re-registered with the reference renamed
                    // (must fail, nothing changes), then re-registered valid again
                    let mut first = base_set(prefixed);
                    first.extend(subject(role, site(kind, good_name(kind), loc)));
                    let mut broken = subject(role, site(kind, bad_name(kind), loc)).remove(0);
                    broken.tag = "v2".into();
                    let mut again = subject(role, site(kind, good_name(kind), loc)).remove(0);
                    again.tag = "v3".into();
                    cases.push(CaseR { label: format!("history rename {kind} {loc} {role}"), prefixes: prefixes.clone(), steps: vec![first, vec![broken], vec![again]] });
                }
            }
            if kind == "component" {
                // the provider of the component is REPLACED by a version without it; with a second
                // provider the same replacement is fine; dropping the second one too is not
                let l = |defs: &[&str], tag: &str| RTpl { name: "lib".into(), defines: defs.iter().map(|s| s.to_string()).collect(), tag: tag.into(), ..Default::default() };
                // (under a fallback prefix: lower priority, so defining `C` twice is not a duplicate)
                let l2 = |defs: &[&str], tag: &str| RTpl { name: "th/lib2".into(), defines: defs.iter().map(|s| s.to_string()).collect(), tag: tag.into(), ..Default::default() };
                let user = RTpl { name: "p".into(), block_x: loc == "block", sites: vec![site("component", "C", loc)], ..Default::default() };
                cases.push(CaseR {
                    label: format!("history provider-replaced component {loc}"),
                    prefixes: vec!["th/".into()],
                    steps: vec![vec![l(&["C"], "")], vec![user.clone()], vec![l(&[], "v2")], vec![l2(&["C"], "")], vec![l(&[], "v3")], vec![l2(&["D"], "v2")], vec![l(&["C", "D"], "v4"), l2(&[], "v3")]],
                });
                // the provider under a fallback prefix has lower priority: same story
                cases.push(CaseR {
                    label: format!("history provider-replaced component {loc} (prefixed provider)"),
                    prefixes: vec!["th/".into()],
                    steps: vec![
                        vec![RTpl { name: "th/lib".into(), defines: vec!["C".into()], ..Default::default() }, user.clone()],
                        vec![RTpl { name: "th/lib".into(), tag: "v2".into(), ..Default::default() }],
                        vec![RTpl { name: "lib".into(), defines: vec!["C".into()], ..Default::default() }],
                        vec![RTpl { name: "th/lib".into(), tag: "v3".into(), ..Default::default() }],
                    ],
                });
            }
            if kind == "include" {
                // the includer is replaced so that its target only existed under another prefix
                let user = |target: &str, tag: &str| RTpl { name: "p".into(), block_x: loc == "block", sites: vec![site("include", target, loc)], tag: tag.into(), ..Default::default() };
                cases.push(CaseR {
                    label: format!("history include target through prefix {loc}"),
                    prefixes: vec!["th/".into()],
                    steps: vec![vec![RTpl { name: "th/t".into(), ..Default::default() }, user("t", "")], vec![user("alt/t", "v2")], vec![user("th/t", "v3")], vec![user("u", "v4")]],
                });
            }
        }
    }
    // random templates with several references, at most one of them dangling
    let mut rng = Rng::new(seed);
    let n_random = if quick { 600 } else { 400_000 };
    for i in 0..n_random {
        let prefixed = rng.chance(1, 3);
        let mut set = base_set(prefixed);
        let n_t = 1 + rng.below(3);
        let mut bad_at = if rng.chance(1, 2) { Some(rng.below(n_t * 3)) } else { None };
        let mut counter = 0;
        for k in 0..n_t {
            let mut t = RTpl { name: format!("t{k}"), ..Default::default() };
            if k > 0 && rng.chance(1, 2) {
                t.parent = Some("r".into());
            }
            let n_s = 1 + rng.below(3);
            for _ in 0..n_s {
                let kind = KINDS[rng.below(5)];
                let loc = LOCS[rng.below(6)];
                if snippet(&site(kind, "x", loc)).is_none() {
                    continue;
                }
                let bad = bad_at == Some(counter);
                counter += 1;
                let name = if bad { bad_name(kind).to_string() } else if kind == "include" && k > 0 && rng.chance(1, 2) { "t0".to_string() } else { good_name(kind).to_string() };
                if loc == "block" {
                    t.block_x = true;
                    t.x_calls_super = t.parent.is_some() && rng.chance(1, 2);
                }
                t.sites.push(site(kind, &name, loc));
            }
            set.push(t);
        }
        if bad_at.is_some_and(|b| b >= counter) {
            bad_at = None;
        }
        let mut steps = vec![set];
        // half of them go on as a history: the component provider `r` re-registered without / with
        // `K`, a template re-registered with other references, a new template
        if rng.chance(1, 2) {
            for j in 0..(1 + rng.below(3)) {
                let step = match rng.below(4) {
                    0 => RTpl { name: "r".into(), block_x: true, defines: vec![], tag: format!("h{j}"), ..Default::default() },
                    1 => RTpl { name: "r".into(), block_x: true, defines: vec!["K".into()], tag: format!("h{j}"), ..Default::default() },
                    _ => {
                        let mut t = RTpl { name: format!("t{}", rng.below(4)), tag: format!("h{j}"), ..Default::default() };
                        for _ in 0..(1 + rng.below(2)) {
                            let kind = KINDS[rng.below(5)];
                            let loc = LOCS[rng.below(6)];
                            if snippet(&site(kind, "x", loc)).is_none() {
                                continue;
                            }
                            let name = if rng.chance(1, 4) { bad_name(kind) } else { good_name(kind) };
                            if loc == "block" {
                                t.block_x = true;
                            }
                            t.sites.push(site(kind, name, loc));
                        }
                        t
                    }
                };
                steps.push(vec![step]);
            }
        }
        cases.push(CaseR { label: format!("random #{i} {}{}", if bad_at.is_some() { "dangling" } else { "valid" }, if steps.len() > 1 { " + history" } else { "" }), prefixes: if prefixed { vec!["th/".into()] } else { vec![] }, steps });
    }
    cases
}

// ---------------------------------------------------------------- running a case on the engine

#[derive(Clone, Debug, Default, serde::Serialize, serde::Deserialize)]
struct StepOut {
    /// "ok" | canon_err
    result: String,
    /// canon_state of the instance after the step
    state: String,
    /// call tables of the engine differ from what the generator wrote: description
    tables: Option<String>,
    /// a render panicked, or (last step) a refused late set_fallback_prefixes changed something:
    /// description
    panic: Option<String>,
    renders: usize,
}

fn run_case(c: &CaseR) -> Vec<StepOut> {
    let mut tera: Tera = engine(&c.prefixes);
    let mut cur: BTreeMap<String, RTpl> = BTreeMap::new();
    let mut out = Vec::new();
    for batch in &c.steps {
        let mut so = StepOut::default();
        let pairs: Vec<(String, String)> = batch.iter().map(|t| (t.name.clone(), t.source())).collect();
        let t = &mut tera;
        so.result = match catch(std::panic::AssertUnwindSafe(|| t.add_raw_templates(pairs))) {
            Ok(Ok(())) => "ok".into(),
            Ok(Err(e)) => canon_err(&e),
            Err(p) => format!("panic {p}"),
        };
        if so.result == "ok" {
            for t in batch {
                cur.insert(t.name.clone(), t.clone());
            }
        }
        so.state = real_derived(&tera).canon_state();
        // the engine's call tables of every registered template vs what the generator wrote
        for (name, t) in &cur {
            let real = tera::verif_hooks::call_tables(&tera, name);
            let want: Vec<(String, Vec<String>)> = ["filter", "test", "function", "include", "component"].iter().map(|k| (k.to_string(), t.table(k))).collect();
            if real.as_ref() != Some(&want) && so.tables.is_none() {
                so.tables = Some(format!("template `{name}`: engine {real:?}, generator {want:?}"));
            }
        }
        // render everything the instance holds: an unchecked lookup that fails shows as a panic
        let names: Vec<String> = tera.get_template_names().map(|s| s.to_string()).collect();
        for name in names {
            so.renders += 1;
            let r = catch(std::panic::AssertUnwindSafe(|| tera.render(&name, &Context::new())));
            if let Err(p) = r {
                so.panic.get_or_insert(format!("render of `{name}` panicked: {p}"));
            }
        }
        for comp in cur.values().flat_map(|t| t.components_defined()).collect::<BTreeSet<_>>() {
            let r = catch(std::panic::AssertUnwindSafe(|| tera.render_component(&comp, &Context::new(), None, false)));
            so.renders += 1;
            if let Err(p) = r {
                so.panic.get_or_insert(format!("render_component(`{comp}`) panicked: {p}"));
            }
        }
        out.push(so);
    }
    // under fallback prefixes: a LATE set_fallback_prefixes call is refused (templates are
    // registered) and must change nothing — no name that resolved may go missing at render time,
    // contains_template answers as before, and an unrelated template can still be added
    if !c.prefixes.is_empty() && !out.is_empty() {
        let late = catch(std::panic::AssertUnwindSafe(|| -> Option<String> {
            let names: Vec<String> = {
                let mut v: Vec<String> = tera.get_template_names().map(|s| s.to_string()).collect();
                v.sort();
                v
            };
            if names.is_empty() {
                // nothing registered (every step was rejected): the call is allowed
                return None;
            }
            let mut probes: Vec<String> = names.clone();
            probes.extend(cur.values().flat_map(|t| t.sites.iter().filter(|s| s.kind == "include").map(|s| s.name.clone())));
            let observe = |t: &Tera| -> Vec<String> {
                let mut v: Vec<String> = names
                    .iter()
                    .map(|n| match catch(std::panic::AssertUnwindSafe(|| t.render(n, &Context::new()))) {
                        Ok(Ok(s)) => format!("render {n} = ok:{s}"),
                        Ok(Err(e)) => format!("render {n} = err:{}", err_class(&canon_err(&e))),
                        Err(p) => format!("render {n} = panic:{p}"),
                    })
                    .collect();
                v.extend(probes.iter().map(|p| format!("contains_template({p}) = {}", t.contains_template(p))));
                v
            };
            for late in [Vec::<String>::new(), vec!["zz/".to_string()]] {
                let before = observe(&tera);
                if tera.set_fallback_prefixes(late.clone()).is_ok() {
                    return Some(format!("set_fallback_prefixes({late:?}) was accepted although templates are registered"));
                }
                let after = observe(&tera);
                if let Some((b, a)) = before.iter().zip(&after).find(|(b, a)| b != a) {
                    return Some(format!("after a REFUSED late set_fallback_prefixes({late:?}) (prefixes {:?}): `{b}` became `{a}` — a name that was checked when templates were added must not go missing afterwards", c.prefixes));
                }
                let plain = RTpl { name: format!("zz_ok{}", late.len()), ..Default::default() };
                if let Err(e) = tera.add_raw_template(&plain.name, &plain.source()) {
                    return Some(format!("after a REFUSED late set_fallback_prefixes({late:?}) (prefixes {:?}) adding the unrelated plain template `{}` fails with `{}`", c.prefixes, plain.name, canon_err(&e)));
                }
            }
            None
        }));
        let desc = match late {
            Ok(d) => d,
            Err(p) => Some(format!("the late set_fallback_prefixes sequence panicked: {p}")),
        };
        if let (Some(d), Some(last)) = (desc, out.last_mut()) {
            last.panic.get_or_insert(d);
        }
    }
    out
}

/// `histr` request of Driver/C10.lean
fn request(reg: &(Vec<String>, Vec<String>, Vec<String>), c: &CaseR, perm: usize) -> String {
    let mut s = format!("histr {} {} R", perm % 3, (perm / 3) % 3);
    for l in [&reg.0, &reg.1, &reg.2] {
        s.push_str(&format!(" {}", l.len()));
        for n in l {
            s.push(' ');
            s.push_str(n);
        }
    }
    s.push_str(&format!(" P {}", c.prefixes.len()));
    for p in &c.prefixes {
        s.push(' ');
        s.push_str(p);
    }
    s.push_str(&format!(" S {}", c.steps.len()));
    for b in &c.steps {
        s.push_str(&format!(" A {}", b.len()));
        for t in b {
            s.push_str(" good ");
            s.push_str(&t.wire());
        }
    }
    s
}

// ---------------------------------------------------------------- workers

fn start_watchdog(progress: std::sync::Arc<std::sync::atomic::AtomicU64>, secs: u64) {
    std::thread::spawn(move || {
        let t0 = Instant::now();
        loop {
            std::thread::sleep(Duration::from_millis(200));
            let last = progress.load(std::sync::atomic::Ordering::Relaxed);
            if t0.elapsed().as_millis() as u64 > last + secs * 1000 {
                std::process::exit(3);
            }
        }
    });
}

fn child_stream(quick: bool, seed: u64, start: usize, stride: usize) {
    let cases = all_cases(quick, seed);
    let progress = std::sync::Arc::new(std::sync::atomic::AtomicU64::new(0));
    start_watchdog(progress.clone(), 30);
    let t0 = Instant::now();
    let stdout = std::io::stdout();
    let mut w = std::io::BufWriter::new(stdout.lock());
    let mut i = start;
    while i < cases.len() {
        progress.store(t0.elapsed().as_millis() as u64, std::sync::atomic::Ordering::Relaxed);
        writeln!(w, "at {i}").unwrap();
        w.flush().unwrap();
        let out = run_case(&cases[i]);
        writeln!(w, "{i}\t{}", serde_json::to_string(&out).unwrap()).unwrap();
        i += stride;
    }
    w.flush().unwrap();
}

fn child_one(path: &str) {
    let c: CaseR = serde_json::from_str(&std::fs::read_to_string(path).expect("case file")).expect("case json");
    let progress = std::sync::Arc::new(std::sync::atomic::AtomicU64::new(0));
    start_watchdog(progress, 30);
    println!("{}", serde_json::to_string(&run_case(&c)).unwrap());
}

fn child_reg() {
    let t = engine(&[]);
    println!("{}", serde_json::to_string(&tera::verif_hooks::registered_builtins(&t)).unwrap());
}

fn run_child(args: &[String], timeout: Duration) -> (String, String) {
    let exe = std::env::current_exe().expect("own path");
    let mut child = Command::new(exe).args(args).stdin(Stdio::null()).stdout(Stdio::piped()).stderr(Stdio::null()).spawn().expect("spawn child");
    let mut stdout = child.stdout.take().unwrap();
    let reader = std::thread::spawn(move || {
        let mut s = String::new();
        let _ = stdout.read_to_string(&mut s);
        s
    });
    let t0 = Instant::now();
    let status = loop {
        match child.try_wait() {
            Ok(Some(st)) => break if st.success() { "exit0".to_string() } else if st.code() == Some(3) { "timeout (no answer within 30 s)".to_string() } else { format!("died {st}") },
            Ok(None) => {
                if t0.elapsed() > timeout {
                    let _ = child.kill();
                    let _ = child.wait();
                    break "timeout".to_string();
                }
                std::thread::sleep(Duration::from_millis(5));
            }
            Err(e) => break format!("wait failed {e}"),
        }
    };
    (status, reader.join().unwrap_or_default())
}

/// one case in a worker process: None = the engine did not return
fn safe_run(c: &CaseR) -> Result<Vec<StepOut>, String> {
    let dir = std::env::temp_dir().join(format!("c07r-{}", std::process::id()));
    let _ = std::fs::create_dir_all(&dir);
    let path = dir.join(format!("one-{:?}.json", std::thread::current().id()).replace(['(', ')'], ""));
    std::fs::write(&path, serde_json::to_string(c).unwrap()).unwrap();
    let (status, out) = run_child(&["--child".into(), "one".into(), path.to_string_lossy().to_string()], Duration::from_secs(90));
    let _ = std::fs::remove_file(&path);
    let _ = std::fs::remove_dir(&dir);
    if status == "exit0" {
        serde_json::from_str(out.trim()).map_err(|e| format!("unreadable worker answer: {e}"))
    } else {
        Err(status)
    }
}

// ---------------------------------------------------------------- judging a case

/// (direct-oracle failure, model disagreement) of one case
fn judge(reg: &(Vec<String>, Vec<String>, Vec<String>), c: &CaseR, out: &[StepOut], model: Option<&str>) -> (Option<String>, Option<String>, Option<String>) {
    let mut cur: BTreeMap<String, RTpl> = BTreeMap::new();
    let mut oracle = None;
    let mut tables = None;
    for (i, batch) in c.steps.iter().enumerate() {
        let Some(so) = out.get(i) else { break };
        let mut attempted = cur.clone();
        for t in batch {
            attempted.insert(t.name.clone(), t.clone());
        }
        let d = dangling(reg, &c.prefixes, &attempted);
        if oracle.is_none() {
            if so.result.starts_with("panic") {
                oracle = Some(format!("step {i}: the registration call panicked: {}", so.result));
            } else if let (Some(what), true) = (&d, so.result == "ok") {
                oracle = Some(format!("step {i}: accepted although the resulting set has a dangling reference ({what}): a missing name must be reported when templates are added{}", so.panic.as_ref().map(|p| format!("; and then {p}")).unwrap_or_default()));
            } else if d.is_none() && so.result != "ok" {
                oracle = Some(format!("step {i}: rejected with `{}` although every reference of the resulting set exists", so.result));
            } else if d.as_ref().is_some_and(|w| w.starts_with("parent ")) {
                if err_class(&so.result) != "missingparent" {
                    oracle = Some(format!("step {i}: a missing parent must be reported as MissingParent, got `{}`", so.result));
                }
            } else if d.is_some() && err_class(&so.result) != "msg" {
                oracle = Some(format!("step {i}: a dangling reference must be reported as the collected message error, got `{}`", so.result));
            } else if let Some(p) = &so.panic {
                oracle = Some(format!("step {i}: {p}"));
            }
        }
        if tables.is_none() {
            tables = so.tables.as_ref().map(|t| format!("step {i}: {t}"));
        }
        if so.result == "ok" {
            cur = attempted;
        }
    }
    let mut mismatch = None;
    if let Some(m) = model {
        let segs: Vec<&str> = m.split(" | ").collect();
        if segs.len() != c.steps.len() {
            mismatch = Some(format!("the model driver answered `{}`", m.chars().take(160).collect::<String>()));
        } else {
            for (i, seg) in segs.iter().enumerate() {
                let Some(so) = out.get(i) else { break };
                let seg = seg.strip_prefix("R ").unwrap_or(seg);
                let (res, state) = seg.split_once(" S ").map(|(a, b)| (a, b)).unwrap_or((seg.trim_end_matches(" S"), ""));
                let res_same = if so.result == "ok" || res == "ok" { so.result == res } else { err_class(&so.result) == err_class(res) };
                if !res_same || so.state != state.trim() {
                    mismatch = Some(format!("step {i}: model `{res}` / `{}` vs implementation `{}` / `{}`", state.chars().take(200).collect::<String>(), so.result, so.state.chars().take(200).collect::<String>()));
                    break;
                }
            }
        }
    }
    (oracle, tables, mismatch)
}

fn shrink(mut c: CaseR, fails: &dyn Fn(&CaseR) -> bool) -> CaseR {
    loop {
        let mut cands: Vec<CaseR> = Vec::new();
        for i in (0..c.steps.len()).rev() {
            if c.steps.len() > 1 {
                let mut d = c.clone();
                d.steps.remove(i);
                cands.push(d);
            }
            for k in 0..c.steps[i].len() {
                if c.steps[i].len() > 1 {
                    let mut d = c.clone();
                    d.steps[i].remove(k);
                    cands.push(d);
                }
                for s in 0..c.steps[i][k].sites.len() {
                    let mut d = c.clone();
                    d.steps[i][k].sites.remove(s);
                    cands.push(d);
                }
                if c.steps[i][k].parent.is_some() {
                    let mut d = c.clone();
                    d.steps[i][k].parent = None;
                    d.steps[i][k].x_calls_super = false;
                    cands.push(d);
                }
            }
        }
        match cands.into_iter().find(|d| fails(d)) {
            Some(d) => c = d,
            None => return c,
        }
    }
}

fn replay_json(c: &CaseR, out: &[StepOut], model: Option<&str>, detail: serde_json::Value) -> serde_json::Value {
    serde_json::json!({
        "case": c,
        "steps": c.steps.iter().map(|b| b.iter().map(|t| (t.name.clone(), t.source())).collect::<Vec<_>>()).collect::<Vec<_>>(),
        "implementation": out,
        "model": model,
        "detail": detail,
        "rerun": "harness/target/release/c07r --replay <this file>",
    })
}

fn main() {
    quiet_panics();
    let env = Env::from_env();
    let args: Vec<String> = std::env::args().collect();
    if let Some(i) = args.iter().position(|a| a == "--child") {
        match args[i + 1].as_str() {
            "stream" => child_stream(args[i + 2] == "quick", args[i + 3].parse().unwrap(), args[i + 4].parse().unwrap(), args[i + 5].parse().unwrap()),
            "one" => child_one(&args[i + 2]),
            "reg" => child_reg(),
            _ => {}
        }
        return;
    }
    let exe = driver::driver_path(&env.verif_dir, "drv_c10");
    // the registered names, read off the engine (in a worker)
    let reg: (Vec<String>, Vec<String>, Vec<String>) = serde_json::from_str(run_child(&["--child".into(), "reg".into()], Duration::from_secs(30)).1.trim()).expect("registered names");

    if let Some(path) = replay_path() {
        let j: serde_json::Value = serde_json::from_str(&std::fs::read_to_string(&path).expect("replay file")).expect("json");
        let j = if j.get("replay").is_some() { j["replay"].clone() } else { j };
        let c: CaseR = serde_json::from_value(j["case"].clone()).expect("case");
        println!("{}  prefixes {:?}", c.label, c.prefixes);
        for (i, b) in c.steps.iter().enumerate() {
            for t in b {
                println!("step {i} add {:?}: {}", t.name, t.source());
            }
        }
        let model = driver::run_batch(&exe, &[request(&reg, &c, 0)]).ok().map(|m| m[0].clone());
        println!("model: {model:?}");
        match safe_run(&c) {
            Ok(out) => {
                for (i, so) in out.iter().enumerate() {
                    println!("step {i}: implementation `{}` state `{}` tables {:?} panic {:?}", so.result, so.state, so.tables, so.panic);
                }
                println!("judgement (oracle, tables, model): {:?}", judge(&reg, &c, &out, model.as_deref()));
            }
            Err(st) => println!("implementation: the engine did not return (worker {st})"),
        }
        return;
    }

    let mut report = Report::new("C07");
    let threads = std::thread::available_parallelism().map(|n| n.get()).unwrap_or(8).min(16);
    let quick = env.quick();
    let cases = all_cases(quick, env.seed);

    // ---- run everything in workers, restarting after culprits
    let per: Vec<(Vec<(usize, Vec<StepOut>)>, Vec<(usize, String)>, Vec<String>)> = std::thread::scope(|s| {
        let hs: Vec<_> = (0..threads)
            .map(|k| {
                let n = cases.len();
                let seed = env.seed;
                s.spawn(move || {
                    let (mut rows, mut culprits, mut notes) = (Vec::new(), Vec::new(), Vec::new());
                    let mut start = k;
                    while start < n {
                        let a: Vec<String> = vec!["--child".into(), "stream".into(), if quick { "quick".into() } else { "thorough".into() }, seed.to_string(), start.to_string(), threads.to_string()];
                        let (status, text) = run_child(&a, Duration::from_secs(if quick { 240 } else { 3000 }));
                        let mut last_at = None;
                        for line in text.lines() {
                            if let Some(x) = line.strip_prefix("at ") {
                                last_at = x.parse::<usize>().ok();
                                continue;
                            }
                            if let Some((i, json)) = line.split_once('\t') {
                                if let (Ok(i), Ok(out)) = (i.parse::<usize>(), serde_json::from_str::<Vec<StepOut>>(json)) {
                                    if last_at == Some(i) {
                                        last_at = None;
                                    }
                                    rows.push((i, out));
                                }
                            }
                        }
                        if status == "exit0" {
                            break;
                        }
                        match last_at {
                            Some(i) => {
                                culprits.push((i, status));
                                if culprits.len() >= 6 {
                                    notes.push(format!("worker {k} given up after 6 culprits"));
                                    break;
                                }
                                start = i + threads;
                            }
                            None => {
                                notes.push(format!("worker {k} ended abnormally ({status}) without naming a case"));
                                break;
                            }
                        }
                    }
                    (rows, culprits, notes)
                })
            })
            .collect();
        hs.into_iter().map(|h| h.join().unwrap()).collect()
    });
    let mut rows: Vec<(usize, Vec<StepOut>)> = Vec::new();
    let mut culprits: Vec<(usize, String)> = Vec::new();
    for (r, c, n) in per {
        rows.extend(r);
        culprits.extend(c);
        report.notes.extend(n);
    }
    rows.sort_by_key(|r| r.0);
    report.exhaustive = rows.len() == cases.len();

    // ---- the model
    let reqs: Vec<String> = rows.iter().map(|(i, _)| request(&reg, &cases[*i], *i)).collect();
    let model = match driver::run_batch_parallel(&exe, &reqs, threads) {
        Ok(m) => Some(m),
        Err(e) => {
            report.notes.push(format!("model driver unavailable: {e}"));
            report.violation("model-mismatch", format!("model driver could not be run: {e}"), serde_json::json!({"stage": "driver", "error": e}));
            None
        }
    };

    let mut distinct = BTreeSet::new();
    let mut oracle_fails: Vec<(usize, String)> = Vec::new();
    let mut table_fails: Vec<(usize, String)> = Vec::new();
    let mut mismatches: Vec<(usize, String)> = Vec::new();
    for (k, (i, out)) in rows.iter().enumerate() {
        let c = &cases[*i];
        let m = model.as_ref().map(|m| m[k].as_str());
        let (o, t, mm) = judge(&reg, c, out, m);
        for (s, so) in out.iter().enumerate() {
            report.evaluations += 1;
            report.oracle_checks += 1 + so.renders as u64;
            report.count(&format!("step.{}", if so.result == "ok" { "accepted".to_string() } else { format!("rejected.{}", err_class(&so.result)) }));
            if m.is_some() {
                report.model_comparisons += 1;
            }
            report.count_n("renders", so.renders as u64);
            if c.steps[s].iter().any(|t| !t.sites.is_empty()) {
                distinct.insert(format!("{:?}{:?}", c.prefixes, &c.steps[..=s]));
            }
        }
        let mut words = c.label.split(' ');
        report.count(&format!("case.{}", words.next().unwrap_or("")));
        for t in c.steps.iter().flatten() {
            for s in &t.sites {
                report.count(&format!("site.{}.{}", s.kind, s.loc));
            }
        }
        if let Some(d) = o {
            oracle_fails.push((*i, d));
        }
        if let Some(d) = t {
            table_fails.push((*i, d));
        }
        if let Some(d) = mm {
            report.model_disagreements += 1;
            mismatches.push((*i, d));
        }
    }
    report.distinct_nontrivial = distinct.len() as u64;
    report.oracle_failures = (oracle_fails.len() + culprits.len()) as u64;
    report.model_disagreements += table_fails.len() as u64;

    // which locations the grammar accepts at all: a valid single-site set that is rejected
    for (i, out) in &rows {
        let c = &cases[*i];
        if c.label.starts_with("set ") && c.label.ends_with(" valid") && c.label.contains(" standalone ") && out.first().is_some_and(|s| s.result != "ok") {
            report.notes.push(format!("{}: the valid form is rejected ({})", c.label, out[0].result));
        }
    }

    for (i, status) in culprits.iter().take(3) {
        let small = shrink(cases[*i].clone(), &|d: &CaseR| safe_run(d).is_err());
        report.violation(
            "property",
            format!("registration and rendering must end in a result: the engine did not return (worker {status}) on case `{}`", cases[*i].label),
            replay_json(&small, &[], None, serde_json::json!({"worker": status})),
        );
    }
    for (i, d) in oracle_fails.iter().take(4) {
        let small = shrink(cases[*i].clone(), &|c: &CaseR| safe_run(c).is_ok_and(|o| judge(&reg, c, &o, None).0.is_some()));
        let out = safe_run(&small).unwrap_or_default();
        let desc = judge(&reg, &small, &out, None).0.unwrap_or_else(|| d.clone());
        let m = driver::run_batch(&exe, &[request(&reg, &small, 0)]).ok().map(|m| m[0].clone());
        report.violation("property", format!("{desc}  [{}]", cases[*i].label), replay_json(&small, &out, m.as_deref(), serde_json::json!({"original": d})));
    }
    if oracle_fails.is_empty() && culprits.is_empty() {
        for (i, d) in table_fails.iter().take(2) {
            let out = safe_run(&cases[*i]).unwrap_or_default();
            report.violation("model-mismatch", format!("call tables: {d}  [{}]", cases[*i].label), replay_json(&cases[*i], &out, None, serde_json::json!({"stage": "correspondence:call-tables"})));
        }
        for (i, d) in mismatches.iter().take(3) {
            let perm = *i;
            let small = shrink(cases[*i].clone(), &|c: &CaseR| {
                let Ok(o) = safe_run(c) else { return false };
                let m = driver::run_batch(&exe, &[request(&reg, c, perm)]).ok().map(|m| m[0].clone());
                judge(&reg, c, &o, m.as_deref()).2.is_some()
            });
            let out = safe_run(&small).unwrap_or_default();
            let m = driver::run_batch(&exe, &[request(&reg, &small, perm)]).ok().map(|m| m[0].clone());
            let desc = judge(&reg, &small, &out, m.as_deref()).2.unwrap_or_else(|| d.clone());
            report.violation("model-mismatch", format!("{desc}  [{}]", cases[*i].label), replay_json(&small, &out, m.as_deref(), serde_json::json!({"stage": "correspondence:finalize-references"})));
        }
    }
    for k in [0usize, rows.len() / 3, rows.len() / 2, rows.len().saturating_sub(1)] {
        if let Some((i, out)) = rows.get(k) {
            report.sample(replay_json(&cases[*i], out, model.as_ref().map(|m| m[k].as_str()), serde_json::json!({"label": cases[*i].label})));
        }
    }
    report.rule = "a registration call (a step of a case) whose batch contains at least one template with a reference site (filter / test / function / component / include at one of six locations); distinct by prefixes and the full history up to the step".into();
    report.write(&out_path());
}
