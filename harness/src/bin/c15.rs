//! C15 — equality, ordering and map-key lookup are coherent across all value kinds.
//!
//! Four case families, all from one seeded PRNG:
//!  * pairs / triples of values of every kind (nested, mixed, every integer encoding, floats,
//!    safe / normal strings): real `==`, `partial_cmp`, `cmp` (public traits, and the template
//!    operators on a subsample) vs the Lean model (`drv_c15 cmp`), plus the algebraic laws
//!    evaluated directly on the engine's own answers;
//!  * arrays through `{{ xs | sort }}` / `{{ xs | unique }}`: contract evaluated on the output;
//!  * keys: every pair of a lattice of `Key`s in all seven representations: `==`, `cmp`, the
//!    bytes fed to the hasher vs the model (`drv_c15 key`), plus Eq/Ord/Hash coherence laws;
//!  * maps of 0..16 (thorough: ..64) entries straddling the scan cutoff, probed through
//!    `m[k]`, `m.k`, `k in m`, `get`, `containing` and the public `Map` API vs the model and vs
//!    "found iff an equal key was inserted", equality of keys decided independently here.
use std::cell::RefCell;
use std::cmp::Ordering;
use std::collections::{BTreeMap, HashSet};
use std::hash::{Hash, Hasher};
use std::sync::Arc;
use tera::value::{Key, ValueKind};
use tera::{Context, Kwargs, Map, State, Tera, Value};
use tera_verif_harness::report::{out_path, replay_path, Report};
use tera_verif_harness::rng::Rng;
use tera_verif_harness::wire::{decode, encode, hex};
use tera_verif_harness::{catch, driver, quiet_panics, Env};

thread_local! {
    static PROBE: RefCell<Option<Value>> = const { RefCell::new(None) };
    static COLLECT: RefCell<Vec<Value>> = const { RefCell::new(Vec::new()) };
}

/// Texts of the string-provenance family: 0, 1, 20, 21, 22 and 40 bytes (21 bytes is the inline
/// capacity of the engine's small-string representation), ASCII and multi-byte, all lower case.
const PROV_TEXTS: [&str; 9] = [
    "",
    "a",
    "abcdefghij0123456789",
    "abcdefghij0123456789_",
    "abcdefghij0123456789_x",
    "abcdefghij0123456789abcdefghij0123456789",
    "\u{e9}\u{e9}\u{e9}\u{e9}\u{e9}\u{e9}\u{e9}\u{e9}\u{e9}\u{e9}",
    "\u{e9}\u{e9}\u{e9}\u{e9}\u{e9}\u{e9}\u{e9}\u{e9}\u{e9}\u{e9}a",
    "\u{e9}\u{e9}\u{e9}\u{e9}\u{e9}\u{e9}\u{e9}\u{e9}\u{e9}\u{e9}\u{e9}",
];

/// Ways of obtaining the same text inside a template: (label, template body). `@T@` is replaced
/// by the text written as a string literal. Context: t (normal), ts (safe), m (map with the
/// text as an OWNED String key), mb (same with a borrowed &str key), h1 ~ h2 = t, up = upper
/// case of t, tx = t followed by "x".
const PROV_WAYS: [(&str, &str); 24] = [
    ("context", "{{ t | collect }}"),
    ("context_safe", "{{ ts | collect }}"),
    ("literal", "{{ '@T@' | collect }}"),
    ("set_var", "{% set s = t %}{{ s | collect }}"),
    ("for_key_owned", "{% for k, v in m %}{{ k | collect }}{% endfor %}"),
    ("for_key_borrowed", "{% for k, v in mb %}{{ k | collect }}{% endfor %}"),
    ("for_key_literal_map", "{% for k, v in {'@T@': 1} %}{{ k | collect }}{% endfor %}"),
    ("keys_first", "{{ m | keys | first | collect }}"),
    ("keys_index", "{{ (m | keys)[0] | collect }}"),
    ("pairs_first", "{{ (m | pairs | first)[0] | collect }}"),
    ("keys_of_literal_map", "{{ {'@T@': 1} | keys | first | collect }}"),
    ("keys_borrowed", "{{ mb | keys | first | collect }}"),
    ("group_by_key", "{{ [{'k': t}] | group_by(attribute='k') | keys | first | collect }}"),
    ("concat", "{{ (h1 ~ h2) | collect }}"),
    ("lower", "{{ t | lower | collect }}"),
    ("upper_lower", "{{ up | lower | collect }}"),
    ("slice", "{{ tx[:-1] | collect }}"),
    ("str_filter", "{{ t | str | collect }}"),
    ("safe_filter", "{{ t | safe | collect }}"),
    ("keys_join", "{{ m | keys | join(sep='') | collect }}"),
    ("split_first", "{{ t | split(pat='|') | first | collect }}"),
    ("trim", "{{ t | trim | collect }}"),
    ("replace", "{{ t | replace(from='|', to='') | collect }}"),
    ("array_elem", "{{ [t][0] | collect }}"),
];

const ATTR_NAMES: [&str; 8] = ["a", "b", "k1", "name", "x_y", "Z", "key", "id"];

fn engine() -> Tera {
    let mut tera = Tera::default();
    tera.register_filter("probe", |v: Value, _: Kwargs, _: &State| {
        PROBE.with(|p| *p.borrow_mut() = Some(v.clone()));
        v
    });
    let mut tpls: Vec<(String, String)> = Vec::new();
    for (n, s) in [("lt", "<"), ("le", "<="), ("gt", ">"), ("ge", ">="), ("eq", "=="), ("ne", "!=")] {
        tpls.push((n.into(), format!("{{{{ (a {s} b) | probe }}}}")));
    }
    tpls.push(("sort".into(), "{{ xs | sort | probe }}".into()));
    tpls.push(("unique".into(), "{{ xs | unique | probe }}".into()));
    tpls.push(("item".into(), "{{ m[k] | probe }}".into()));
    tpls.push(("in".into(), "{{ (k in m) | probe }}".into()));
    tpls.push(("getf".into(), "{{ m | get(key=k) | probe }}".into()));
    tpls.push(("containing".into(), "{{ (m is containing(pat=k)) | probe }}".into()));
    for a in ATTR_NAMES {
        tpls.push((format!("attr.{a}"), format!("{{{{ m.{a} | probe }}}}")));
    }
    tpls.push(("in_list".into(), "{{ (a in [b]) | probe }}".into()));
    tpls.push(("list_containing".into(), "{{ ([b] is containing(pat=a)) | probe }}".into()));
    tpls.push(("unique2".into(), "{{ [a, b] | unique | length | probe }}".into()));
    tera.add_raw_templates(tpls).expect("probe templates");
    tera.register_filter("collect", |v: Value, _: Kwargs, _: &State| {
        COLLECT.with(|c| c.borrow_mut().push(v.clone()));
        v
    });
    // provenance templates are added one by one: a way the engine does not accept is skipped (and counted)
    for (ti, text) in PROV_TEXTS.iter().enumerate() {
        for (label, body) in PROV_WAYS {
            let _ = tera.add_raw_template(&format!("prov.{ti}.{label}"), &body.replace("@T@", text));
        }
    }
    tera
}

/// every way of obtaining `PROV_TEXTS[ti]` in a template: (label, value as the engine built it)
fn provenance_values(tera: &Tera, ti: usize) -> (Vec<(&'static str, Value)>, Vec<(&'static str, String)>) {
    let text = PROV_TEXTS[ti];
    let mid = text.char_indices().nth(text.chars().count() / 2).map(|(i, _)| i).unwrap_or(0);
    let mut ctx = Context::new();
    ctx.insert_value("t", Value::normal_string(text));
    ctx.insert_value("ts", Value::safe_string(text));
    ctx.insert_value("h1", Value::normal_string(&text[..mid]));
    ctx.insert_value("h2", Value::normal_string(&text[mid..]));
    ctx.insert_value("up", Value::normal_string(&text.to_uppercase()));
    ctx.insert_value("tx", Value::normal_string(&format!("{text}x")));
    let mut m = Map::new();
    m.insert(Key::from(text.to_string()), Value::from(1u64));
    ctx.insert_value("m", Value::from(m));
    let mut mb = Map::new();
    mb.insert(Key::Str(text), Value::from(1u64));
    ctx.insert_value("mb", Value::from(mb));
    let mut out = Vec::new();
    let mut skipped = Vec::new();
    for (label, _) in PROV_WAYS {
        COLLECT.with(|c| c.borrow_mut().clear());
        let r = catch(std::panic::AssertUnwindSafe(|| tera.render(&format!("prov.{ti}.{label}"), &ctx)));
        let got: Vec<Value> = COLLECT.with(|c| c.borrow_mut().drain(..).collect());
        match (r, got.as_slice()) {
            (Ok(Ok(_)), [v]) if v.kind() == ValueKind::String && v.as_str() == Some(text) => out.push((label, v.clone())),
            (Ok(Ok(_)), g) => skipped.push((label, format!("produced {:?}", g.iter().map(encode).collect::<Vec<_>>()))),
            (Ok(Err(e)), _) => skipped.push((label, format!("error {e:?}").chars().take(160).collect())),
            (Err(p), _) => skipped.push((label, format!("panic {p}"))),
        }
    }
    (out, skipped)
}

/// Everything the property says about two string values with the same text, whatever their
/// provenance, evaluated on the engine: traits, template operators, `in`, `containing`,
/// `unique`, and map lookup with one as the stored key and the other as the probe.
fn same_text_laws(tera: &Tera, a: &Value, b: &Value) -> Option<String> {
    match cmp3(a, b) {
        Ok((Ordering::Equal, Some(Ordering::Equal), true)) => {}
        other => return Some(format!("same text but (cmp, partial_cmp, ==) = {}", cmp3_str(&other))),
    }
    for (op, want) in [("eq", "ok B1"), ("ne", "ok B0"), ("le", "ok B1"), ("ge", "ok B1"), ("lt", "ok B0"), ("gt", "ok B0"), ("in_list", "ok B1"), ("list_containing", "ok B1"), ("unique2", "ok u64:1")] {
        let got = run_tpl(tera, op, &[("a", a), ("b", b)]);
        let got_norm = if op == "unique2" { got.replace("i64:1", "u64:1").replace("u128:1", "u64:1").replace("i128:1", "u64:1") } else { got.clone() };
        if got_norm != want {
            return Some(format!("same text but template `{op}` answers `{got}` (expected `{want}`)"));
        }
    }
    if let Some(k) = tera_verif_harness::wire::value_to_key(a) {
        let mut mm = Map::new();
        mm.insert(k, Value::from(7u64));
        let mv = Value::from(mm);
        let got = run_tpl(tera, "item", &[("m", &mv), ("k", b)]);
        if got != "ok u64:7" {
            return Some(format!("map keyed by the one, probed with the other: m[k] answers `{got}`"));
        }
        let got = run_tpl(tera, "in", &[("m", &mv), ("k", b)]);
        if got != "ok B1" {
            return Some(format!("map keyed by the one, probed with the other: `k in m` answers `{got}`"));
        }
    }
    None
}

/// "ok <wire>" | "err <message>" | "panic <msg>"
fn run_tpl(tera: &Tera, name: &str, vars: &[(&str, &Value)]) -> String {
    let mut ctx = Context::new();
    for (k, v) in vars {
        ctx.insert_value(k.to_string(), (*v).clone());
    }
    PROBE.with(|p| *p.borrow_mut() = None);
    let res = catch(std::panic::AssertUnwindSafe(|| tera.render(name, &ctx)));
    let probed = PROBE.with(|p| p.borrow_mut().take());
    match res {
        Err(p) => format!("panic {p}"),
        Ok(r) => match probed {
            // the probe ran: the expression was evaluated (printing an undefined result may
            // still be an error afterwards, which is not what is observed here)
            Some(v) => format!("ok {}", encode(&v)),
            None => match r {
                Ok(_) => "noprobe".into(),
                Err(e) => {
                    let msg = match e.kind() {
                        tera::ErrorKind::RenderingError(r) => r.message().to_string(),
                        _ => e.to_string(),
                    };
                    format!("err {msg}")
                }
            },
        },
    }
}

fn ord_name(o: Ordering) -> &'static str {
    match o {
        Ordering::Less => "lt",
        Ordering::Equal => "eq",
        Ordering::Greater => "gt",
    }
}
fn ordo_name(o: Option<Ordering>) -> &'static str {
    o.map(ord_name).unwrap_or("none")
}

// ------------------------------------------------------------------ generators

const INTS: [i128; 22] = [
    0,
    1,
    2,
    3,
    -1,
    -2,
    7,
    255,
    (1 << 53) - 1,
    1 << 53,
    (1 << 53) + 1,
    i64::MAX as i128 - 1,
    i64::MAX as i128,
    i64::MAX as i128 + 1,
    i64::MIN as i128,
    i64::MIN as i128 - 1,
    u64::MAX as i128,
    u64::MAX as i128 + 1,
    i128::MAX,
    i128::MAX - 1,
    i128::MIN,
    i128::MIN + 1,
];
const BIG_U: [u128; 3] = [i128::MAX as u128 + 1, u128::MAX, u128::MAX - 1];
/// includes texts that differ only by trailing NUL characters, at lengths around the 21 bytes an
/// inline string holds (20, 21, 22) and one long control
const STRS: [&str; 24] = [
    "", "a", "ab", "abc", "b", "é", "ée", "1", "true", "a b", "\u{10348}", "z",
    "\0", "\0\0", "a\0", "ab\0", "ab\0\0", "é\0",
    "abcdefghij0123456789", "abcdefghij0123456789\0", "abcdefghij0123456789_", "abcdefghij0123456789_\0",
    "abcdefghij0123456789_long_control", "abcdefghij0123456789_long_control\0",
];

/// every encoding that can hold the integer `n`
fn int_encodings(n: i128) -> Vec<Value> {
    let mut v = vec![Value::from(n)];
    if let Ok(x) = u64::try_from(n) {
        v.push(Value::from(x));
    }
    if let Ok(x) = i64::try_from(n) {
        v.push(Value::from(x));
    }
    if let Ok(x) = u128::try_from(n) {
        v.push(Value::from(x));
    }
    v
}

fn gen_int(rng: &mut Rng) -> Value {
    if rng.chance(1, 8) {
        return Value::from(*rng.pick(&BIG_U));
    }
    let n = if rng.chance(2, 3) {
        *rng.pick(&INTS)
    } else if rng.chance(1, 2) {
        rng.range(-5, 5) as i128
    } else {
        (rng.next_u128() >> rng.below(127)) as i128 * if rng.chance(1, 2) { -1 } else { 1 }
    };
    let encs = int_encodings(n);
    rng.pick(&encs).clone()
}

fn gen_float(rng: &mut Rng) -> Value {
    const FS: [f64; 18] = [
        0.0,
        -0.0,
        1.0,
        2.0,
        -1.0,
        0.5,
        1.5,
        -2.5,
        9007199254740992.0,
        9007199254740994.0,
        9223372036854775808.0,
        18446744073709551616.0,
        1.7014118346046923e38,
        -1.7014118346046923e38,
        f64::INFINITY,
        f64::NEG_INFINITY,
        f64::NAN,
        3.0,
    ];
    if rng.chance(3, 4) {
        Value::from(*rng.pick(&FS))
    } else if rng.chance(1, 2) {
        Value::from(rng.range(-6, 6) as f64)
    } else {
        Value::from(f64::from_bits(rng.next_u64()))
    }
}

fn gen_str(rng: &mut Rng) -> Value {
    let s = *rng.pick(&STRS);
    if rng.chance(1, 3) { Value::safe_string(s) } else { Value::normal_string(s) }
}

fn gen_key(rng: &mut Rng) -> Key<'static> {
    match rng.below(7) {
        0 => Key::Bool(rng.chance(1, 2)),
        1 => Key::from(rng.pick(&STRS).to_string()),
        2 => Key::Str(*rng.pick(&STRS)), // borrowed
        _ => {
            let v = gen_int(rng);
            tera_verif_harness::wire::value_to_key(&v).unwrap()
        }
    }
}

fn gen_scalar(rng: &mut Rng) -> Value {
    match rng.below(12) {
        0 => Value::undefined(),
        1 => Value::none(),
        2 => Value::from(rng.chance(1, 2)),
        3..=5 => gen_int(rng),
        6 | 7 => gen_float(rng),
        8 | 9 => gen_str(rng),
        10 => Value::bytes(rng.pick(&[vec![], vec![0u8], vec![1, 2], vec![1, 2, 3], vec![255]]).clone()),
        _ => gen_int(rng),
    }
}

fn gen_value(rng: &mut Rng, depth: u32) -> Value {
    if depth == 0 || rng.chance(1, 2) {
        return gen_scalar(rng);
    }
    if rng.chance(3, 5) {
        let n = rng.below(4);
        Value::from((0..n).map(|_| gen_value(rng, depth - 1)).collect::<Vec<_>>())
    } else {
        let n = rng.below(4);
        let mut m = Map::new();
        for _ in 0..n {
            m.insert(gen_key(rng), gen_value(rng, depth - 1));
        }
        Value::from(m)
    }
}

fn math_int(v: &Value) -> Option<(bool, u128)> {
    match v.kind() {
        ValueKind::U64 | ValueKind::I64 | ValueKind::U128 | ValueKind::I128 => {
            if let Some(u) = v.as_u128() {
                Some((false, u))
            } else {
                v.as_i128().map(|i| (true, i.unsigned_abs()))
            }
        }
        _ => None,
    }
}

/// a value related to `v`: same thing in another representation, or a near miss
fn mutate(rng: &mut Rng, v: &Value) -> Value {
    match v.kind() {
        ValueKind::U64 | ValueKind::I64 | ValueKind::U128 | ValueKind::I128 => {
            let (neg, m) = math_int(v).unwrap();
            match rng.below(4) {
                0 | 1 => {
                    // re-encode
                    let mut encs = Vec::new();
                    if !neg {
                        encs.push(Value::from(m));
                        if let Ok(x) = u64::try_from(m) {
                            encs.push(Value::from(x));
                        }
                        if let Ok(x) = i128::try_from(m) {
                            encs.push(Value::from(x));
                            if let Ok(y) = i64::try_from(x) {
                                encs.push(Value::from(y));
                            }
                            if m < (1 << 53) {
                                encs.push(Value::from(m as f64));
                            }
                        }
                    } else {
                        let x = (m as i128).wrapping_neg();
                        encs.push(Value::from(x));
                        if let Ok(y) = i64::try_from(x) {
                            encs.push(Value::from(y));
                        }
                        if m < (1 << 53) {
                            encs.push(Value::from(-(m as f64)));
                        }
                    }
                    rng.pick(&encs).clone()
                }
                2 => {
                    if neg { Value::from((m as i128).wrapping_neg().saturating_add(1)) } else { Value::from(m.saturating_add(1)) }
                }
                _ => gen_int(rng),
            }
        }
        ValueKind::F64 => {
            let f = v.as_f64().unwrap();
            if f.fract() == 0.0 && f.abs() < 1e18 && rng.chance(1, 2) {
                let encs = int_encodings(f as i128);
                rng.pick(&encs).clone()
            } else if rng.chance(1, 2) {
                Value::from(-f)
            } else {
                gen_float(rng)
            }
        }
        ValueKind::String => {
            let s = v.as_str().unwrap();
            match rng.below(3) {
                0 => {
                    if v.is_safe() { Value::normal_string(s) } else { Value::safe_string(s) }
                }
                1 => {
                    if rng.chance(1, 2) { Value::normal_string(&format!("{s}\0")) } else { Value::normal_string(&format!("{s}a")) }
                }
                _ => gen_str(rng),
            }
        }
        ValueKind::Array => {
            let mut xs = v.as_array().unwrap().to_vec();
            match rng.below(5) {
                0 if !xs.is_empty() => {
                    xs.pop();
                }
                1 => xs.push(gen_value(rng, 1)),
                2 | 3 if !xs.is_empty() => {
                    let i = rng.below(xs.len());
                    xs[i] = mutate(rng, &xs[i]);
                }
                _ => {
                    if xs.len() >= 2 {
                        xs.swap(0, 1);
                    }
                }
            }
            Value::from(xs)
        }
        ValueKind::Map => {
            let m = v.as_map().unwrap();
            let mut es: Vec<(Key<'static>, Value)> = m.iter().map(|(k, v)| (k.clone(), v.clone())).collect();
            match rng.below(5) {
                0 if !es.is_empty() => {
                    es.pop();
                }
                1 => es.push((gen_key(rng), gen_value(rng, 1))),
                2 if !es.is_empty() => {
                    let i = rng.below(es.len());
                    es[i].1 = mutate(rng, &es[i].1);
                }
                3 if !es.is_empty() => {
                    // same key in another representation
                    let i = rng.below(es.len());
                    let kv = es[i].0.as_value();
                    let kv2 = mutate(rng, &kv);
                    if let Some(k2) = tera_verif_harness::wire::value_to_key(&kv2) {
                        es[i].0 = k2;
                    }
                }
                _ => es.reverse(), // other insertion order
            }
            let mut out = Map::new();
            for (k, v) in es {
                out.insert(k, v);
            }
            Value::from(out)
        }
        ValueKind::Bool => {
            if rng.chance(1, 2) { Value::from(!v.as_bool().unwrap()) } else { Value::from(v.as_bool().unwrap() as u64) }
        }
        _ => gen_scalar(rng),
    }
}

fn kind_class(v: &Value) -> &'static str {
    match v.kind() {
        ValueKind::Undefined => "undef",
        ValueKind::None => "none",
        ValueKind::Bool => "bool",
        ValueKind::U64 | ValueKind::I64 | ValueKind::U128 | ValueKind::I128 | ValueKind::F64 => "num",
        ValueKind::String => "str",
        ValueKind::Array => "arr",
        ValueKind::Map => "map",
        ValueKind::Bytes => "bytes",
        _ => "other",
    }
}

// ------------------------------------------------------------------ pair / triple laws

type Cmp3 = (Ordering, Option<Ordering>, bool);

fn cmp3(a: &Value, b: &Value) -> Result<Cmp3, String> {
    catch(std::panic::AssertUnwindSafe(|| tera::verif_hooks::compare(a, b)))
}
fn cmp3_str(r: &Result<Cmp3, String>) -> String {
    match r {
        Ok((c, p, e)) => format!("{} {} {}", ord_name(*c), ordo_name(*p), if *e { 1 } else { 0 }),
        Err(p) => format!("panic {p}"),
    }
}

/// exact comparison of two integers of any width
fn exact_int_cmp(a: (bool, u128), b: (bool, u128)) -> Ordering {
    let a_neg = a.0 && a.1 != 0;
    let b_neg = b.0 && b.1 != 0;
    match (a_neg, b_neg) {
        (false, false) => a.1.cmp(&b.1),
        (true, true) => b.1.cmp(&a.1),
        (true, false) => Ordering::Less,
        (false, true) => Ordering::Greater,
    }
}

/// laws that involve two values; None = all hold
fn pair_laws(a: &Value, b: &Value) -> Option<String> {
    let ab = match cmp3(a, b) {
        Ok(x) => x,
        Err(p) => return Some(format!("panic in compare(a,b): {p}")),
    };
    let ba = match cmp3(b, a) {
        Ok(x) => x,
        Err(p) => return Some(format!("panic in compare(b,a): {p}")),
    };
    let aa = match cmp3(a, a) {
        Ok(x) => x,
        Err(p) => return Some(format!("panic in compare(a,a): {p}")),
    };
    if !aa.2 || aa.0 != Ordering::Equal {
        return Some(format!("reflexivity: a == a is {}, cmp(a,a) = {}", aa.2, ord_name(aa.0)));
    }
    if ab.2 != ba.2 {
        return Some(format!("symmetry of ==: a == b is {}, b == a is {}", ab.2, ba.2));
    }
    if ba.0 != ab.0.reverse() {
        return Some(format!("cmp(a,b) = {} but cmp(b,a) = {}", ord_name(ab.0), ord_name(ba.0)));
    }
    if (ab.0 == Ordering::Equal) != ab.2 {
        return Some(format!("cmp(a,b) = {} but a == b is {}", ord_name(ab.0), ab.2));
    }
    if let Some(p) = ab.1 {
        if p != ab.0 {
            return Some(format!("partial_cmp(a,b) = {} but cmp(a,b) = {}", ord_name(p), ord_name(ab.0)));
        }
    }
    if ba.1 != ab.1.map(Ordering::reverse) {
        return Some(format!("partial_cmp(a,b) = {} but partial_cmp(b,a) = {}", ordo_name(ab.1), ordo_name(ba.1)));
    }
    // numbers by exact value (integers of any two widths), safe mark ignored
    if let (Some(x), Some(y)) = (math_int(a), math_int(b)) {
        let want = exact_int_cmp(x, y);
        if ab.0 != want || ab.1 != Some(want) || ab.2 != (want == Ordering::Equal) {
            return Some(format!("integers compare {} by exact value, engine says {}", ord_name(want), cmp3_str(&Ok(ab))));
        }
    }
    if let (Some(x), Some(y)) = (a.as_str(), b.as_str()) {
        if a.kind() == ValueKind::String && b.kind() == ValueKind::String {
            let want = x.cmp(y);
            if ab.0 != want || ab.2 != (x == y) {
                return Some(format!("strings compare {} by text (safe mark ignored), engine says {}", ord_name(want), cmp3_str(&Ok(ab))));
            }
        }
    }
    None
}

fn le(o: Ordering) -> bool {
    o != Ordering::Greater
}

fn triple_laws(a: &Value, b: &Value, c: &Value) -> Option<String> {
    let r = catch(std::panic::AssertUnwindSafe(|| {
        (
            tera::verif_hooks::compare(a, b),
            tera::verif_hooks::compare(b, c),
            tera::verif_hooks::compare(a, c),
        )
    }));
    let (ab, bc, ac) = match r {
        Ok(x) => x,
        Err(p) => return Some(format!("panic: {p}")),
    };
    if ab.2 && bc.2 && !ac.2 {
        return Some("== not transitive: a == b, b == c, a != c".into());
    }
    if le(ab.0) && le(bc.0) && !le(ac.0) {
        return Some(format!("cmp not transitive: cmp(a,b) = {}, cmp(b,c) = {}, cmp(a,c) = {}", ord_name(ab.0), ord_name(bc.0), ord_name(ac.0)));
    }
    if !le(ab.0.reverse()) || !le(bc.0.reverse()) {
        // fine: only the <= chain is asserted
    }
    if ab.0 == Ordering::Equal && ac.0 != bc.0 {
        return Some(format!("a ~ b under cmp but cmp(a,c) = {} and cmp(b,c) = {}", ord_name(ac.0), ord_name(bc.0)));
    }
    if ab.2 && ac.2 != bc.2 {
        return Some("a == b but (a == c) != (b == c)".into());
    }
    None
}

// ------------------------------------------------------------------ shrinking

fn shrink_candidates(v: &Value) -> Vec<Value> {
    let mut out = Vec::new();
    match v.kind() {
        ValueKind::Array => {
            let xs = v.as_array().unwrap();
            for i in 0..xs.len() {
                let mut ys = xs.to_vec();
                ys.remove(i);
                out.push(Value::from(ys));
            }
            for i in 0..xs.len() {
                out.push(xs[i].clone());
                for c in shrink_candidates(&xs[i]) {
                    let mut ys = xs.to_vec();
                    ys[i] = c;
                    out.push(Value::from(ys));
                }
            }
        }
        ValueKind::Map => {
            let m = v.as_map().unwrap();
            let es: Vec<_> = m.iter().collect();
            for i in 0..es.len() {
                let mut n = Map::new();
                for (j, (k, x)) in es.iter().enumerate() {
                    if i != j {
                        n.insert((*k).clone(), (*x).clone());
                    }
                }
                out.push(Value::from(n));
            }
            for (k, x) in &es {
                out.push((*x).clone());
                for c in shrink_candidates(x) {
                    let mut n: Map = (*m).clone();
                    n.insert((*k).clone(), c);
                    out.push(Value::from(n));
                }
            }
        }
        ValueKind::String => {
            let s = v.as_str().unwrap();
            if !s.is_empty() {
                out.push(Value::normal_string(""));
                let t: String = s.chars().skip(1).collect();
                out.push(Value::normal_string(&t));
            }
        }
        ValueKind::U64 | ValueKind::I64 | ValueKind::U128 | ValueKind::I128 => {
            let (neg, m) = math_int(v).unwrap();
            if m > 1 {
                out.push(Value::from(0u64));
                out.push(Value::from(1u64));
                if !neg {
                    out.push(Value::from(m / 2));
                }
            }
        }
        _ => {}
    }
    out
}

/// greedy shrink of a tuple of values while `fails` keeps holding
fn shrink(vals: &mut Vec<Value>, fails: &dyn Fn(&[Value]) -> bool) {
    let mut progress = true;
    let mut rounds = 0;
    while progress && rounds < 200 {
        progress = false;
        rounds += 1;
        'outer: for i in 0..vals.len() {
            for c in shrink_candidates(&vals[i]) {
                let mut trial = vals.clone();
                trial[i] = c;
                if fails(&trial) {
                    *vals = trial;
                    progress = true;
                    break 'outer;
                }
            }
        }
    }
}

// ------------------------------------------------------------------ sort / unique contracts

fn as_arr(res: &str) -> Option<Vec<Value>> {
    res.strip_prefix("ok ").and_then(decode).and_then(|v| v.as_array().map(|a| a.to_vec()))
}

fn sort_contract(input: &[Value], res: &str) -> Option<String> {
    if res.starts_with("panic") {
        return Some(format!("sort panicked: {res}"));
    }
    if res.starts_with("err") {
        // refusing is only allowed when two non-none elements are not comparable
        let mut incomparable = false;
        for a in input {
            for b in input {
                if !a.is_none() && !b.is_none() && a.partial_cmp(b).is_none() {
                    incomparable = true;
                }
            }
        }
        if !incomparable {
            return Some(format!("sort refused an input whose elements are mutually comparable: {res}"));
        }
        return None;
    }
    let out = match as_arr(res) {
        Some(o) => o,
        None => return Some(format!("sort gave no array: {res}")),
    };
    let mut a: Vec<String> = input.iter().map(encode).collect();
    let mut b: Vec<String> = out.iter().map(encode).collect();
    let out_enc = b.clone();
    a.sort();
    b.sort();
    if a != b {
        return Some("sort output is not a permutation of the input".into());
    }
    for w in out.windows(2) {
        if w[0].cmp(&w[1]) == Ordering::Greater {
            return Some(format!("sort output not non-decreasing: {} before {}", encode(&w[0]), encode(&w[1])));
        }
    }
    // stability: each run of cmp-equal outputs appears in input order
    let mut i = 0;
    while i < out.len() {
        let mut j = i + 1;
        while j < out.len() && out[i].cmp(&out[j]) == Ordering::Equal {
            j += 1;
        }
        let want: Vec<String> = input.iter().filter(|v| (*v).cmp(&out[i]) == Ordering::Equal).map(encode).collect();
        if want != out_enc[i..j] {
            return Some("sort is not stable (equal elements reordered)".into());
        }
        i = j;
    }
    None
}

fn unique_contract(input: &[Value], res: &str) -> Option<String> {
    if res.starts_with("panic") {
        return Some(format!("unique panicked: {res}"));
    }
    let out = match as_arr(res) {
        Some(o) => o,
        None => return Some(format!("unique gave no array: {res}")),
    };
    // reference: first occurrences under ==
    let mut want: Vec<&Value> = Vec::new();
    for v in input {
        if !want.iter().any(|w| **w == *v) {
            want.push(v);
        }
    }
    let w: Vec<String> = want.iter().map(|v| encode(v)).collect();
    let o: Vec<String> = out.iter().map(encode).collect();
    if w != o {
        return Some(format!("unique is not the list of first occurrences of every ==-class: expected {} elements, got {}", w.len(), o.len()));
    }
    for i in 0..out.len() {
        for j in 0..i {
            if out[i] == out[j] {
                return Some("unique kept two == elements".into());
            }
        }
    }
    None
}

// ------------------------------------------------------------------ keys

#[derive(Default)]
struct Recorder(Vec<u8>);
impl Hasher for Recorder {
    fn finish(&self) -> u64 {
        0
    }
    fn write(&mut self, bytes: &[u8]) {
        self.0.extend_from_slice(bytes);
    }
}

fn hash_bytes(k: &Key<'_>) -> String {
    let mut r = Recorder::default();
    k.hash(&mut r);
    hex(&r.0)
}

fn std_hash(k: &Key<'_>) -> u64 {
    let mut h = std::collections::hash_map::DefaultHasher::new();
    k.hash(&mut h);
    h.finish()
}

fn key_token(k: &Key<'_>) -> String {
    match k {
        Key::Bool(b) => format!("kb:{}", *b as u8),
        Key::U64(n) => format!("ku64:{n}"),
        Key::I64(n) => format!("ki64:{n}"),
        Key::U128(n) => format!("ku128:{n}"),
        Key::I128(n) => format!("ki128:{n}"),
        Key::String(s) => format!("kS:{}", hex(s.as_bytes())),
        Key::Str(s) => format!("ks:{}", hex(s.as_bytes())),
        _ => "k?".into(),
    }
}

fn parse_key_token(t: &str) -> Option<Key<'static>> {
    let (p, d) = t.split_once(':')?;
    Some(match p {
        "kb" => Key::Bool(d == "1"),
        "ku64" => Key::U64(d.parse().ok()?),
        "ki64" => Key::I64(d.parse().ok()?),
        "ku128" => Key::U128(d.parse().ok()?),
        "ki128" => Key::I128(d.parse().ok()?),
        "kS" => Key::String(Arc::from(String::from_utf8(tera_verif_harness::wire::unhex(d)?).ok()?)),
        "ks" => Key::Str(Box::leak(String::from_utf8(tera_verif_harness::wire::unhex(d)?).ok()?.into_boxed_str())),
        _ => return None,
    })
}

fn key_lattice(rng: &mut Rng, extra: usize) -> Vec<Key<'static>> {
    let mut ks: Vec<Key<'static>> = vec![Key::Bool(false), Key::Bool(true)];
    let mut ints: Vec<i128> = vec![
        0,
        1,
        2,
        -1,
        -2,
        i64::MIN as i128,
        i64::MAX as i128,
        i64::MAX as i128 + 1,
        u64::MAX as i128,
        u64::MAX as i128 + 1,
        i128::MIN,
        i128::MAX,
    ];
    for _ in 0..extra {
        ints.push((rng.next_u128() >> rng.below(127)) as i128 * if rng.chance(1, 2) { -1 } else { 1 });
    }
    for n in ints {
        ks.push(Key::I128(n));
        if let Ok(x) = u64::try_from(n) {
            ks.push(Key::U64(x));
        }
        if let Ok(x) = i64::try_from(n) {
            ks.push(Key::I64(x));
        }
        if let Ok(x) = u128::try_from(n) {
            ks.push(Key::U128(x));
        }
    }
    ks.push(Key::U128(i128::MAX as u128 + 1));
    ks.push(Key::U128(u128::MAX));
    for s in ["", "a", "ab", "b", "é", "1", "true", "0"] {
        ks.push(Key::String(Arc::from(s)));
        ks.push(Key::Str(s));
    }
    ks
}

/// what a key denotes, decided without `Key::eq`
#[derive(PartialEq, Eq, Clone, Debug, PartialOrd, Ord)]
enum MathKey {
    B(bool),
    I(bool, u128),
    S(String),
}
fn math_key(k: &Key<'_>) -> MathKey {
    match k {
        Key::Bool(b) => MathKey::B(*b),
        Key::U64(n) => MathKey::I(false, *n as u128),
        Key::U128(n) => MathKey::I(false, *n),
        Key::I64(n) => MathKey::I(*n < 0, (*n as i128).unsigned_abs()),
        Key::I128(n) => MathKey::I(*n < 0, n.unsigned_abs()),
        Key::String(s) => MathKey::S(s.to_string()),
        Key::Str(s) => MathKey::S(s.to_string()),
        _ => MathKey::S("?".into()),
    }
}
fn math_key_of_value(v: &Value) -> Option<MathKey> {
    match v.kind() {
        ValueKind::Bool => Some(MathKey::B(v.as_bool()?)),
        ValueKind::String => Some(MathKey::S(v.as_str()?.to_string())),
        _ => math_int(v).map(|(n, m)| MathKey::I(n && m != 0, m)),
    }
}

fn key_pair_impl(a: &Key<'_>, b: &Key<'_>) -> String {
    match catch(std::panic::AssertUnwindSafe(|| (a == b, a.cmp(b), hash_bytes(a), hash_bytes(b)))) {
        Ok((e, c, ha, hb)) => format!("{} {} {} {}", e as u8, ord_name(c), ha, hb),
        Err(p) => format!("panic {p}"),
    }
}

fn key_pair_laws(a: &Key<'_>, b: &Key<'_>) -> Option<String> {
    let r = catch(std::panic::AssertUnwindSafe(|| {
        (a == b, b == a, a.cmp(b), b.cmp(a), a == a, a.cmp(a), hash_bytes(a) == hash_bytes(b), std_hash(a) == std_hash(b))
    }));
    let (e, e2, c, c2, r1, r2, hb, hs) = match r {
        Ok(x) => x,
        Err(p) => return Some(format!("panic: {p}")),
    };
    if !r1 || r2 != Ordering::Equal {
        return Some("key not equal to itself".into());
    }
    if e != e2 {
        return Some("key == not symmetric".into());
    }
    if c2 != c.reverse() {
        return Some("key cmp not antisymmetric".into());
    }
    if (c == Ordering::Equal) != e {
        return Some(format!("key cmp = {} but == is {e}", ord_name(c)));
    }
    if e && (!hb || !hs) {
        return Some("equal keys hash differently".into());
    }
    let want = math_key(a) == math_key(b);
    if e != want {
        return Some(format!("keys denote {} values but == is {e}", if want { "the same" } else { "different" }));
    }
    None
}

// ------------------------------------------------------------------ lookups

struct LookupCase {
    map: Value,
    /// what was inserted: (denotation, stored value)
    inserted: Vec<(MathKey, Value)>,
    probe: Value,
}

fn gen_lookup_map(rng: &mut Rng, size: usize) -> (Value, Vec<(MathKey, Value)>) {
    let mut m = Map::new();
    let mut ins: BTreeMap<MathKey, Value> = BTreeMap::new();
    let mut guard = 0;
    while m.len() < size && guard < size * 20 + 20 {
        guard += 1;
        let k: Key<'static> = match rng.below(10) {
            0 => Key::Bool(rng.chance(1, 2)),
            1..=3 => Key::from(rng.pick(&ATTR_NAMES).to_string()),
            4 => Key::from(rng.pick(&STRS).to_string()),
            5 => Key::from(format!("s{}", rng.below(40))),
            6 => Key::Str(*rng.pick(&ATTR_NAMES)),
            _ => {
                let v = if rng.chance(1, 2) { Value::from(rng.range(-20, 40)) } else { gen_int(rng) };
                let encs = match math_int(&v) {
                    Some((false, mag)) => {
                        let mut e = vec![Value::from(mag)];
                        if let Ok(x) = u64::try_from(mag) {
                            e.push(Value::from(x));
                        }
                        if let Ok(x) = i128::try_from(mag) {
                            e.push(Value::from(x));
                            if let Ok(y) = i64::try_from(x) {
                                e.push(Value::from(y));
                            }
                        }
                        e
                    }
                    _ => vec![v.clone()],
                };
                tera_verif_harness::wire::value_to_key(rng.pick(&encs)).unwrap()
            }
        };
        let v = match rng.below(6) {
            0 => Value::none(),
            1 => Value::undefined(),
            2 => Value::from(vec![Value::from(m.len() as u64)]),
            _ => Value::from(format!("v{}", m.len())),
        };
        // HashMap::insert keeps the first key object and replaces the value
        ins.insert(math_key(&k), v.clone());
        m.insert(k, v);
    }
    (Value::from(m), ins.into_iter().collect())
}

fn gen_probes(rng: &mut Rng, inserted: &[(MathKey, Value)]) -> Vec<Value> {
    let mut ps: Vec<Value> = Vec::new();
    for (mk, _) in inserted {
        match mk {
            MathKey::B(b) => {
                ps.push(Value::from(*b));
                ps.push(Value::from(*b as u64));
                ps.push(Value::normal_string(if *b { "true" } else { "false" }));
            }
            MathKey::S(s) => {
                ps.push(Value::normal_string(s));
                ps.push(Value::safe_string(s));
                if let Ok(n) = s.parse::<i64>() {
                    ps.push(Value::from(n));
                }
            }
            MathKey::I(neg, m) => {
                if *neg {
                    let x = (*m as i128).wrapping_neg();
                    ps.push(Value::from(x));
                    if let Ok(y) = i64::try_from(x) {
                        ps.push(Value::from(y));
                    }
                } else {
                    ps.push(Value::from(*m));
                    if let Ok(x) = u64::try_from(*m) {
                        ps.push(Value::from(x));
                    }
                    if let Ok(x) = i128::try_from(*m) {
                        ps.push(Value::from(x));
                        if let Ok(y) = i64::try_from(x) {
                            ps.push(Value::from(y));
                        }
                    }
                    if *m < (1 << 53) {
                        ps.push(Value::from(*m as f64));
                        ps.push(Value::normal_string(&m.to_string()));
                    }
                }
            }
        }
    }
    // absent keys and non-keys
    for _ in 0..4 {
        ps.push(gen_scalar(rng));
    }
    ps.push(Value::normal_string(*rng.pick(&ATTR_NAMES)));
    ps.push(Value::from(vec![Value::from(1u64)]));
    ps.push(Value::none());
    ps.push(Value::from(-0.0f64));
    ps
}

fn is_key_kind(v: &Value) -> bool {
    matches!(v.kind(), ValueKind::Bool | ValueKind::String | ValueKind::U64 | ValueKind::I64 | ValueKind::U128 | ValueKind::I128)
}

/// expected outcome by "an equal key was inserted": Some(stored) / None
fn expected_entry<'a>(inserted: &'a [(MathKey, Value)], probe: &Value) -> Option<&'a Value> {
    let mk = math_key_of_value(probe)?;
    if !is_key_kind(probe) {
        return None;
    }
    inserted.iter().find(|(k, _)| *k == mk).map(|(_, v)| v)
}

struct LookupObs {
    /// (route, request for the model, implementation answer canonicalised to the model's format)
    routes: Vec<(String, String, String)>,
    oracle: Option<String>,
}

fn canon_item(res: &str) -> String {
    if res.starts_with("ok ") {
        res.to_string()
    } else if res.contains("Map keys must be") {
        "err badkey".into()
    } else {
        res.to_string()
    }
}
fn canon_bool(res: &str) -> String {
    match res {
        "ok B1" => "ok 1".into(),
        "ok B0" => "ok 0".into(),
        r if r.contains("cannot be used on a container") => "err container".into(),
        r if r.contains("is not a container") => "err container".into(),
        r => r.to_string(),
    }
}
fn canon_opt(res: &str) -> String {
    if let Some(v) = res.strip_prefix("ok ") {
        if v == "U" { "none".into() } else { format!("some {v}") }
    } else if res.contains("does not have a key") {
        "none".into()
    } else {
        res.to_string()
    }
}

fn observe_lookup(tera: &Tera, c: &LookupCase) -> LookupObs {
    let m = &c.map;
    let k = &c.probe;
    let me = encode(m);
    let ke = encode(k);
    let want = expected_entry(&c.inserted, k);
    let mut routes = Vec::new();
    let mut oracle: Option<String> = None;
    let mut fail = |route: &str, got: &str, exp: String| {
        if oracle.is_none() {
            oracle = Some(format!("{route}: engine `{got}`, an equal key was{} inserted so `{exp}` is required", if want.is_some() { "" } else { " not" }));
        }
    };
    // m[k]
    if !k.is_undefined() {
        let got = canon_item(&run_tpl(tera, "item", &[("m", m), ("k", k)]));
        let exp = if !is_key_kind(k) { "err badkey".to_string() } else { format!("ok {}", want.map(encode).unwrap_or("U".into())) };
        if got != exp {
            fail("m[k]", &got, exp);
        }
        routes.push(("item".into(), format!("item {me} {ke}"), got));
        // k in m
        let got = canon_bool(&run_tpl(tera, "in", &[("m", m), ("k", k)]));
        let exp = format!("ok {}", want.is_some() as u8);
        if got != exp {
            fail("k in m", &got, exp);
        }
        routes.push(("in".into(), format!("in {me} {ke}"), got));
        // m is containing(pat=k)
        let got = canon_bool(&run_tpl(tera, "containing", &[("m", m), ("k", k)]));
        let exp = format!("ok {}", want.is_some() as u8);
        if got != exp {
            fail("m is containing(k)", &got, exp);
        }
        routes.push(("containing".into(), format!("containing {me} {ke}"), got));
    }
    if k.kind() == ValueKind::String {
        let s = k.as_str().unwrap();
        // get(key=k): a stored undefined is returned as such
        let got = canon_opt(&run_tpl(tera, "getf", &[("m", m), ("k", k)]));
        let exp = match want {
            Some(v) if !v.is_undefined() => format!("some {}", encode(v)),
            Some(_) => "none".to_string(),
            None => "none".to_string(),
        };
        if got != exp {
            fail("m | get(key=k)", &got, exp.clone());
        }
        let model_req = format!("getf {me} {ke}");
        routes.push(("getf".into(), model_req, got));
        // m.k for identifier-like names
        if ATTR_NAMES.contains(&s) {
            let got = canon_opt(&run_tpl(tera, &format!("attr.{s}"), &[("m", m)]));
            if got != exp {
                fail("m.k", &got, exp.clone());
            }
            routes.push(("attr".into(), format!("attr {me} {ke}"), got));
        }
        // the public Map API with a borrowed and an owned key
        let map = m.as_map().unwrap();
        let b = map.get(&Key::Str(s)).map(encode);
        let o = map.get(&Key::String(Arc::from(s))).map(encode);
        let w = want.map(encode);
        if b != w || o != w || map.contains_key(&Key::Str(s)) != want.is_some() {
            fail("Map::get(Str / String)", &format!("{b:?} / {o:?}"), format!("{w:?}"));
        }
    } else if let Some(key) = tera_verif_harness::wire::value_to_key(k) {
        let map = m.as_map().unwrap();
        let g = map.get(&key).map(encode);
        let w = want.map(encode);
        if g != w || map.contains_key(&key) != want.is_some() {
            fail("Map::get", &format!("{g:?}"), format!("{w:?}"));
        }
    }
    for (_, _, got) in &routes {
        if got.starts_with("panic") && oracle.is_none() {
            oracle = Some(format!("panic: {got}"));
        }
    }
    LookupObs { routes, oracle }
}


// ------------------------------------------------------------------ maps inserted through serde

const SERDE_KEY_TYPES: [&str; 12] = ["i8", "i16", "i32", "i64", "i128", "isize", "u8", "u16", "u32", "u64", "u128", "usize"];

/// the integer (neg, magnitude) as a `$t`, if it fits
macro_rules! conv_int {
    ($t:ty, $neg:expr, $mag:expr) => {{
        if !$neg || $mag == 0 {
            <$t>::try_from($mag).ok()
        } else if $mag <= 1u128 << 127 {
            <$t>::try_from(($mag as i128).wrapping_neg()).ok()
        } else {
            None
        }
    }};
}

macro_rules! serde_map_of {
    ($t:ty, $keys:expr, $btree:expr) => {{
        let mut ins: Vec<(MathKey, Value)> = Vec::new();
        let mut h: std::collections::HashMap<$t, String> = std::collections::HashMap::new();
        let mut b: std::collections::BTreeMap<$t, String> = std::collections::BTreeMap::new();
        for (i, (neg, mag)) in $keys.iter().enumerate() {
            if let Some(x) = conv_int!($t, *neg, *mag) {
                let mk = MathKey::I(*neg && *mag != 0, *mag);
                if ins.iter().any(|(k, _)| *k == mk) {
                    continue;
                }
                let v = format!("v{i}");
                h.insert(x, v.clone());
                b.insert(x, v.clone());
                ins.push((mk, Value::normal_string(&v)));
            }
        }
        let map = if $btree { Value::from_serializable(&b) } else { Value::from_serializable(&h) };
        (map, ins)
    }};
}

/// A Rust map whose key type is exactly `ty`, turned into a Value by the engine's serde bridge;
/// also what was inserted, by mathematical value (decided here, not read back from the result).
fn serde_map(ty: &str, btree: bool, keys: &[(bool, u128)]) -> Option<(Value, Vec<(MathKey, Value)>)> {
    Some(match ty {
        "i8" => serde_map_of!(i8, keys, btree),
        "i16" => serde_map_of!(i16, keys, btree),
        "i32" => serde_map_of!(i32, keys, btree),
        "i64" => serde_map_of!(i64, keys, btree),
        "i128" => serde_map_of!(i128, keys, btree),
        "isize" => serde_map_of!(isize, keys, btree),
        "u8" => serde_map_of!(u8, keys, btree),
        "u16" => serde_map_of!(u16, keys, btree),
        "u32" => serde_map_of!(u32, keys, btree),
        "u64" => serde_map_of!(u64, keys, btree),
        "u128" => serde_map_of!(u128, keys, btree),
        "usize" => serde_map_of!(usize, keys, btree),
        _ => return None,
    })
}

/// MIN, MAX, 0, 1, -1, 2 and their neighbours for the width, plus a few random ones
fn serde_key_lattice(ty: &str, rng: &mut Rng) -> Vec<(bool, u128)> {
    let (min_mag, max): (u128, u128) = match ty {
        "i8" => (1 << 7, (1 << 7) - 1),
        "i16" => (1 << 15, (1 << 15) - 1),
        "i32" => (1 << 31, (1 << 31) - 1),
        "i64" | "isize" => (1 << 63, (1 << 63) - 1),
        "i128" => (1 << 127, (1 << 127) - 1),
        "u8" => (0, u8::MAX as u128),
        "u16" => (0, u16::MAX as u128),
        "u32" => (0, u32::MAX as u128),
        "u64" | "usize" => (0, u64::MAX as u128),
        _ => (0, u128::MAX),
    };
    let mut ks = vec![(false, 0), (false, 1), (false, 2), (false, max), (false, max - 1)];
    if min_mag > 0 {
        ks.extend([(true, 1), (true, 2), (true, min_mag), (true, min_mag - 1)]);
    }
    for _ in 0..2 {
        let r = rng.next_u128();
        let m = if max == u128::MAX { r } else { r % (max + 1) };
        ks.push((min_mag > 0 && rng.chance(1, 2), m >> rng.below(100).min(120)));
    }
    ks
}

// ------------------------------------------------------------------ main

fn model_one(env: &Env, req: &str) -> String {
    let exe = driver::driver_path(&env.verif_dir, "drv_c15");
    match driver::run_batch(&exe, &[req.to_string()]) {
        Ok(v) => v[0].clone(),
        Err(e) => format!("driver error: {e}"),
    }
}

fn replay(env: &Env, tera: &Tera, path: &str) {
    let text = std::fs::read_to_string(path).expect("replay file");
    let j: serde_json::Value = serde_json::from_str(&text).expect("replay json");
    let j = if j.get("replay").is_some() { j["replay"].clone() } else { j };
    let vals: Vec<Value> = j["values"].as_array().map(|a| a.iter().filter_map(|s| s.as_str().and_then(decode)).collect()).unwrap_or_default();
    match j["family"].as_str().unwrap_or("") {
        "pair" => {
            let req = format!("cmp {} {}", encode(&vals[0]), encode(&vals[1]));
            println!("request: {req}\nimplementation: {}\nmodel: {}\nlaws: {:?}", cmp3_str(&cmp3(&vals[0], &vals[1])), model_one(env, &req), pair_laws(&vals[0], &vals[1]));
            for op in ["eq", "ne", "lt", "le", "gt", "ge"] {
                println!("template {op}: {}", run_tpl(tera, op, &[("a", &vals[0]), ("b", &vals[1])]));
            }
        }
        "triple" => {
            for (x, y) in [(0, 1), (1, 2), (0, 2)] {
                let req = format!("cmp {} {}", encode(&vals[x]), encode(&vals[y]));
                println!("request: {req}\nimplementation: {}\nmodel: {}", cmp3_str(&cmp3(&vals[x], &vals[y])), model_one(env, &req));
            }
            println!("laws: {:?}", triple_laws(&vals[0], &vals[1], &vals[2]));
        }
        "sort" | "unique" => {
            let fam = j["family"].as_str().unwrap();
            let res = run_tpl(tera, fam, &[("xs", &Value::from(vals.clone()))]);
            let verdict = if fam == "sort" { sort_contract(&vals, &res) } else { unique_contract(&vals, &res) };
            println!("input: {}\nimplementation: {res}\ncontract: {verdict:?}", encode(&Value::from(vals.clone())));
        }
        "key" => {
            let a = parse_key_token(j["ka"].as_str().unwrap()).unwrap();
            let b = parse_key_token(j["kb"].as_str().unwrap()).unwrap();
            let req = format!("key {} {}", key_token(&a), key_token(&b));
            println!("request: {req}\nimplementation: {}\nmodel: {}\nlaws: {:?}", key_pair_impl(&a, &b), model_one(env, &req), key_pair_laws(&a, &b));
        }
        "serde_lookup" => {
            let ty = j["key_type"].as_str().unwrap_or("");
            let btree = j["btree"].as_bool().unwrap_or(false);
            let keys: Vec<(bool, u128)> = j["keys"].as_array().map(|a| a.iter().filter_map(|k| {
                let t = k.as_str()?;
                Some(match t.strip_prefix('-') { Some(m) => (true, m.parse().ok()?), None => (false, t.parse().ok()?) })
            }).collect()).unwrap_or_default();
            let probe = j["probe"].as_str().and_then(decode).expect("probe");
            match serde_map(ty, btree, &keys) {
                Some((map, inserted)) => {
                    println!("{}<{ty}, String> with keys {:?} serialized by the engine: {}", if btree { "BTreeMap" } else { "HashMap" }, j["keys"], encode(&map));
                    let c = LookupCase { map, inserted, probe };
                    let obs = observe_lookup(tera, &c);
                    for (route, req, got) in &obs.routes {
                        println!("route {route}: request: {req}\n  implementation: {got}\n  model: {}", model_one(env, req));
                    }
                    println!("oracle: {:?}", obs.oracle);
                }
                None => println!("unknown key type {ty}"),
            }
        }
        "provenance" => {
            let ti = j["text_index"].as_u64().unwrap_or(0) as usize;
            let (vals, skipped) = provenance_values(tera, ti);
            let la = j["a"].as_str().unwrap_or("");
            let lb = j["b"].as_str().unwrap_or("");
            println!("text {:?} ({} bytes); ways skipped: {skipped:?}", PROV_TEXTS[ti], PROV_TEXTS[ti].len());
            let a = vals.iter().find(|(l, _)| *l == la).map(|(_, v)| v.clone());
            let b = vals.iter().find(|(l, _)| *l == lb).map(|(_, v)| v.clone());
            if let (Some(a), Some(b)) = (a, b) {
                let req = format!("cmp {} {}", encode(&a), encode(&b));
                println!("a obtained by `{la}`, b obtained by `{lb}`\nrequest: {req}\nimplementation: {}\nmodel: {}\nlaws: {:?}", cmp3_str(&cmp3(&a, &b)), model_one(env, &req), same_text_laws(tera, &a, &b));
                for op in ["eq", "ne", "le", "ge", "in_list", "list_containing", "unique2"] {
                    println!("template {op}: {}", run_tpl(tera, op, &[("a", &a), ("b", &b)]));
                }
            } else {
                println!("provenance way not available: {la} / {lb}");
            }
        }
        "lookup" if !vals[0].is_map() => {
            for op in ["in", "containing"] {
                let req = format!("{op} {} {}", encode(&vals[0]), encode(&vals[1]));
                println!("request: {req}\n  implementation: {}\n  model: {}", run_tpl(tera, op, &[("m", &vals[0]), ("k", &vals[1])]), model_one(env, &req));
            }
            if let Some(a) = vals[0].as_array() {
                println!("membership by ==: {}", a.iter().any(|e| *e == vals[1]));
            }
        }
        "lookup" => {
            let map = vals[0].clone();
            let inserted: Vec<(MathKey, Value)> = map.as_map().unwrap().iter().map(|(k, v)| (math_key(k), v.clone())).collect();
            let c = LookupCase { map, inserted, probe: vals[1].clone() };
            let obs = observe_lookup(tera, &c);
            for (route, req, got) in &obs.routes {
                println!("route {route}: request: {req}\n  implementation: {got}\n  model: {}", model_one(env, req));
            }
            println!("oracle: {:?}", obs.oracle);
        }
        other => println!("unknown replay family `{other}`"),
    }
}

struct PairCase {
    a: Value,
    b: Value,
    req: String,
    imp: String,
}

fn main() {
    quiet_panics();
    let env = Env::from_env();
    let mut report = Report::new("C15");
    let tera = engine();
    if let Some(path) = replay_path() {
        replay(&env, &tera, &path);
        return;
    }
    let threads = std::thread::available_parallelism().map(|n| n.get()).unwrap_or(8).min(16);
    let mut rng = Rng::new(env.seed);

    let exe = driver::driver_path(&env.verif_dir, "drv_c15");
    let mut distinct: HashSet<u64> = HashSet::new();
    let mut distinct_capped = false;
    let mut driver_ok = true;
    let mut same_kind = 0u64;
    let mut total_pairs = 0u64;
    let rounds = std::env::var("VERIF_C15_ROUNDS").ok().and_then(|s| s.parse::<usize>().ok()).unwrap_or(env.budget(1, 30));
    let w = |s: &str| decode(s).unwrap();
    // ---------------------------------------------------------------- S. maps inserted through serde
    // Rust maps of every integer key width (HashMap and BTreeMap) serialized by the engine, then
    // probed with the mathematically equal integer in every other encoding
    {
        struct SCase {
            ty: &'static str,
            btree: bool,
            keys: Vec<(bool, u128)>,
            case: LookupCase,
        }
        let mut scases: Vec<SCase> = Vec::new();
        for ty in SERDE_KEY_TYPES {
            for btree in [false, true] {
                let lattice = serde_key_lattice(ty, &mut rng);
                let mut sets: Vec<Vec<(bool, u128)>> = vec![lattice.clone()];
                for _ in 0..3 {
                    let n = 1 + rng.below(4);
                    sets.push((0..n).map(|_| *rng.pick(&lattice)).collect());
                }
                for keys in sets {
                    let Some((map, inserted)) = serde_map(ty, btree, &keys) else { continue };
                    report.count(&format!("serde.map.{ty}"));
                    for p in gen_probes(&mut rng, &inserted) {
                        scases.push(SCase { ty, btree, keys: keys.clone(), case: LookupCase { map: map.clone(), inserted: inserted.clone(), probe: p } });
                    }
                }
            }
        }
        let sobs: Vec<LookupObs> = scases.iter().map(|c| observe_lookup(&tera, &c.case)).collect();
        let mut sreqs: Vec<String> = Vec::new();
        let mut sidx: Vec<(usize, usize)> = Vec::new();
        let mut reported = 0;
        for (i, o) in sobs.iter().enumerate() {
            report.oracle_checks += 1;
            let c = &scases[i];
            // what the engine stored must also be what was inserted, entry by entry
            let stored = c.case.map.as_map().map(|m| m.len()).unwrap_or(0);
            let mut d = o.oracle.clone();
            if d.is_none() && stored != c.case.inserted.len() {
                d = Some(format!("{} keys inserted, the serialized map has {stored} entries", c.case.inserted.len()));
            }
            report.count(&format!("serde.probe.{}", if !is_key_kind(&c.case.probe) { "notkey" } else if expected_entry(&c.case.inserted, &c.case.probe).is_some() { "hit" } else { "miss" }));
            if let Some(d) = d {
                report.oracle_failures += 1;
                report.count(&format!("serde.fail.{}", c.ty));
                if reported < 3 {
                    reported += 1;
                    let keys: Vec<String> = c.keys.iter().map(|(n, m)| format!("{}{m}", if *n && *m != 0 { "-" } else { "" })).collect();
                    report.violation(
                        "property",
                        format!("{}<{}, String> with keys {keys:?} put in the context through serde, probed with {} ({}): {d}", if c.btree { "BTreeMap" } else { "HashMap" }, c.ty, c.case.probe, c.case.probe.name()),
                        serde_json::json!({"family": "serde_lookup", "key_type": c.ty, "btree": c.btree, "keys": keys, "probe": encode(&c.case.probe),
                            "serialized_map": encode(&c.case.map), "detail": {"oracle": d}}),
                    );
                }
            }
            for (r, (_, req, _)) in o.routes.iter().enumerate() {
                sreqs.push(req.clone());
                sidx.push((i, r));
            }
        }
        let smodel = if driver_ok { driver::run_batch_parallel(&exe, &sreqs, threads).unwrap_or_default() } else { Vec::new() };
        for (n, (i, r)) in sidx.iter().enumerate() {
            let (route, req, got) = &sobs[*i].routes[*r];
            report.evaluations += 1;
            note_distinct(&mut distinct, &mut distinct_capped, &format!("serde {} {} {req}", scases[*i].ty, scases[*i].btree));
            if !smodel.is_empty() {
                report.model_comparisons += 1;
                let m_ans = if (route == "attr" || route == "getf") && smodel[n] == "some U" { "none" } else { smodel[n].as_str() };
                if m_ans != *got {
                    report.model_disagreements += 1;
                    if reported < 3 && sobs[*i].oracle.is_none() {
                        reported += 1;
                        report.violation(
                            "model-mismatch",
                            format!("model `{}` vs implementation `{got}` on `{req}`", smodel[n]),
                            serde_json::json!({"family": "lookup", "values": [encode(&scases[*i].case.map), encode(&scases[*i].case.probe)], "implementation": got,
                                "detail": {"stage": format!("correspondence:lookup:{route}"), "model": smodel[n]}}),
                        );
                    }
                }
            }
        }
        report.count_n("serde.lookup_cases", scases.len() as u64);
    }

    // ---------------------------------------------------------------- P. string provenance
    // the same text obtained in every way a template can obtain it must be one value for ==,
    // the order, `in`, unique and map lookup (the representation only exists inside the engine)
    {
        let mut all: Vec<Vec<(&'static str, Value)>> = Vec::new();
        for ti in 0..PROV_TEXTS.len() {
            let (vals, skipped) = provenance_values(&tera, ti);
            report.count_n("provenance.ways_available", vals.len() as u64);
            for (l, why) in &skipped {
                report.count(&format!("provenance.way_skipped.{l}"));
                if ti == 1 {
                    report.notes.push(format!("provenance way `{l}` not usable: {why}"));
                }
            }
            all.push(vals);
        }
        let mut prov_reqs: Vec<String> = Vec::new();
        let mut prov_imp: Vec<String> = Vec::new();
        let mut prov_id: Vec<(usize, usize, usize)> = Vec::new();
        let mut reported = 0;
        for (ti, vals) in all.iter().enumerate() {
            for (i, (la, a)) in vals.iter().enumerate() {
                for (jx, (lb, b)) in vals.iter().enumerate() {
                    report.evaluations += 1;
                    report.oracle_checks += 1;
                    let req = format!("cmp {} {}", encode(a), encode(b));
                    note_distinct(&mut distinct, &mut distinct_capped, &format!("prov {ti} {la} {lb}"));
                    prov_imp.push(cmp3_str(&cmp3(a, b)));
                    prov_reqs.push(req);
                    prov_id.push((ti, i, jx));
                    if let Some(d) = same_text_laws(&tera, a, b).or_else(|| pair_laws(a, b)) {
                        report.oracle_failures += 1;
                        report.count(&format!("provenance.fail.{la}.{lb}"));
                        if reported < 3 {
                            reported += 1;
                            report.violation(
                                "property",
                                format!("the text {:?} obtained by `{la}` and the same text obtained by `{lb}`: {d}", PROV_TEXTS[ti]),
                                serde_json::json!({"family": "provenance", "text_index": ti, "text": PROV_TEXTS[ti], "a": la, "b": lb,
                                    "a_template": PROV_WAYS.iter().find(|w| w.0 == *la).map(|w| w.1), "b_template": PROV_WAYS.iter().find(|w| w.0 == *lb).map(|w| w.1),
                                    "detail": {"oracle": d}}),
                            );
                        }
                    }
                }
            }
        }
        // different texts stay different, in every provenance
        for ti in 0..all.len() {
            let tj = (ti + 1) % all.len();
            for (la, a) in all[ti].iter() {
                for (lb, b) in all[tj].iter().step_by(3) {
                    report.evaluations += 1;
                    report.oracle_checks += 1;
                    prov_imp.push(cmp3_str(&cmp3(a, b)));
                    prov_reqs.push(format!("cmp {} {}", encode(a), encode(b)));
                    prov_id.push((ti, usize::MAX, usize::MAX));
                    if let Some(d) = pair_laws(a, b) {
                        report.oracle_failures += 1;
                        if reported < 3 {
                            reported += 1;
                            report.violation(
                                "property",
                                format!("texts {:?} (`{la}`) and {:?} (`{lb}`): {d}", PROV_TEXTS[ti], PROV_TEXTS[tj]),
                                serde_json::json!({"family": "pair", "values": [encode(a), encode(b)], "detail": {"oracle": d, "note": "values came from templates (provenance family)"}}),
                            );
                        }
                    }
                }
            }
        }
        report.count_n("provenance.pairs", prov_reqs.len() as u64);
        if driver_ok {
            if let Ok(pm) = driver::run_batch_parallel(&exe, &prov_reqs, threads) {
                for (n, m) in pm.iter().enumerate() {
                    report.model_comparisons += 1;
                    if *m != prov_imp[n] {
                        report.model_disagreements += 1;
                        if reported < 3 {
                            reported += 1;
                            let (ti, i, jx) = prov_id[n];
                            let (la, lb) = if i != usize::MAX { (all[ti][i].0, all[ti][jx].0) } else { ("?", "?") };
                            report.violation(
                                "model-mismatch",
                                format!("model `{m}` vs implementation `{}` on `{}` (provenance {la} / {lb})", prov_imp[n], prov_reqs[n]),
                                serde_json::json!({"family": "provenance", "text_index": ti, "a": la, "b": lb, "implementation": prov_imp[n],
                                    "detail": {"stage": "correspondence:cmp:provenance", "model": m}}),
                            );
                        }
                    }
                }
            }
        }
    }

    // ---------------------------------------------------------------- B. keys
    let keys = key_lattice(&mut rng, env.budget(4, 24));
    report.count_n("key.lattice", keys.len() as u64);
    let mut key_cases: Vec<(usize, usize, String, String, Option<String>)> = Vec::new();
    for (i, a) in keys.iter().enumerate() {
        for (j, b) in keys.iter().enumerate() {
            key_cases.push((i, j, format!("key {} {}", key_token(a), key_token(b)), key_pair_impl(a, b), key_pair_laws(a, b)));
        }
    }
    let kreqs: Vec<String> = key_cases.iter().map(|c| c.2.clone()).collect();
    let kmodel = if driver_ok { driver::run_batch_parallel(&exe, &kreqs, threads).unwrap_or_default() } else { Vec::new() };
    let mut key_reported = 0;
    for (n, (i, j, req, imp, law)) in key_cases.iter().enumerate() {
        report.evaluations += 1;
        report.oracle_checks += 1;
        note_distinct(&mut distinct, &mut distinct_capped, req);
        report.count(&format!("key.cmp.{}", imp.split(' ').nth(1).unwrap_or("?")));
        if let Some(d) = law {
            report.oracle_failures += 1;
            if key_reported < 3 {
                key_reported += 1;
                report.violation(
                    "property",
                    format!("keys {:?} and {:?}: {d}", keys[*i], keys[*j]),
                    serde_json::json!({"family": "key", "ka": key_token(&keys[*i]), "kb": key_token(&keys[*j]), "implementation": imp, "detail": {"oracle": d}}),
                );
            }
        }
        if !kmodel.is_empty() {
            report.model_comparisons += 1;
            if kmodel[n] != *imp {
                report.model_disagreements += 1;
                if key_reported < 3 && law.is_none() {
                    key_reported += 1;
                    report.violation(
                        "model-mismatch",
                        format!("model `{}` vs implementation `{imp}` on `{req}`", kmodel[n]),
                        serde_json::json!({"family": "key", "ka": key_token(&keys[*i]), "kb": key_token(&keys[*j]), "implementation": imp,
                            "detail": {"stage": "correspondence:key", "model": kmodel[n]}}),
                    );
                }
            }
        }
    }
    if let Some(c) = key_cases.get(key_cases.len() / 2) {
        report.sample(serde_json::json!({"request": c.2, "implementation": c.3, "model": kmodel.get(key_cases.len() / 2)}));
    }
    // key triples: transitivity of <= and ==
    let n_kt = env.budget(300_000, 5_000_000);
    let mut kt_fail = 0u64;
    for _ in 0..n_kt {
        let (a, b, c) = (rng.pick(&keys), rng.pick(&keys), rng.pick(&keys));
        let bad = (a == b && b == c && a != c) || (le(a.cmp(b)) && le(b.cmp(c)) && !le(a.cmp(c))) || (a == b && a.cmp(c) != b.cmp(c));
        if bad {
            kt_fail += 1;
            if kt_fail <= 2 {
                report.violation(
                    "property",
                    format!("key order/equality not transitive on {a:?}, {b:?}, {c:?}"),
                    serde_json::json!({"family": "key", "ka": key_token(a), "kb": key_token(b), "kc": key_token(c), "detail": {"oracle": "transitivity"}}),
                );
            }
        }
    }
    report.oracle_checks += n_kt as u64;
    report.oracle_failures += kt_fail;
    report.count_n("key.triples", n_kt as u64);

    for round in 0..rounds {
    let _ = round;
    // ---------------------------------------------------------------- A. pairs and triples
    let n_pairs = 400_000;
    let n_triples = 200_000;
    let mut pairs: Vec<(Value, Value)> = Vec::with_capacity(n_pairs + 3 * n_triples);
    for _ in 0..n_pairs {
        let a = gen_value(&mut rng, 3);
        let b = if rng.chance(3, 5) { mutate(&mut rng, &a) } else { gen_value(&mut rng, 3) };
        if rng.chance(1, 2) { pairs.push((a, b)) } else { pairs.push((b, a)) }
    }
    let mut triples: Vec<(Value, Value, Value)> = Vec::with_capacity(n_triples);
    for _ in 0..n_triples {
        let a = gen_value(&mut rng, 2);
        let b = if rng.chance(2, 3) { mutate(&mut rng, &a) } else { gen_value(&mut rng, 2) };
        let c = match rng.below(4) {
            0 => mutate(&mut rng, &a),
            1 | 2 => mutate(&mut rng, &b),
            _ => gen_value(&mut rng, 2),
        };
        let mut t = [a, b, c];
        // random order so that every arrangement of a chain is seen
        for i in (1..3).rev() {
            t.swap(i, rng.below(i + 1));
        }
        let [a, b, c] = t;
        triples.push((a, b, c));
    }
    // the F7 witnesses (fixed): must hold now
    triples.push((w("A2 u64:1 s:78"), w("A2 u64:1 u64:2"), w("A2 u64:1 u64:3")));
    triples.push((w("M1 s:61 u64:1"), w("M1 s:61 u64:2"), w("M1 s:61 u64:3")));
    for (a, b, c) in &triples {
        pairs.push((a.clone(), b.clone()));
        pairs.push((b.clone(), c.clone()));
        pairs.push((a.clone(), c.clone()));
    }

    let chunk = pairs.len().div_ceil(threads).max(1);
    let pair_results: Vec<(PairCase, Option<String>)> = std::thread::scope(|s| {
        let hs: Vec<_> = pairs
            .chunks(chunk)
            .map(|ps| {
                s.spawn(move || {
                    ps.iter()
                        .map(|(a, b)| {
                            let req = format!("cmp {} {}", encode(a), encode(b));
                            let imp = cmp3_str(&cmp3(a, b));
                            let law = pair_laws(a, b);
                            (PairCase { a: a.clone(), b: b.clone(), req, imp }, law)
                        })
                        .collect::<Vec<_>>()
                })
            })
            .collect();
        hs.into_iter().flat_map(|h| h.join().unwrap()).collect()
    });
    let tchunk = triples.len().div_ceil(threads).max(1);
    let triple_fails: Vec<(usize, String)> = std::thread::scope(|s| {
        let hs: Vec<_> = triples
            .chunks(tchunk)
            .enumerate()
            .map(|(ci, ts)| {
                s.spawn(move || {
                    let mut f = Vec::new();
                    for (i, (a, b, c)) in ts.iter().enumerate() {
                        if let Some(d) = triple_laws(a, b, c) {
                            f.push((ci * tchunk + i, d));
                        }
                    }
                    f
                })
            })
            .collect();
        hs.into_iter().flat_map(|h| h.join().unwrap()).collect()
    });

    let reqs: Vec<String> = pair_results.iter().map(|(c, _)| c.req.clone()).collect();
    let model = match driver::run_batch_parallel(&exe, &reqs, threads) {
        Ok(m) => m,
        Err(e) => {
            if driver_ok {
                report.notes.push(format!("model driver unavailable: {e}"));
                report.violation("model-mismatch", format!("model driver could not be run: {e}"), serde_json::json!({"detail": {"stage": "driver"}, "error": e}));
            }
            driver_ok = false;
            Vec::new()
        }
    };
    let mut pair_mismatch: Vec<usize> = Vec::new();
    let mut pair_lawfail: Vec<usize> = Vec::new();
    for (i, (c, law)) in pair_results.iter().enumerate() {
        report.evaluations += 1;
        report.oracle_checks += 1;
        note_distinct(&mut distinct, &mut distinct_capped, &c.req);
        let (ka, kb) = (kind_class(&c.a), kind_class(&c.b));
        if ka == kb {
            same_kind += 1;
        }
        let outcome = c.imp.split(' ').next().unwrap_or("?");
        report.count(&format!("pair.cmp.{outcome}"));
        let pc = c.imp.split(' ').nth(1).unwrap_or("?");
        report.count(&format!("pair.partial_cmp.{pc}"));
        report.count(&format!("pair.kinds.{}", if ka == kb { format!("same:{ka}") } else { "mixed".to_string() }));
        if law.is_some() {
            report.oracle_failures += 1;
            pair_lawfail.push(i);
        }
        if driver_ok {
            report.model_comparisons += 1;
            if model[i] != c.imp {
                report.model_disagreements += 1;
                pair_mismatch.push(i);
            }
        }
    }
    total_pairs += pair_results.len() as u64;
    report.count_n("pair.total", pair_results.len() as u64);
    report.oracle_checks += triples.len() as u64;
    report.oracle_failures += triple_fails.len() as u64;
    report.count_n("triple.total", triples.len() as u64);

    for &i in pair_lawfail.iter().take(3) {
        let (c, _) = &pair_results[i];
        let mut vals = vec![c.a.clone(), c.b.clone()];
        shrink(&mut vals, &|v: &[Value]| pair_laws(&v[0], &v[1]).is_some());
        let d = pair_laws(&vals[0], &vals[1]).unwrap_or_default();
        report.violation(
            "property",
            format!("law broken on a = {}, b = {}: {d}", vals[0], vals[1]),
            serde_json::json!({"family": "pair", "values": [encode(&vals[0]), encode(&vals[1])],
                "implementation": cmp3_str(&cmp3(&vals[0], &vals[1])), "detail": {"oracle": d}}),
        );
    }
    for (i, _) in triple_fails.iter().take(3) {
        let (a, b, c) = &triples[*i];
        let mut vals = vec![a.clone(), b.clone(), c.clone()];
        shrink(&mut vals, &|v: &[Value]| triple_laws(&v[0], &v[1], &v[2]).is_some());
        let d = triple_laws(&vals[0], &vals[1], &vals[2]).unwrap_or_default();
        report.violation(
            "property",
            format!("law broken on a = {}, b = {}, c = {}: {d}", vals[0], vals[1], vals[2]),
            serde_json::json!({"family": "triple", "values": [encode(&vals[0]), encode(&vals[1]), encode(&vals[2])], "detail": {"oracle": d}}),
        );
    }
    if pair_lawfail.is_empty() && triple_fails.is_empty() {
        for &i in pair_mismatch.iter().take(3) {
            let (c, _) = &pair_results[i];
            // targeted burst: variants of the disagreeing pair through the direct laws
            let mut found = None;
            let mut brng = Rng::new(env.seed ^ (i as u64).wrapping_mul(0x9e37));
            for _ in 0..2000 {
                let a2 = mutate(&mut brng, &c.a);
                let b2 = mutate(&mut brng, &c.b);
                let c2 = mutate(&mut brng, &a2);
                if let Some(d) = pair_laws(&a2, &b2).or_else(|| triple_laws(&a2, &b2, &c2)).or_else(|| triple_laws(&c.a, &c.b, &c2)) {
                    found = Some((a2, b2, c2, d));
                    break;
                }
            }
            if let Some((a2, b2, c2, d)) = found {
                report.violation(
                    "property",
                    format!("law broken near a model disagreement: {d}"),
                    serde_json::json!({"family": "triple", "values": [encode(&a2), encode(&b2), encode(&c2)], "detail": {"oracle": d}}),
                );
            } else {
                report.violation(
                    "model-mismatch",
                    format!("model `{}` vs implementation `{}` on `{}`", model[i], c.imp, c.req),
                    serde_json::json!({"family": "pair", "values": [encode(&c.a), encode(&c.b)], "implementation": c.imp,
                        "detail": {"stage": "correspondence:cmp", "model": model[i]}}),
                );
            }
        }
    }
    for i in [0usize, pair_results.len() / 3, pair_results.len() / 2] {
        if let Some((c, _)) = pair_results.get(i) {
            report.sample(serde_json::json!({"request": c.req, "implementation": c.imp, "model": model.get(i)}));
        }
    }

    // template operators on a subsample: == != agree with eq; < <= > >= with partial_cmp (error when None)
    let step = if env.quick() { 8 } else { 16 };
    let sub: Vec<&(PairCase, Option<String>)> = pair_results.iter().step_by(step).filter(|(c, _)| !c.a.is_undefined() && !c.b.is_undefined()).collect();
    let tchunk2 = sub.len().div_ceil(threads).max(1);
    let tpl_fails: Vec<(String, String, String)> = std::thread::scope(|s| {
        let tera = &tera;
        let hs: Vec<_> = sub
            .chunks(tchunk2)
            .map(|cs| {
                s.spawn(move || {
                    let mut f = Vec::new();
                    for (c, _) in cs {
                        let Ok((_, p, e)) = cmp3(&c.a, &c.b) else { continue };
                        for (op, want) in [
                            ("eq", Some(e)),
                            ("ne", Some(!e)),
                            ("lt", p.map(|o| o == Ordering::Less)),
                            ("le", p.map(|o| o != Ordering::Greater)),
                            ("gt", p.map(|o| o == Ordering::Greater)),
                            ("ge", p.map(|o| o != Ordering::Less)),
                        ] {
                            let got = run_tpl(tera, op, &[("a", &c.a), ("b", &c.b)]);
                            let ok = match want {
                                Some(b) => got == format!("ok B{}", b as u8),
                                None => got.starts_with("err") && got.contains("Cannot compare"),
                            };
                            if !ok {
                                f.push((c.req.clone(), op.to_string(), got));
                            }
                        }
                    }
                    f
                })
            })
            .collect();
        hs.into_iter().flat_map(|h| h.join().unwrap()).collect()
    });
    report.evaluations += (sub.len() * 6) as u64;
    report.oracle_checks += (sub.len() * 6) as u64;
    report.oracle_failures += tpl_fails.len() as u64;
    report.count_n("template_operator_cases", (sub.len() * 6) as u64);
    for (req, op, got) in tpl_fails.iter().take(3) {
        let toks: Vec<&str> = req.splitn(2, ' ').collect();
        report.violation(
            "property",
            format!("template operator `{op}` answers `{got}`, which differs from the value traits on `{req}`"),
            serde_json::json!({"family": "pair", "values": split_two(toks[1]), "detail": {"oracle": format!("operator {op}: {got}")}}),
        );
    }

    // ---------------------------------------------------------------- sort / unique
    let n_arrays = 40_000;
    let mut arrays: Vec<Vec<Value>> = Vec::with_capacity(n_arrays);
    for _ in 0..n_arrays {
        let len = rng.below(13);
        let mode = rng.below(5);
        let mut xs: Vec<Value> = Vec::with_capacity(len);
        for i in 0..len {
            let v = match mode {
                0 => gen_int(&mut rng),
                1 => {
                    if rng.chance(1, 2) { gen_int(&mut rng) } else { gen_float(&mut rng) }
                }
                2 => gen_str(&mut rng),
                3 => {
                    // arrays / maps: sortable only when comparable
                    let n = rng.below(3);
                    Value::from((0..n).map(|_| Value::from(rng.range(0, 3))).collect::<Vec<_>>())
                }
                _ => gen_value(&mut rng, 2),
            };
            if i > 0 && rng.chance(1, 4) {
                let j = rng.below(xs.len());
                let dup = if rng.chance(1, 2) { xs[j].clone() } else { mutate(&mut rng, &xs[j]) };
                xs.push(dup);
            } else if rng.chance(1, 12) {
                xs.push(Value::none());
            } else {
                xs.push(v);
            }
        }
        arrays.push(xs);
    }
    arrays.push(vec![w("M1 s:61 u64:1"), w("M1 s:61 u64:2")]); // the F7 `unique` witness
    let achunk = arrays.len().div_ceil(threads).max(1);
    let arr_results: Vec<(usize, &'static str, String, Option<String>)> = std::thread::scope(|s| {
        let tera = &tera;
        let hs: Vec<_> = arrays
            .chunks(achunk)
            .enumerate()
            .map(|(ci, xs)| {
                s.spawn(move || {
                    let mut out = Vec::new();
                    for (i, x) in xs.iter().enumerate() {
                        let v = Value::from(x.clone());
                        let r = run_tpl(tera, "sort", &[("xs", &v)]);
                        let d = sort_contract(x, &r);
                        out.push((ci * achunk + i, "sort", r, d));
                        let r = run_tpl(tera, "unique", &[("xs", &v)]);
                        let d = unique_contract(x, &r);
                        out.push((ci * achunk + i, "unique", r, d));
                    }
                    out
                })
            })
            .collect();
        hs.into_iter().flat_map(|h| h.join().unwrap()).collect()
    });
    // `needle in array` / `needle in string` / `is containing`: membership by ==
    let in_cases: Vec<(Value, Value)> = arrays
        .iter()
        .step_by(4)
        .map(|xs| {
            let needle = if !xs.is_empty() && rng.chance(2, 3) {
                let j = rng.below(xs.len());
                mutate(&mut rng, &xs[j])
            } else {
                gen_scalar(&mut rng)
            };
            let container = if rng.chance(1, 8) { gen_str(&mut rng) } else { Value::from(xs.clone()) };
            (container, needle)
        })
        .filter(|(_, n)| !n.is_undefined())
        .collect();
    let in_obs: Vec<(String, String, String, String, Option<String>)> = in_cases
        .iter()
        .map(|(c, n)| {
            let got_in = canon_bool(&run_tpl(&tera, "in", &[("m", c), ("k", n)]));
            let got_ct = {
                let r = run_tpl(&tera, "containing", &[("m", c), ("k", n)]);
                if r.starts_with("err") && !r.contains("is not a container") { "err pat".to_string() } else { canon_bool(&r) }
            };
            let want = match c.kind() {
                ValueKind::Array => Some(c.as_array().unwrap().iter().any(|e| e == n)),
                ValueKind::String => n.as_str().filter(|_| n.kind() == ValueKind::String).map(|t| c.as_str().unwrap().contains(t)).or(Some(false)),
                _ => None,
            };
            let mut d = None;
            if let Some(w) = want {
                if got_in != format!("ok {}", w as u8) {
                    d = Some(format!("`k in c` answers `{got_in}` but membership by == is {w}"));
                }
                let str_nonstr = c.kind() == ValueKind::String && n.kind() != ValueKind::String;
                if !str_nonstr && got_ct != format!("ok {}", w as u8) {
                    d = Some(format!("`c is containing(k)` answers `{got_ct}` but membership by == is {w}"));
                }
            }
            (format!("in {} {}", encode(c), encode(n)), got_in, format!("containing {} {}", encode(c), encode(n)), got_ct, d)
        })
        .collect();
    let mut in_reqs: Vec<String> = Vec::new();
    for o in &in_obs {
        in_reqs.push(o.0.clone());
        in_reqs.push(o.2.clone());
    }
    let in_model = if driver_ok { driver::run_batch_parallel(&exe, &in_reqs, threads).unwrap_or_default() } else { Vec::new() };
    let mut in_reported = 0;
    for (i, o) in in_obs.iter().enumerate() {
        report.evaluations += 2;
        report.oracle_checks += 1;
        note_distinct(&mut distinct, &mut distinct_capped, &o.0);
        report.count(&format!("in_array_or_string.{}", o.1));
        let (c, n) = &in_cases[i];
        if let Some(d) = &o.4 {
            report.oracle_failures += 1;
            if in_reported < 2 {
                in_reported += 1;
                report.violation(
                    "property",
                    format!("membership of {n} in {c}: {d}"),
                    serde_json::json!({"family": "lookup", "values": [encode(c), encode(n)], "detail": {"oracle": d}}),
                );
            }
        }
        if !in_model.is_empty() {
            report.model_comparisons += 2;
            for (req, got, m) in [(&o.0, &o.1, &in_model[2 * i]), (&o.2, &o.3, &in_model[2 * i + 1])] {
                if got != m {
                    report.model_disagreements += 1;
                    if in_reported < 2 && o.4.is_none() {
                        in_reported += 1;
                        report.violation(
                            "model-mismatch",
                            format!("model `{m}` vs implementation `{got}` on `{req}`"),
                            serde_json::json!({"family": "lookup", "values": [encode(c), encode(n)], "implementation": got,
                                "detail": {"stage": "correspondence:membership", "model": m}}),
                        );
                    }
                }
            }
        }
    }

    let mut reported = 0;
    for (i, fam, res, d) in &arr_results {
        report.evaluations += 1;
        report.oracle_checks += 1;
        note_distinct(&mut distinct, &mut distinct_capped, &format!("{fam} {}", encode(&Value::from(arrays[*i].clone()))));
        report.count(&format!("{fam}.{}", res.split(' ').next().unwrap_or("?")));
        if let Some(_) = d {
            report.oracle_failures += 1;
            if reported < 3 {
                reported += 1;
                let mut vals = arrays[*i].clone();
                let f = *fam;
                let tera_ref = &tera;
                let fails = |xs: &[Value]| {
                    let r = run_tpl(tera_ref, f, &[("xs", &Value::from(xs.to_vec()))]);
                    if f == "sort" { sort_contract(xs, &r).is_some() } else { unique_contract(xs, &r).is_some() }
                };
                // delete elements first, then simplify them
                let mut k = 0;
                while k < vals.len() {
                    let mut t = vals.clone();
                    t.remove(k);
                    if fails(&t) { vals = t } else { k += 1 }
                }
                shrink(&mut vals, &fails);
                let r = run_tpl(&tera, fam, &[("xs", &Value::from(vals.clone()))]);
                let d = if *fam == "sort" { sort_contract(&vals, &r) } else { unique_contract(&vals, &r) }.unwrap_or_default();
                report.violation(
                    "property",
                    format!("`{{{{ {} | {fam} }}}}` gives `{r}`: {d}", Value::from(vals.clone())),
                    serde_json::json!({"family": fam, "values": vals.iter().map(encode).collect::<Vec<_>>(), "implementation": r, "detail": {"oracle": d}}),
                );
            }
        }
    }

    // ---------------------------------------------------------------- C. lookups
    let n_maps = 4_000;
    let max_size = if round % 2 == 0 { 16 } else { env.budget(16, 64) };
    let mut lcases: Vec<LookupCase> = Vec::new();
    for n in 0..n_maps {
        let size = if n < 3 * (max_size + 1) { n % (max_size + 1) } else if rng.chance(1, 2) { 4 + rng.below(6) } else { rng.below(max_size + 1) };
        let (map, inserted) = gen_lookup_map(&mut rng, size);
        let real = map.as_map().unwrap().len();
        report.count(&format!(
            "lookup.map_size.{}",
            match real {
                0 => "0",
                1..=5 => "1-5",
                6 => "6",
                7 => "7",
                8..=16 => "8-16",
                _ => ">16",
            }
        ));
        for p in gen_probes(&mut rng, &inserted) {
            lcases.push(LookupCase { map: map.clone(), inserted: inserted.clone(), probe: p });
        }
    }
    let lchunk = lcases.len().div_ceil(threads).max(1);
    let lobs: Vec<LookupObs> = std::thread::scope(|s| {
        let tera = &tera;
        let hs: Vec<_> = lcases.chunks(lchunk).map(|cs| s.spawn(move || cs.iter().map(|c| observe_lookup(tera, c)).collect::<Vec<_>>())).collect();
        hs.into_iter().flat_map(|h| h.join().unwrap()).collect()
    });
    let mut lreqs: Vec<String> = Vec::new();
    let mut lidx: Vec<(usize, usize)> = Vec::new();
    for (i, o) in lobs.iter().enumerate() {
        for (r, (_, req, _)) in o.routes.iter().enumerate() {
            lreqs.push(req.clone());
            lidx.push((i, r));
        }
    }
    let lmodel = if driver_ok { driver::run_batch_parallel(&exe, &lreqs, threads).unwrap_or_default() } else { Vec::new() };
    let mut l_reported = 0;
    for (i, o) in lobs.iter().enumerate() {
        report.oracle_checks += 1;
        let c = &lcases[i];
        report.count(&format!("lookup.probe.{}", if !is_key_kind(&c.probe) { "notkey" } else if expected_entry(&c.inserted, &c.probe).is_some() { "hit" } else { "miss" }));
        if let Some(d) = &o.oracle {
            report.oracle_failures += 1;
            if l_reported < 3 {
                l_reported += 1;
                report.violation(
                    "property",
                    format!("lookup of {} ({}) in {}: {d}", c.probe, c.probe.name(), c.map),
                    serde_json::json!({"family": "lookup", "values": [encode(&c.map), encode(&c.probe)], "detail": {"oracle": d}}),
                );
            }
        }
    }
    for (n, (i, r)) in lidx.iter().enumerate() {
        let (route, req, got) = &lobs[*i].routes[*r];
        report.evaluations += 1;
        note_distinct(&mut distinct, &mut distinct_capped, req);
        report.count(&format!("lookup.route.{route}.{}", got.split(' ').next().unwrap_or("?")));
        if !lmodel.is_empty() {
            report.model_comparisons += 1;
            // a stored `undefined` is indistinguishable from an absent entry at the template level
            let m_ans = if (route == "attr" || route == "getf") && lmodel[n] == "some U" { "none" } else { lmodel[n].as_str() };
            if m_ans != *got {
                report.model_disagreements += 1;
                if l_reported < 3 && lobs[*i].oracle.is_none() {
                    l_reported += 1;
                    let c = &lcases[*i];
                    report.violation(
                        "model-mismatch",
                        format!("model `{}` vs implementation `{got}` on `{req}`", lmodel[n]),
                        serde_json::json!({"family": "lookup", "values": [encode(&c.map), encode(&c.probe)], "implementation": got,
                            "detail": {"stage": format!("correspondence:lookup:{route}"), "model": lmodel[n]}}),
                    );
                }
            }
        }
    }
    if let Some((i, r)) = lidx.get(lidx.len() / 2) {
        let (_, req, got) = &lobs[*i].routes[*r];
        report.sample(serde_json::json!({"request": req, "implementation": got, "model": lmodel.get(lidx.len() / 2)}));
    }

    }
    report.distinct_nontrivial = distinct.len() as u64;
    report.count_n("pair.same_kind", same_kind);
    report.count_n("rounds", rounds as u64);
    if distinct_capped {
        report.notes.push("distinct_nontrivial is a lower bound: the set of request hashes was capped at 20 M entries".into());
    }
    report.rule = "distinct request = (operation, operands with their exact encoding); every request evaluates the code under study (Value ==/partial_cmp/cmp, Key ==/cmp/hash, map lookups, sort/unique) — none is rejected before reaching it. Pairs: 60 % are built by mutating one operand into a related value (other integer width / float of the same value / other safe mark / one leaf changed / entry order changed) so that Equal and near-Equal outcomes are frequent; triples are chains of such mutations in random order".into();
    report.notes.push(format!("same-kind share of pairs: {:.1} %", 100.0 * same_kind as f64 / total_pairs.max(1) as f64));
    report.write(&out_path());
}

fn note_distinct(set: &mut HashSet<u64>, capped: &mut bool, req: &str) {
    if set.len() >= 20_000_000 {
        *capped = true;
        return;
    }
    let mut h = std::collections::hash_map::DefaultHasher::new();
    req.hash(&mut h);
    set.insert(h.finish());
}

/// split "a-wire b-wire" (two wire values back to back) into the two encodings
fn split_two(s: &str) -> Vec<String> {
    let toks: Vec<&str> = s.split_ascii_whitespace().collect();
    fn skip(toks: &[&str], pos: usize) -> usize {
        let t = toks[pos];
        if let Some(d) = t.strip_prefix('A') {
            if let Ok(n) = d.parse::<usize>() {
                let mut p = pos + 1;
                for _ in 0..n {
                    p = skip(toks, p);
                }
                return p;
            }
        }
        if let Some(d) = t.strip_prefix('M') {
            if let Ok(n) = d.parse::<usize>() {
                let mut p = pos + 1;
                for _ in 0..2 * n {
                    p = skip(toks, p);
                }
                return p;
            }
        }
        pos + 1
    }
    let mid = skip(&toks, 0);
    vec![toks[..mid].join(" "), toks[mid..].join(" ")]
}
