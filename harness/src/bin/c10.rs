//! C10 — template registration is atomic and independent of history.
//!
//! A *history* = fallback prefixes + a list of steps (`add_raw_templates` with a single template or
//! a batch, `autoescape_on`).  Every history is applied step by step to one real `Tera` instance and
//! after EVERY step the instance is observed (everything `finalize_templates` derives incl. chunk
//! ids and autoescape flags, the template names, `render` of every template, `render_block` of every
//! block of every lineage, `render_component` / `get_component_definition` of every component) and
//!  * compared with the Lean model (`drv_c10`, one request per history)        — correspondence
//!  * compared with a FRESH real instance that is given the current set of (name, source) pairs in
//!    one batch (sorted; in the thorough tier also in reverse order)          — the property itself
//!  * when the call failed: compared with the observation before the call     — the property itself
//!  * after `autoescape_on`: only the flags may change, to "name ends with a suffix" — the property
//!  * every call whose items all parse: a fresh instance given the set the call leads to answers
//!    with the same class (acceptance depends on the resulting set only)      — the property itself
//! The generator builds mostly valid steps (inheritance, blocks with super(), nested blocks,
//! includes, components, prefix shadowing, replacements) and deliberately every invalid kind, often
//! at the end of a batch that first inserts valid templates and replaces an existing one (that is
//! what exercises the undo loop).  A small alphabet of single-template adds is enumerated
//! exhaustively for short histories.
use std::cell::RefCell;
use std::collections::{BTreeMap, BTreeSet, HashSet};
use std::hash::{Hash, Hasher};
use std::panic::AssertUnwindSafe;
use std::time::Instant;
use tera::{Context, Tera};
use tera_verif_harness::report::{out_path, replay_path, Report};
use tera_verif_harness::rng::Rng;
use tera_verif_harness::tplgen::{self, canon_err, engine, err_class, mark, real_derived, BlockS, CompS, RealDerived, TplS};
use tera_verif_harness::{catch, driver, quiet_panics, Env};

#[derive(Clone, Debug, PartialEq, Eq, Hash, serde::Serialize, serde::Deserialize)]
enum Step {
    /// `add_raw_templates` with the `(name, source())` pairs in this order
    Add(Vec<TplS>),
    /// `autoescape_on`
    Escape(Vec<String>),
}

#[derive(Clone, Debug, serde::Serialize, serde::Deserialize)]
struct History {
    prefixes: Vec<String>,
    /// HashMap iteration orders the model uses (0 = sorted, 1 = reverse, 2 = rotated)
    perm2: u64,
    perm3: u64,
    steps: Vec<Step>,
    /// the instance (and every fresh comparison instance) uses CUSTOM delimiters, set before any
    /// template is added: `[% %]`, `{$ $}`, `[# #]`; every source is written in them
    #[serde(default)]
    custom_delims: bool,
}

thread_local! {
    /// delimiters of the history being run on this thread
    static CUSTOM_DELIMS: std::cell::Cell<bool> = const { std::cell::Cell::new(false) };
}

/// an engine as this history configures it: prefixes, then (maybe) custom delimiters
fn mk_engine(prefixes: &[String]) -> Tera {
    let mut t = engine(prefixes);
    if CUSTOM_DELIMS.with(|c| c.get()) {
        t.set_delimiters(tera::Delimiters {
            block_start: "[%".into(),
            block_end: "%]".into(),
            variable_start: "{$".into(),
            variable_end: "$}".into(),
            comment_start: "[#".into(),
            comment_end: "#]".into(),
        })
        .expect("custom delimiters on an empty instance");
    }
    t
}

/// the source of a summary in the delimiters of this history (same length in both spellings)
fn src_of(t: &TplS) -> String {
    let s = t.source();
    if CUSTOM_DELIMS.with(|c| c.get()) {
        s.replace("{%", "[%").replace("%}", "%]").replace("{{", "{$").replace("}}", "$}")
    } else {
        s
    }
}

/// an include cycle or an extends cycle among the resolved edges of a set (the two graphs the engine
/// must check, each on its own), from the summaries alone
fn graph_cycle(prefixes: &[String], set: &Set) -> Option<&'static str> {
    let names = names_of(set);
    let idx = |n: &str| names.iter().position(|x| x == n);
    for kind in ["include", "extends"] {
        let adj: Vec<Vec<usize>> = names
            .iter()
            .map(|n| {
                let t = &set[n];
                let targets: Vec<String> = if kind == "include" { t.all_includes() } else { t.parent.iter().cloned().collect() };
                targets.iter().filter_map(|x| tplgen::resolve(&names, prefixes, x).and_then(idx)).collect()
            })
            .collect();
        // colours: 0 white, 1 on the stack, 2 done
        let mut colour = vec![0u8; names.len()];
        fn dfs(v: usize, adj: &[Vec<usize>], colour: &mut [u8]) -> bool {
            colour[v] = 1;
            for &w in &adj[v] {
                if colour[w] == 1 || (colour[w] == 0 && dfs(w, adj, colour)) {
                    return true;
                }
            }
            colour[v] = 2;
            false
        }
        for v in 0..names.len() {
            if colour[v] == 0 && dfs(v, &adj, &mut colour) {
                return Some(if kind == "include" { "include" } else { "extends" });
            }
        }
    }
    None
}

type Set = BTreeMap<String, TplS>;

/// Worker processes keep, in a small file, the calls they are about to make on the engine: when a
/// worker aborts (stack overflow) or hangs, the parent reads the culprit history from it.
static ATTEMPT_FILE: std::sync::OnceLock<std::path::PathBuf> = std::sync::OnceLock::new();

fn note_attempt(prefixes: &[String], steps: &[Step]) {
    if let Some(path) = ATTEMPT_FILE.get() {
        let h = History { prefixes: prefixes.to_vec(), perm2: 0, perm3: 0, steps: steps.to_vec(), custom_delims: CUSTOM_DELIMS.with(|c| c.get()) };
        let _ = std::fs::write(path, serde_json::to_string(&h).unwrap_or_default());
    }
}

const NAMES: [&str; 8] = ["a.html", "b", "c", "th/c", "alt/c", "d.xml", "e", "th/e"];
const TOP_BLOCKS: [&str; 2] = ["x", "y"];
/// the only block name that is ever nested; blocks of this name never contain blocks, and `x`/`y`
/// are never nested (keeps the known shape F5a out: a block re-opening an enclosing block)
const NESTED: &str = "n";
const SHARED_COMPS: [&str; 2] = ["K", "L"];
const DEFAULT_SUFFIXES: [&str; 3] = [".html", ".htm", ".xml"];
const INVALID_KINDS: [&str; 11] = [
    "syntax",
    "missing_parent",
    "extends_cycle",
    "include_cycle",
    "bad_filter",
    "bad_test",
    "bad_function",
    "unknown_comp",
    "unknown_include",
    "dup_comp",
    "orphan_block",
];

fn names_of(set: &Set) -> Vec<String> {
    set.keys().cloned().collect()
}

/// `get_template_priority`
fn priority(prefixes: &[String], name: &str) -> usize {
    for (i, p) in prefixes.iter().enumerate() {
        if name.starts_with(p.as_str()) {
            return i + 1;
        }
    }
    0
}

/// `start` and its resolved ancestors (nearest first); stops at a dangling target or a repeat
fn chain(set: &Set, prefixes: &[String], start: &str) -> Vec<String> {
    let names = names_of(set);
    let mut out = vec![start.to_string()];
    let mut cur = start.to_string();
    loop {
        let Some(t) = set.get(&cur) else { break };
        let Some(p) = &t.parent else { break };
        let Some(r) = tplgen::resolve(&names, prefixes, p) else { break };
        if out.iter().any(|x| x == r) {
            break;
        }
        out.push(r.to_string());
        cur = r.to_string();
    }
    out
}

// ---------------------------------------------------------------- render-time call graphs

type Graph = BTreeMap<String, BTreeSet<String>>;

fn acyclic(g: &Graph) -> bool {
    // iterative three-colour DFS
    let mut colour: BTreeMap<&str, u8> = BTreeMap::new();
    for start in g.keys() {
        if colour.get(start.as_str()).copied().unwrap_or(0) != 0 {
            continue;
        }
        let mut stack: Vec<(&str, Vec<&str>)> = vec![(start.as_str(), g[start].iter().map(|s| s.as_str()).collect())];
        colour.insert(start.as_str(), 1);
        while let Some((node, todo)) = stack.last_mut() {
            match todo.pop() {
                None => {
                    colour.insert(node, 2);
                    stack.pop();
                }
                Some(next) => match colour.get(next).copied().unwrap_or(0) {
                    1 => return false,
                    2 => {}
                    _ => {
                        colour.insert(next, 1);
                        let succ: Vec<&str> = g.get(next).map(|s| s.iter().map(|x| x.as_str()).collect()).unwrap_or_default();
                        stack.push((next, succ));
                    }
                },
            }
        }
    }
    true
}

/// Everything rendering a template of `set` can reach: extends, include (also those written in
/// component bodies), component call → the includes of the bodies of that name.
fn summary_graph(prefixes: &[String], set: &Set) -> Graph {
    let names = names_of(set);
    let mut g = Graph::new();
    for t in set.values() {
        let node = format!("t:{}", t.name);
        let e = g.entry(node).or_default();
        if let Some(p) = &t.parent {
            if let Some(r) = tplgen::resolve(&names, prefixes, p) {
                e.insert(format!("t:{r}"));
            }
        }
        for i in t.all_includes() {
            if let Some(r) = tplgen::resolve(&names, prefixes, &i) {
                e.insert(format!("t:{r}"));
            }
        }
        for c in &t.comp_calls {
            e.insert(format!("k:{c}"));
        }
        for c in &t.comps {
            let e = g.entry(format!("k:{}", c.name)).or_default();
            for i in &c.includes {
                if let Some(r) = tplgen::resolve(&names, prefixes, i) {
                    e.insert(format!("t:{r}"));
                }
            }
        }
    }
    g
}

/// The same graph read off the REAL instance (what is stored now, stale or not): `extends` and the
/// derived `parents`, the include and component call tables, the component table and the listing
/// of the providing component body. Rendering happens only when this graph is acyclic.
fn real_graph(tera: &Tera, prefixes: &[String], derived: &RealDerived) -> Graph {
    let names: Vec<String> = derived.tpls.keys().cloned().collect();
    let mut g = Graph::new();
    for line in tera::verif_hooks::dump_derived(tera) {
        if !line.starts_with("tpl ") {
            continue;
        }
        let name = line.splitn(3, ' ').nth(1).unwrap_or("").trim_matches('"').to_string();
        let e = g.entry(format!("t:{name}")).or_default();
        if let Some(i) = line.find("extends=Some(\"") {
            let rest = &line[i + "extends=Some(\"".len()..];
            if let Some(j) = rest.find("\")") {
                if let Some(r) = tplgen::resolve(&names, prefixes, &rest[..j]) {
                    e.insert(format!("t:{r}"));
                }
            }
        }
    }
    for (n, t) in &derived.tpls {
        let e = g.entry(format!("t:{n}")).or_default();
        for p in &t.parents {
            e.insert(format!("t:{p}"));
        }
        for (kind, list) in tera::verif_hooks::call_tables(tera, n).unwrap_or_default() {
            for x in list {
                match kind.as_str() {
                    "include" => {
                        if let Some(r) = tplgen::resolve(&names, prefixes, &x) {
                            e.insert(format!("t:{r}"));
                        }
                    }
                    "component" => {
                        e.insert(format!("k:{x}"));
                    }
                    _ => {}
                }
            }
        }
    }
    for (c, (provider, _)) in &derived.comps {
        let e = g.entry(format!("k:{c}")).or_default();
        for (chunk, lines) in tera::verif_hooks::listing(tera, provider).unwrap_or_default() {
            if chunk != format!("component:{c}") {
                continue;
            }
            for l in lines {
                if let Some(rest) = l.strip_prefix("Include(\"") {
                    if let Some(j) = rest.find("\")") {
                        if let Some(r) = tplgen::resolve(&names, prefixes, &rest[..j]) {
                            e.insert(format!("t:{r}"));
                        }
                    }
                }
            }
        }
    }
    g
}

// ---------------------------------------------------------------- observations

#[derive(Clone, Debug, Default, PartialEq)]
struct Snap {
    derived: RealDerived,
    names: Vec<String>,
    /// the call graph of what is stored is acyclic, so everything was rendered
    rendered: bool,
    renders: Vec<(String, String)>,
}

fn outcome(r: Result<Result<String, tera::Error>, String>) -> String {
    match r {
        Ok(Ok(s)) => format!("ok:{s}"),
        Ok(Err(e)) => format!("err:{}", err_class(&canon_err(&e))),
        Err(_) => "panic".to_string(),
    }
}

fn snapshot(tera: &Tera, prefixes: &[String]) -> Snap {
    let derived = real_derived(tera);
    let mut names: Vec<String> = tera.get_template_names().map(|s| s.to_string()).collect();
    names.sort();
    let rendered = acyclic(&real_graph(tera, prefixes, &derived));
    let mut renders = Vec::new();
    // a hostile value: templates ending in `{{ hv }}` show whether they are autoescaped
    let mut ctx = Context::new();
    ctx.insert("hv", &"<i a='1'>&\"");
    if rendered {
        for n in &names {
            renders.push((format!("render {n}"), outcome(catch(AssertUnwindSafe(|| tera.render(n, &ctx))))));
            if let Some(t) = derived.tpls.get(n) {
                for b in t.lineage.keys() {
                    renders.push((format!("block {n} {b}"), outcome(catch(AssertUnwindSafe(|| tera.render_block(n, b, &ctx))))));
                }
            }
        }
        for c in derived.comps.keys() {
            renders.push((format!("component {c}"), outcome(catch(AssertUnwindSafe(|| tera.render_component(c, &ctx, None, true))))));
        }
    }
    let mut comp_names: BTreeSet<String> = derived.comps.keys().cloned().collect();
    comp_names.extend(SHARED_COMPS.iter().map(|s| s.to_string()));
    for c in comp_names {
        let d = match catch(AssertUnwindSafe(|| tera.get_component_definition(&c).map(|i| format!("{}/{}", i.name(), i.args().len())))) {
            Ok(Some(s)) => format!("some:{s}"),
            Ok(None) => "none".to_string(),
            Err(_) => "panic".to_string(),
        };
        renders.push((format!("compdef {c}"), d));
    }
    Snap { derived, names, rendered, renders }
}

/// first difference between two observations (for reports)
fn snap_diff(a: &Snap, b: &Snap) -> String {
    if a.names != b.names {
        return format!("template names {:?} vs {:?}", a.names, b.names);
    }
    for (n, ta) in &a.derived.tpls {
        match b.derived.tpls.get(n) {
            None => return format!("template {n} only on one side"),
            Some(tb) if ta != tb => return format!("derived data of {n}: {ta:?} vs {tb:?}"),
            _ => {}
        }
    }
    if a.derived.tpls.len() != b.derived.tpls.len() {
        return format!("derived templates {:?} vs {:?}", a.derived.tpls.keys().collect::<Vec<_>>(), b.derived.tpls.keys().collect::<Vec<_>>());
    }
    if a.derived.comps != b.derived.comps {
        return format!("component table {:?} vs {:?}", a.derived.comps, b.derived.comps);
    }
    if a.rendered != b.rendered {
        return format!("call graph acyclic: {} vs {}", a.rendered, b.rendered);
    }
    for (x, y) in a.renders.iter().zip(b.renders.iter()) {
        if x != y {
            return format!("{} = {:?} vs {} = {:?}", x.0, x.1, y.0, y.1);
        }
    }
    if a.renders.len() != b.renders.len() {
        return format!("{} vs {} rendered things", a.renders.len(), b.renders.len());
    }
    "no difference".into()
}

fn suffix_match(suffixes: &[String], name: &str) -> bool {
    suffixes.iter().any(|s| name.ends_with(s.as_str()))
}

/// A fresh instance with the same prefixes and suffixes, given `set` in ONE batch.
fn fresh_snapshot(prefixes: &[String], suffixes: &[String], set: &Set, reverse: bool) -> Result<Snap, String> {
    if ATTEMPT_FILE.get().is_some() {
        let mut items: Vec<TplS> = set.values().cloned().collect();
        if reverse {
            items.reverse();
        }
        note_attempt(prefixes, &[Step::Escape(suffixes.to_vec()), Step::Add(items)]);
    }
    let r = catch(AssertUnwindSafe(|| {
        let mut t = mk_engine(prefixes);
        t.autoescape_on(suffixes.to_vec());
        let mut pairs: Vec<(String, String)> = set.values().map(|t| (t.name.clone(), src_of(t))).collect();
        if reverse {
            pairs.reverse();
        }
        match t.add_raw_templates(pairs) {
            Ok(()) => Ok(snapshot(&t, prefixes)),
            Err(e) => Err(format!("the fresh instance rejects the current set: {}", canon_err(&e))),
        }
    }));
    match r {
        Ok(x) => x,
        Err(p) => Err(format!("the fresh instance panicked: {p}")),
    }
}

/// does a fresh instance accept this set? (guides the generator only; not an oracle)
fn accepts(prefixes: &[String], set: &Set) -> bool {
    if ATTEMPT_FILE.get().is_some() {
        note_attempt(prefixes, &[Step::Add(set.values().cloned().collect())]);
    }
    catch(AssertUnwindSafe(|| {
        let mut t = mk_engine(prefixes);
        t.add_raw_templates(set.values().map(|t| (t.name.clone(), src_of(t))).collect::<Vec<_>>()).is_ok()
    }))
    .unwrap_or(false)
}

// ---------------------------------------------------------------- running a history

#[derive(Clone, Debug, Default, serde::Serialize, serde::Deserialize)]
struct Rec {
    /// "ok" | `canon_err` line | "panic …"
    result: String,
    /// `canon_state` of the instance after the step
    state: String,
    set_size: usize,
    /// fresh-instance comparison: "identical" or the first difference
    fresh: String,
    /// failed call: "unchanged" or the first difference to the observation before the call
    identity: String,
    /// `autoescape_on`: "flags only" or what else changed
    escape: String,
}

#[derive(Clone, Debug, serde::Serialize, serde::Deserialize)]
struct Failure {
    step: usize,
    /// "fresh" | "identity" | "escape" | "acceptance" | "panic"
    kind: String,
    desc: String,
}

struct Runner {
    prefixes: Vec<String>,
    thorough: bool,
    tera: Tera,
    cur: Set,
    suffixes: Vec<String>,
    snap: Snap,
    recs: Vec<Rec>,
    failures: Vec<Failure>,
    oracle_checks: u64,
    stats: BTreeMap<String, u64>,
    hasher: std::collections::hash_map::DefaultHasher,
    /// hashes of (prefixes, steps up to and including an Add that reached finalize_templates)
    keys: Vec<u64>,
    /// the steps applied so far
    done: Vec<Step>,
    /// where this history keeps the files of its file-based registrations: one STABLE path per
    /// template name (an unchanged template re-added later is the same file with the same bytes)
    files_dir: std::path::PathBuf,
}

static RUNNER_IDS: std::sync::atomic::AtomicU64 = std::sync::atomic::AtomicU64::new(0);

/// root of every file this process writes for file-based registrations (outside /repo and /verif)
fn files_root() -> std::path::PathBuf {
    std::env::temp_dir().join(format!("tera_verif_c10_{}", std::process::id()))
}

impl Runner {
    fn new(prefixes: &[String], thorough: bool) -> Self {
        let tera = mk_engine(prefixes);
        let snap = snapshot(&tera, prefixes);
        let mut hasher = std::collections::hash_map::DefaultHasher::new();
        prefixes.hash(&mut hasher);
        Runner {
            prefixes: prefixes.to_vec(),
            thorough,
            tera,
            cur: Set::new(),
            suffixes: DEFAULT_SUFFIXES.iter().map(|s| s.to_string()).collect(),
            snap,
            recs: Vec::new(),
            failures: Vec::new(),
            oracle_checks: 0,
            stats: BTreeMap::new(),
            hasher,
            keys: Vec::new(),
            done: Vec::new(),
            files_dir: files_root().join(format!("r{}", RUNNER_IDS.fetch_add(1, std::sync::atomic::Ordering::Relaxed))),
        }
    }

    /// remove the files of this history
    fn cleanup_files(&self) {
        let _ = std::fs::remove_dir_all(&self.files_dir);
        let _ = std::fs::remove_dir(files_root());
    }

    fn count(&mut self, key: &str) {
        *self.stats.entry(key.to_string()).or_insert(0) += 1;
    }

    fn fail(&mut self, step: usize, kind: &str, desc: String) {
        self.failures.push(Failure { step, kind: kind.to_string(), desc });
    }

    fn apply(&mut self, step: &Step, intent: &str) {
        self.done.push(step.clone());
        if ATTEMPT_FILE.get().is_some() {
            note_attempt(&self.prefixes, &self.done);
        }
        let idx = self.recs.len();
        let before = std::mem::take(&mut self.snap);
        let cur_before = self.cur.clone();
        let mut rec = Rec::default();
        step.hash(&mut self.hasher);
        self.count(&format!("intent.{intent}"));
        match step {
            Step::Add(items) => {
                let pairs: Vec<(String, String)> = items.iter().map(|t| (t.name.clone(), src_of(t))).collect();
                let via_files = items.first().is_some_and(|t| t.via_file);
                if via_files {
                    self.count(if items.len() == 1 { "add.via_add_template_file" } else { "add.via_add_template_files" });
                }
                let tera = &mut self.tera;
                let outcome = if via_files {
                    // the same batch through the file system: every source is written to a file
                    // (outside /repo and /verif) and registered under its name.  The path is stable
                    // per template name and the files stay until the history ends, so re-adding an
                    // unchanged template is re-adding the same path with the same bytes; an earlier
                    // occurrence of a name that comes again in the same batch gets a path of its own
                    let dir = self.files_dir.clone();
                    let _ = std::fs::create_dir_all(&dir);
                    let files: Vec<(std::path::PathBuf, Option<String>)> = pairs
                        .iter()
                        .enumerate()
                        .map(|(i, (n, src))| {
                            let again_later = pairs[i + 1..].iter().any(|(m, _)| m == n);
                            let path = if again_later { dir.join(format!("dup{i}_{}.tpl", mark(n))) } else { dir.join(format!("{}.tpl", mark(n))) };
                            std::fs::write(&path, src).expect("write template file");
                            (path, Some(n.clone()))
                        })
                        .collect();
                    let r = if files.len() == 1 {
                        let (p, n) = files[0].clone();
                        catch(AssertUnwindSafe(|| tera.add_template_file(p, n.as_deref())))
                    } else {
                        let fs = files.clone();
                        catch(AssertUnwindSafe(|| tera.add_template_files(fs)))
                    };
                    r
                } else {
                    catch(AssertUnwindSafe(|| tera.add_raw_templates(pairs)))
                };
                rec.result = match outcome {
                    Ok(Ok(())) => "ok".to_string(),
                    Ok(Err(e)) => canon_err(&e),
                    Err(p) => format!("panic {p}"),
                };
                let ok = rec.result == "ok";
                // ---- distribution
                let class = if ok { "ok".to_string() } else if rec.result.starts_with("panic") { "panic".into() } else { err_class(&rec.result).to_string() };
                self.count("step.add");
                self.count(if items.len() == 1 { "add.single" } else { "add.batch" });
                self.count(&format!("batch.size.{}", items.len()));
                self.count(&format!("add.result.{class}"));
                self.count(&format!("intent.{intent}.returned.{class}"));
                let part = if intent.starts_with("exhaustive") { "exhaustive" } else { "random" };
                self.count("add.success.denominator");
                self.count(&format!("add.success.{part}.denominator"));
                if ok {
                    self.count("add.success.numerator");
                    self.count(&format!("add.success.{part}.numerator"));
                }
                let distinct: BTreeSet<&str> = items.iter().map(|t| t.name.as_str()).collect();
                let dup = distinct.len() < items.len();
                if dup {
                    self.count("batch.duplicate_names");
                }
                let first_bad = items.iter().position(|t| t.syntax_error);
                let inserted = &items[..first_bad.unwrap_or(items.len())];
                let replaces = inserted.iter().any(|t| self.cur.contains_key(&t.name));
                if items.iter().any(|t| self.cur.contains_key(&t.name)) {
                    self.count("add.with_replacement");
                }
                if first_bad.is_some() {
                    self.count("add.stopped_at_syntax_error");
                } else {
                    self.count("add.reached_finalize");
                    self.keys.push(self.hasher.clone().finish());
                }
                if !ok {
                    self.count(&format!("undo.entries.{}", inserted.len().min(4)));
                    if replaces {
                        self.count("undo.restores_replaced_template");
                    }
                    if inserted.len() > 1 {
                        self.count("undo.after_other_items");
                    }
                    let d: BTreeSet<&str> = inserted.iter().map(|t| t.name.as_str()).collect();
                    if d.len() < inserted.len() {
                        self.count("undo.with_duplicate_names");
                    }
                } else {
                    for t in items {
                        if t.parent.is_some() {
                            self.count("accepted.extends");
                        }
                        if t.blocks.iter().any(|b| b.calls_super) {
                            self.count("accepted.calls_super");
                        }
                        if t.blocks.iter().any(|b| b.nested_in.is_some()) {
                            self.count("accepted.nested_block");
                        }
                        if !t.all_includes().is_empty() {
                            self.count("accepted.includes");
                        }
                        if !t.comps.is_empty() {
                            self.count("accepted.defines_component");
                        }
                        if !t.comp_calls.is_empty() {
                            self.count("accepted.calls_component");
                        }
                        if t.comps.iter().any(|c| self.cur.values().any(|o| o.name != t.name && o.comps.iter().any(|oc| oc.name == c.name))) {
                            self.count("accepted.component_defined_twice_different_priority");
                        }
                    }
                    for t in items {
                        self.cur.insert(t.name.clone(), t.clone());
                    }
                }
            }
            Step::Escape(s) => {
                let tera = &mut self.tera;
                let sv = s.clone();
                rec.result = match catch(AssertUnwindSafe(|| tera.autoescape_on(sv))) {
                    Ok(()) => "ok".to_string(),
                    Err(p) => format!("panic {p}"),
                };
                self.suffixes = s.clone();
                self.count("step.escape");
                self.count(&format!("escape.suffixes.[{}]", s.join(",")));
            }
        }
        let after = snapshot(&self.tera, &self.prefixes);
        rec.state = after.derived.canon_state();
        rec.set_size = self.cur.len();
        self.count(&format!("set.size.{}", self.cur.len()));
        let part = if intent.starts_with("exhaustive") { "exhaustive" } else { "random" };
        self.count(&format!("observation.{part}.{}", if after.rendered { "rendered" } else { "not_rendered_cyclic_call_graph" }));
        *self.stats.entry("renders".into()).or_insert(0) += after.renders.len() as u64;
        *self.stats.entry("renders.ok".into()).or_insert(0) += after.renders.iter().filter(|r| r.1.starts_with("ok:")).count() as u64;
        for (k, v) in &after.renders {
            if let Some(class) = v.strip_prefix("err:") {
                self.count(&format!("renders.err.{}.{class}", k.split(' ').next().unwrap_or("")));
            } else if v == "panic" {
                self.count("renders.panic");
            }
        }

        if rec.result.starts_with("panic") {
            self.oracle_checks += 1;
            self.fail(idx, "panic", format!("the call panicked: {}", rec.result));
        }
        // (e) acceptance is a function of the resulting set: a fresh instance given the set the call
        //     leads to answers with the same class (only when every item parses: otherwise the call
        //     stops at the first item that does not, whatever the set)
        if let Step::Add(items) = step {
            if !items.iter().any(|t| t.syntax_error) {
                self.oracle_checks += 1;
                let mut would_be = cur_before.clone();
                for t in items {
                    would_be.insert(t.name.clone(), t.clone());
                }
                let prefixes = self.prefixes.clone();
                let fresh = match catch(AssertUnwindSafe(|| {
                    let mut t = mk_engine(&prefixes);
                    t.add_raw_templates(would_be.values().map(|t| (t.name.clone(), src_of(t))).collect::<Vec<_>>()).map_err(|e| canon_err(&e))
                })) {
                    Ok(Ok(())) => "ok".to_string(),
                    Ok(Err(e)) => err_class(&e).to_string(),
                    Err(_) => "panic".to_string(),
                };
                let mine = if rec.result == "ok" { "ok" } else if rec.result.starts_with("panic") { "panic" } else { err_class(&rec.result) };
                if fresh != mine {
                    self.fail(idx, "acceptance", format!("the call answered `{mine}` but a fresh instance given the resulting set in one batch answers `{fresh}`"));
                }
                // (f) invalid "in every way: … cycle": a call whose resulting set has an include
                //     cycle or an extends cycle (targets resolved exactly or through a fallback
                //     prefix) must fail, whatever a fresh instance says
                self.oracle_checks += 1;
                if rec.result == "ok" {
                    if let Some(kind) = graph_cycle(&self.prefixes, &would_be) {
                        self.fail(idx, "cycle", format!("the call was accepted although the resulting set has an {kind} cycle (prefixes {:?})", self.prefixes));
                    }
                }
            }
        }
        // (c) a failed call changes nothing
        if matches!(step, Step::Add(_)) && rec.result != "ok" {
            self.oracle_checks += 1;
            if after == before {
                rec.identity = "unchanged".into();
            } else {
                rec.identity = snap_diff(&before, &after);
                self.fail(idx, "identity", format!("the call failed ({}) but the instance changed: {}", err_class(&rec.result), rec.identity));
            }
        }
        // (d) autoescape_on touches the flags only, and sets them to "name ends with a suffix"
        if matches!(step, Step::Escape(_)) {
            self.oracle_checks += 1;
            let mut expect = before.clone();
            for (n, t) in expect.derived.tpls.iter_mut() {
                t.autoescape = suffix_match(&self.suffixes, n);
            }
            // (what templates that print a hostile value render changes with their flag: the renders
            // after the call are judged by the fresh-instance comparison below, not here)
            expect.renders = after.renders.clone();
            if after == expect {
                rec.escape = "flags only".into();
            } else {
                rec.escape = snap_diff(&expect, &after);
                self.fail(idx, "escape", format!("after autoescape_on({:?}): {}", self.suffixes, rec.escape));
            }
        }
        // (b) the instance equals a fresh one given the current set in one batch
        rec.fresh = "identical".into();
        for reverse in [false, true] {
            if reverse && !self.thorough {
                continue;
            }
            self.oracle_checks += 1;
            match fresh_snapshot(&self.prefixes, &self.suffixes, &self.cur, reverse) {
                Ok(f) if f == after => {}
                Ok(f) => {
                    rec.fresh = format!("history instance vs fresh instance{}: {}", if reverse { " (reverse batch order)" } else { "" }, snap_diff(&after, &f));
                    self.fail(idx, "fresh", rec.fresh.clone());
                    break;
                }
                Err(e) => {
                    rec.fresh = e.clone();
                    self.fail(idx, "fresh", e);
                    break;
                }
            }
        }
        self.snap = after;
        self.recs.push(rec);
    }
}

#[derive(Clone, serde::Serialize, serde::Deserialize)]
struct HistoryRun {
    history: History,
    intents: Vec<String>,
    recs: Vec<Rec>,
    failures: Vec<Failure>,
    oracle_checks: u64,
    stats: BTreeMap<String, u64>,
    keys: Vec<u64>,
    exhaustive: bool,
}

fn run_fixed(h: &History, intents: &[String], thorough: bool, exhaustive: bool) -> HistoryRun {
    CUSTOM_DELIMS.with(|c| c.set(h.custom_delims));
    let mut r = Runner::new(&h.prefixes, thorough);
    for (i, s) in h.steps.iter().enumerate() {
        r.apply(s, intents.get(i).map(|s| s.as_str()).unwrap_or("replay"));
    }
    r.cleanup_files();
    HistoryRun {
        history: h.clone(),
        intents: intents.to_vec(),
        recs: r.recs,
        failures: r.failures,
        oracle_checks: r.oracle_checks,
        stats: r.stats,
        keys: r.keys,
        exhaustive,
    }
}

// ---------------------------------------------------------------- generator

struct Gen {
    rng: Rng,
    prefixes: Vec<String>,
    tag: usize,
}

impl Gen {
    fn next_tag(&mut self) -> String {
        self.tag += 1;
        format!("v{}", self.tag)
    }

    /// how a reference to `target` is written: exactly, or without a fallback prefix when that
    /// still resolves to `target` among `names`
    fn spell(&mut self, target: &str, names: &[String]) -> String {
        for p in self.prefixes.clone() {
            if let Some(short) = target.strip_prefix(p.as_str()) {
                if self.rng.chance(3, 4) && tplgen::resolve(names, &self.prefixes, short) == Some(target) {
                    return short.to_string();
                }
            }
        }
        target.to_string()
    }

    fn pick_name(&mut self, base: &Set, p_new: u32, avoid: &[String]) -> String {
        let fresh: Vec<&str> = NAMES.iter().copied().filter(|n| !base.contains_key(*n) && !avoid.iter().any(|a| a == n)).collect();
        let old: Vec<&str> = NAMES.iter().copied().filter(|n| base.contains_key(*n) && !avoid.iter().any(|a| a == n)).collect();
        if !fresh.is_empty() && (old.is_empty() || self.rng.chance(p_new, 100)) {
            fresh[self.rng.below(fresh.len())].to_string()
        } else if !old.is_empty() {
            old[self.rng.below(old.len())].to_string()
        } else {
            NAMES[self.rng.below(NAMES.len())].to_string()
        }
    }

    fn push_include(&mut self, t: &mut TplS, target: String) {
        match self.rng.below(3) {
            1 if !t.blocks.is_empty() => {
                let i = self.rng.below(t.blocks.len());
                t.blocks[i].includes.push(target);
            }
            2 if !t.comps.is_empty() => {
                let i = self.rng.below(t.comps.len());
                t.comps[i].includes.push(target);
            }
            _ => t.top_includes.push(target),
        }
    }

    /// One attempt at a template for `name` that keeps `base` valid: parent among the existing
    /// templates, blocks the ancestors define (so none is an orphan), includes / component calls
    /// that exist, and no cycle of any kind in the render-time call graph.
    fn valid_tpl(&mut self, name: &str, base: &Set) -> TplS {
        let prefixes = self.prefixes.clone();
        let mut t = TplS::new(name);
        t.tag = self.next_tag();
        let old = base.get(name).cloned();
        let mut with_new = base.clone();
        with_new.insert(name.to_string(), TplS::new(name));
        let names_after = names_of(&with_new);
        let others: Vec<String> = base.keys().filter(|k| k.as_str() != name).cloned().collect();
        // parent
        let mut avail: BTreeSet<String> = BTreeSet::new();
        if !others.is_empty() && self.rng.chance(45, 100) {
            let p = others[self.rng.below(others.len())].clone();
            let ch = chain(&with_new, &prefixes, &p);
            if !ch.iter().any(|x| x == name) {
                t.parent = Some(self.spell(&p, &names_after));
                for a in &ch {
                    for b in &with_new[a].blocks {
                        avail.insert(b.name.clone());
                    }
                }
            }
        }
        // blocks
        if t.parent.is_some() {
            for b in &avail {
                if self.rng.chance(60, 100) {
                    t.blocks.push(BlockS { name: b.clone(), calls_super: self.rng.chance(1, 2), ..Default::default() });
                }
            }
        } else {
            for b in TOP_BLOCKS {
                if self.rng.chance(1, 2) {
                    t.blocks.push(BlockS { name: b.to_string(), calls_super: self.rng.chance(3, 100), ..Default::default() });
                }
            }
        }
        let tops: Vec<String> = t.blocks.iter().filter(|b| b.name != NESTED).map(|b| b.name.clone()).collect();
        if !tops.is_empty() && !t.blocks.iter().any(|b| b.name == NESTED) && self.rng.chance(35, 100) {
            let enc = tops[self.rng.below(tops.len())].clone();
            // super() with nothing above makes every render of the family an error (a legal but
            // uninformative observation): keep it rare
            let sup = if t.parent.is_some() && avail.contains(NESTED) { self.rng.chance(1, 2) } else { self.rng.chance(3, 100) };
            t.blocks.push(BlockS { name: NESTED.into(), nested_in: Some(enc), calls_super: sup, ..Default::default() });
        }
        // a replacement mostly keeps what dependants may rely on: block names and components
        if let Some(old) = &old {
            if self.rng.chance(7, 10) {
                for pass in 0..2 {
                    for ob in &old.blocks {
                        if t.blocks.iter().any(|b| b.name == ob.name) || (pass == 0) != ob.nested_in.is_none() {
                            continue;
                        }
                        match &ob.nested_in {
                            None if t.parent.is_some() && !avail.contains(&ob.name) => continue,
                            Some(enc) if !t.blocks.iter().any(|b| &b.name == enc) => continue,
                            _ => {}
                        }
                        t.blocks.push(BlockS { name: ob.name.clone(), nested_in: ob.nested_in.clone(), calls_super: self.rng.chance(1, 2) && t.parent.is_some(), ..Default::default() });
                    }
                }
                for oc in &old.comps {
                    t.comps.push(CompS { name: oc.name.clone(), includes: vec![] });
                }
            }
        }
        // components
        if self.rng.chance(35, 100) {
            let my_prio = priority(&prefixes, name);
            let overridable: Vec<String> = base
                .values()
                .filter(|o| o.name != name && priority(&prefixes, &o.name) != my_prio)
                .flat_map(|o| o.comps.iter().map(|c| c.name.clone()))
                .collect();
            let cname = if !overridable.is_empty() && self.rng.chance(4, 10) {
                overridable[self.rng.below(overridable.len())].clone()
            } else if self.rng.chance(3, 10) {
                SHARED_COMPS[self.rng.below(2)].to_string()
            } else {
                format!("c_{}", mark(name))
            };
            if !t.comps.iter().any(|c| c.name == cname) {
                t.comps.push(CompS { name: cname, includes: vec![] });
            }
        }
        // includes
        if !others.is_empty() && self.rng.chance(35, 100) {
            for _ in 0..1 + self.rng.below(2) {
                let target = others[self.rng.below(others.len())].clone();
                let s = self.spell(&target, &names_after);
                self.push_include(&mut t, s);
            }
        }
        // component calls
        let mut callable: BTreeSet<String> = base.values().filter(|o| o.name != name).flat_map(|o| o.comps.iter().map(|c| c.name.clone())).collect();
        callable.extend(t.comps.iter().map(|c| c.name.clone()));
        if !callable.is_empty() && self.rng.chance(35, 100) {
            let v: Vec<String> = callable.into_iter().collect();
            t.comp_calls.push(v[self.rng.below(v.len())].clone());
        }
        // never a cycle in the render-time call graph (pure or mixed)
        let mut cand = base.clone();
        for round in 0..4 {
            cand.insert(name.to_string(), t.clone());
            if acyclic(&summary_graph(&prefixes, &cand)) {
                break;
            }
            match round {
                0 => {
                    t.top_includes.clear();
                    t.blocks.iter_mut().for_each(|b| b.includes.clear());
                    t.comps.iter_mut().for_each(|c| c.includes.clear());
                }
                1 => t.comp_calls.clear(),
                _ => {
                    t.parent = None;
                    t.blocks.iter_mut().for_each(|b| b.calls_super = false);
                }
            }
        }
        t
    }

    /// `valid_tpl`, retried until a fresh engine accepts `base` with it
    fn valid_item(&mut self, name: &str, base: &Set) -> TplS {
        for _ in 0..6 {
            let t = self.valid_tpl(name, base);
            let mut cand = base.clone();
            cand.insert(name.to_string(), t.clone());
            if accepts(&self.prefixes, &cand) {
                return t;
            }
        }
        match base.get(name) {
            Some(old) => {
                let mut t = old.clone();
                t.tag = self.next_tag();
                t
            }
            None => {
                let mut t = TplS::new(name);
                t.tag = self.next_tag();
                t
            }
        }
    }

    /// a parsable version of `name` that loses against a later item of the same batch
    fn loser(&mut self, name: &str, base: &Set) -> TplS {
        let mut t = self.valid_tpl(name, base);
        if self.rng.chance(1, 3) {
            t.parent = Some("nowhere".into());
        }
        t
    }

    fn add_duplicate(&mut self, items: &mut Vec<TplS>, base: &Set) {
        if items.is_empty() {
            return;
        }
        let j = self.rng.below(items.len());
        let l = self.loser(&items[j].name.clone(), base);
        let pos = self.rng.below(j + 1);
        items.insert(pos, l);
    }

    fn valid_batch(&mut self, cur: &Set) -> Vec<TplS> {
        let single = self.rng.chance(65, 100);
        let m = if single { 1 } else { 2 + self.rng.below(3) };
        let mut run = cur.clone();
        let mut items: Vec<TplS> = Vec::new();
        for _ in 0..m {
            let avoid: Vec<String> = items.iter().map(|t| t.name.clone()).collect();
            let p_new = if run.len() < 3 { 80 } else { 45 };
            let name = self.pick_name(&run, p_new, &avoid);
            if avoid.contains(&name) {
                continue;
            }
            let t = self.valid_item(&name, &run);
            run.insert(name, t.clone());
            items.push(t);
        }
        if items.len() > 1 {
            if self.rng.chance(1, 2) {
                for i in (1..items.len()).rev() {
                    let j = self.rng.below(i + 1);
                    items.swap(i, j);
                }
            }
            if self.rng.chance(35, 100) {
                self.add_duplicate(&mut items, cur);
            }
        }
        items
    }

    fn plain(&mut self, name: &str) -> TplS {
        let mut t = TplS::new(name);
        t.tag = self.next_tag();
        t
    }

    /// the offending item(s) of kind `kind` w.r.t. the valid set `run`; returns the sub-variant too
    fn bad_items(&mut self, kind: &str, run: &Set) -> (Vec<TplS>, &'static str) {
        let prefixes = self.prefixes.clone();
        let names = names_of(run);
        let any_name = |g: &mut Gen| g.pick_name(run, 50, &[]);
        match kind {
            "syntax" => {
                let n = any_name(self);
                let mut t = self.valid_tpl(&n, run);
                t.syntax_error = true;
                (vec![t], "")
            }
            "missing_parent" => {
                let n = any_name(self);
                let mut t = self.valid_tpl(&n, run);
                let unresolvable: Vec<&str> = NAMES.iter().copied().filter(|x| *x != n && tplgen::resolve(&names, &prefixes, x).is_none()).collect();
                t.parent = Some(if !unresolvable.is_empty() && self.rng.chance(1, 2) {
                    unresolvable[self.rng.below(unresolvable.len())].to_string()
                } else {
                    "nowhere".to_string()
                });
                (vec![t], "")
            }
            "extends_cycle" => {
                let variant = self.rng.below(3);
                if variant == 1 {
                    // replace the root of an existing chain by a version that extends a descendant
                    let cands: Vec<(String, String)> = run
                        .keys()
                        .filter_map(|c| {
                            let ch = chain(run, &prefixes, c);
                            (ch.len() > 1).then(|| (c.clone(), ch.last().unwrap().clone()))
                        })
                        .collect();
                    if !cands.is_empty() {
                        let (c, root) = cands[self.rng.below(cands.len())].clone();
                        let mut t = run[&root].clone();
                        t.tag = self.next_tag();
                        t.parent = Some(self.spell(&c, &names));
                        return (vec![t], "by_replacement");
                    }
                }
                if variant == 2 {
                    let x = any_name(self);
                    let y = self.pick_name(run, 50, &[x.clone()]);
                    if x != y {
                        let mut a = self.plain(&x);
                        let mut b = self.plain(&y);
                        a.parent = Some(y.clone());
                        b.parent = Some(x.clone());
                        return (vec![a, b], "pair");
                    }
                }
                let n = any_name(self);
                let mut t = self.valid_tpl(&n, run);
                let mut after = names.clone();
                if !after.contains(&n) {
                    after.push(n.clone());
                }
                t.parent = Some(self.spell(&n, &after));
                (vec![t], "self")
            }
            "include_cycle" => {
                let variant = self.rng.below(3);
                if variant == 1 {
                    // replace an include target by a version that includes its includer
                    let mut cands: Vec<(String, String)> = Vec::new();
                    for x in run.values() {
                        for i in x.all_includes() {
                            if let Some(y) = tplgen::resolve(&names, &prefixes, &i) {
                                if y != x.name {
                                    cands.push((x.name.clone(), y.to_string()));
                                }
                            }
                        }
                    }
                    if !cands.is_empty() {
                        let (x, y) = cands[self.rng.below(cands.len())].clone();
                        let mut t = run[&y].clone();
                        t.tag = self.next_tag();
                        let s = self.spell(&x, &names);
                        self.push_include(&mut t, s);
                        return (vec![t], "by_replacement");
                    }
                }
                if variant == 2 {
                    let x = any_name(self);
                    let y = self.pick_name(run, 50, &[x.clone()]);
                    if x != y {
                        let mut a = self.plain(&x);
                        let mut b = self.plain(&y);
                        let mut both = names.clone();
                        for n in [&x, &y] {
                            if !both.contains(n) {
                                both.push(n.clone());
                            }
                        }
                        let (sx, sy) = (self.spell(&x, &both), self.spell(&y, &both));
                        a.top_includes.push(sy);
                        b.blocks.push(BlockS { name: "x".into(), includes: vec![sx], ..Default::default() });
                        return (vec![a, b], "pair");
                    }
                }
                let n = any_name(self);
                let mut t = self.valid_tpl(&n, run);
                let mut after = names.clone();
                if !after.contains(&n) {
                    after.push(n.clone());
                }
                let s = self.spell(&n, &after);
                self.push_include(&mut t, s);
                (vec![t], "self")
            }
            "bad_filter" | "bad_test" | "bad_function" => {
                let n = any_name(self);
                let mut t = self.valid_tpl(&n, run);
                t.bad_ref = Some(kind.trim_start_matches("bad_").to_string());
                (vec![t], "")
            }
            "unknown_comp" => {
                if self.rng.chance(1, 2) {
                    // replace the only provider of a component somebody else calls by one without it
                    let mut cands: Vec<(String, String)> = Vec::new();
                    for p in run.values() {
                        for c in &p.comps {
                            let others_define = run.values().any(|o| o.name != p.name && o.comps.iter().any(|oc| oc.name == c.name));
                            let called = run.values().any(|q| q.name != p.name && q.comp_calls.contains(&c.name));
                            if called && !others_define {
                                cands.push((p.name.clone(), c.name.clone()));
                            }
                        }
                    }
                    if !cands.is_empty() {
                        let (p, c) = cands[self.rng.below(cands.len())].clone();
                        let mut t = run[&p].clone();
                        t.tag = self.next_tag();
                        t.comps.retain(|x| x.name != c);
                        t.comp_calls.retain(|x| x != &c);
                        return (vec![t], "by_replacement");
                    }
                }
                let n = any_name(self);
                let mut t = self.valid_tpl(&n, run);
                t.comp_calls.push("Nope".into());
                (vec![t], "direct")
            }
            "unknown_include" => {
                let n = any_name(self);
                let mut t = self.valid_tpl(&n, run);
                self.push_include(&mut t, "nowhere_inc".into());
                (vec![t], "")
            }
            "dup_comp" => {
                let mut cands: Vec<(String, String)> = Vec::new();
                for p in run.values() {
                    for c in &p.comps {
                        for n2 in NAMES {
                            if n2 != p.name && priority(&prefixes, n2) == priority(&prefixes, &p.name) {
                                cands.push((n2.to_string(), c.name.clone()));
                            }
                        }
                    }
                }
                if !cands.is_empty() && self.rng.chance(3, 4) {
                    let (n2, c) = cands[self.rng.below(cands.len())].clone();
                    let mut t = self.valid_tpl(&n2, run);
                    if !t.comps.iter().any(|x| x.name == c) {
                        t.comps.push(CompS { name: c, includes: vec![] });
                    }
                    return (vec![t], "second_definition");
                }
                // two templates without a prefix (priority 0; there are always several such names)
                let zero: Vec<&str> = NAMES.iter().copied().filter(|n| priority(&prefixes, n) == 0).collect();
                let x = zero[self.rng.below(zero.len())].to_string();
                let same: Vec<&str> = zero.iter().copied().filter(|n| *n != x).collect();
                let y = same[self.rng.below(same.len())].to_string();
                let mut a = self.valid_tpl(&x, run);
                let mut b = self.plain(&y);
                a.comps.retain(|c| c.name != "K");
                a.comps.push(CompS { name: "K".into(), includes: vec![] });
                b.comps.push(CompS { name: "K".into(), includes: vec![] });
                (vec![a, b], "pair")
            }
            _ => {
                // orphan_block
                if self.rng.chance(1, 3) {
                    // replace a parent by a version without blocks although a child overrides one
                    let mut cands: Vec<String> = Vec::new();
                    for c in run.values() {
                        if c.blocks.iter().any(|b| b.nested_in.is_none()) {
                            let ch = chain(run, &prefixes, &c.name);
                            if ch.len() > 1 && !run[&ch[1]].blocks.is_empty() {
                                cands.push(ch[1].clone());
                            }
                        }
                    }
                    if !cands.is_empty() {
                        let p = cands[self.rng.below(cands.len())].clone();
                        let mut t = run[&p].clone();
                        t.tag = self.next_tag();
                        t.blocks.clear();
                        return (vec![t], "by_replacement");
                    }
                }
                let n = any_name(self);
                let mut with_new = run.clone();
                with_new.insert(n.clone(), TplS::new(&n));
                let parents: Vec<String> = run.keys().filter(|p| **p != n && !chain(&with_new, &prefixes, p).iter().any(|x| *x == n)).cloned().collect();
                if parents.is_empty() {
                    let p = self.pick_name(run, 100, &[n.clone()]);
                    if p == n || run.contains_key(&p) {
                        // nothing to build on: an orphan needs a parent
                        let mut t = self.plain(&n);
                        t.parent = Some("nowhere".into());
                        t.blocks.push(BlockS { name: "zz".into(), ..Default::default() });
                        return (vec![t], "no_parent_available");
                    }
                    let mut base = self.plain(&p);
                    base.blocks.push(BlockS { name: "x".into(), ..Default::default() });
                    let mut t = self.plain(&n);
                    t.parent = Some(p);
                    t.blocks.push(BlockS { name: "zz".into(), ..Default::default() });
                    return (vec![base, t], "pair");
                }
                let p = parents[self.rng.below(parents.len())].clone();
                let mut t = self.valid_tpl(&n, run);
                if t.parent.is_none() {
                    let names_after = names_of(&with_new);
                    t.parent = Some(self.spell(&p, &names_after));
                    t.blocks.clear();
                }
                t.blocks.push(BlockS { name: "zz".into(), calls_super: self.rng.chance(1, 2), ..Default::default() });
                (vec![t], "direct")
            }
        }
    }

    /// A batch that is meant to fail. When the offending item is overwritten by a later item of
    /// the same name the batch may be accepted after all; such a batch is kept only if the set it
    /// leads to has an acyclic render-time call graph (a mixed extends/include cycle is accepted by
    /// the engine and must not be rendered).
    fn invalid_batch(&mut self, cur: &Set) -> (Vec<TplS>, String) {
        for _ in 0..8 {
            let (items, label) = self.invalid_batch_once(cur);
            let mut after = cur.clone();
            for t in &items {
                after.insert(t.name.clone(), t.clone());
            }
            if items.iter().any(|t| t.syntax_error) || acyclic(&summary_graph(&self.prefixes, &after)) || graph_cycle(&self.prefixes, &after).is_some() || !accepts(&self.prefixes, &after) {
                return (items, label);
            }
        }
        let name = self.pick_name(cur, 50, &[]);
        (vec![self.valid_item(&name, cur)], "valid.fallback".into())
    }

    fn invalid_batch_once(&mut self, cur: &Set) -> (Vec<TplS>, String) {
        let kind = INVALID_KINDS[self.rng.below(INVALID_KINDS.len())];
        let mut run = cur.clone();
        let mut items: Vec<TplS> = Vec::new();
        if self.rng.chance(55, 100) {
            for i in 0..1 + self.rng.below(2) {
                let avoid: Vec<String> = items.iter().map(|t| t.name.clone()).collect();
                let name = if i == 0 && !run.is_empty() && self.rng.chance(7, 10) {
                    let v = names_of(&run);
                    v[self.rng.below(v.len())].clone()
                } else {
                    self.pick_name(&run, 60, &avoid)
                };
                if avoid.contains(&name) {
                    continue;
                }
                let t = self.valid_item(&name, &run);
                run.insert(name, t.clone());
                items.push(t);
            }
            if self.rng.chance(1, 4) {
                self.add_duplicate(&mut items, cur);
            }
        }
        let (bad, variant) = self.bad_items(kind, &run);
        let bad_names: Vec<String> = bad.iter().map(|t| t.name.clone()).collect();
        if items.is_empty() || self.rng.chance(8, 10) {
            items.extend(bad);
        } else {
            let pos = self.rng.below(items.len() + 1);
            for (k, b) in bad.into_iter().enumerate() {
                items.insert(pos + k, b);
            }
        }
        if self.rng.chance(15, 100) {
            let mut avoid = bad_names;
            avoid.extend(items.iter().map(|t| t.name.clone()));
            let name = self.pick_name(&run, 50, &avoid);
            if !avoid.contains(&name) {
                let t = self.valid_item(&name, &run);
                items.push(t);
            }
        }
        let label = if variant.is_empty() { format!("invalid.{kind}") } else { format!("invalid.{kind}.{variant}") };
        (items, label)
    }

    fn step(&mut self, cur: &Set) -> (Step, String) {
        let r = self.rng.below(100);
        if r < 12 {
            let lists: [&[&str]; 7] = [&[], &[".html"], &[".xml", ".html"], &["b"], &["l"], &[".html", ".htm", ".xml"], &["/c", "e"]];
            let l = lists[self.rng.below(lists.len())];
            return (Step::Escape(l.iter().map(|s| s.to_string()).collect()), "escape".into());
        }
        if r < 13 {
            return (Step::Add(vec![]), "valid.empty_batch".into());
        }
        let (mut items, mut label) = if r < 74 || (cur.is_empty() && self.rng.chance(7, 10)) {
            (self.valid_batch(cur), "valid".to_string())
        } else {
            self.invalid_batch(cur)
        };
        // some templates print a hostile value (the autoescape flag becomes visible in renders),
        // and a quarter of the batches reach the engine through files and add_template_file(s)
        for t in items.iter_mut() {
            if self.rng.chance(1, 3) {
                t.probe = true;
            }
        }
        if !items.is_empty() && self.rng.chance(1, 4) {
            for t in items.iter_mut() {
                t.via_file = true;
            }
            label.push_str(".files");
            // often the call also lists a resident template that came from a file and has NOT
            // changed (a reload of a directory): same path, same bytes
            let residents: Vec<&TplS> = cur.values().filter(|t| t.via_file && !items.iter().any(|i| i.name == t.name)).collect();
            if !residents.is_empty() && self.rng.chance(1, 2) {
                let r = residents[self.rng.below(residents.len())].clone();
                let pos = self.rng.below(items.len() + 1);
                items.insert(pos, r);
                label.push_str(".with_unchanged_file");
            }
        }
        (Step::Add(items), label)
    }
}

fn run_random(mut rng: Rng, index: u64, max_steps: usize, thorough: bool) -> HistoryRun {
    let prefixes: Vec<String> = match rng.below(3) {
        0 => vec![],
        1 => vec!["th/".into()],
        _ => vec!["th/".into(), "alt/".into()],
    };
    let n_steps = 1 + rng.below(max_steps);
    // one history in six runs on an instance with custom delimiters
    let custom_delims = rng.chance(1, 6);
    CUSTOM_DELIMS.with(|c| c.set(custom_delims));
    let mut g = Gen { rng, prefixes: prefixes.clone(), tag: 0 };
    let mut r = Runner::new(&prefixes, thorough);
    if custom_delims {
        r.count("histories.custom_delimiters");
    }
    r.count(&format!("prefixes.{}", prefixes.len()));
    let mut steps = Vec::new();
    let mut intents = Vec::new();
    for _ in 0..n_steps {
        let (step, intent) = g.step(&r.cur);
        r.apply(&step, &intent);
        steps.push(step);
        intents.push(intent);
    }
    r.cleanup_files();
    HistoryRun {
        history: History { prefixes, perm2: index % 3, perm3: (index / 3) % 3, steps, custom_delims },
        intents,
        recs: r.recs,
        failures: r.failures,
        oracle_checks: r.oracle_checks,
        stats: r.stats,
        keys: r.keys,
        exhaustive: false,
    }
}

// ---------------------------------------------------------------- exhaustive short histories

fn alphabet() -> Vec<(&'static str, Step)> {
    let block = |name: &str, sup: bool| BlockS { name: name.into(), calls_super: sup, ..Default::default() };
    let mut a0 = TplS::new("a");
    a0.blocks.push(block("x", false));
    let mut b_a = TplS::new("b");
    b_a.parent = Some("a".into());
    b_a.blocks.push(block("x", true));
    let mut b_c = TplS::new("b");
    b_c.parent = Some("c".into());
    let mut a_b = TplS::new("a");
    a_b.parent = Some("b".into());
    let mut c_a = TplS::new("c");
    c_a.top_includes.push("a".into());
    let mut a_c = TplS::new("a");
    a_c.blocks.push(block("x", false));
    a_c.top_includes.push("c".into());
    let mut d_k = TplS::new("d");
    d_k.comps.push(CompS { name: "K".into(), includes: vec![] });
    d_k.comp_calls.push("K".into());
    let mut e_k = TplS::new("e");
    e_k.comps.push(CompS { name: "K".into(), includes: vec![] });
    vec![
        ("a_base_x", Step::Add(vec![a0])),
        ("b_extends_a_x_super", Step::Add(vec![b_a])),
        ("b_extends_c", Step::Add(vec![b_c])),
        ("a_extends_b", Step::Add(vec![a_b])),
        ("c_includes_a", Step::Add(vec![c_a])),
        ("a_includes_c", Step::Add(vec![a_c])),
        ("d_defines_K", Step::Add(vec![d_k])),
        ("e_defines_K", Step::Add(vec![e_k])),
        ("escape_a", Step::Escape(vec!["a".into()])),
    ]
}

/// All words of length 1..=max_len over the alphabet, once from the empty instance and once after
/// a preamble batch {a with block x, b extends a overriding x with super(), c includes a} (so that
/// every letter meets a state in which it is a replacement, a cycle, a duplicate … right away).
/// Some words reach a set with a MIXED extends/include cycle (c includes a, a extends b, b extends
/// c: the engine accepts it, rendering it would not end); the observation then skips rendering.
fn exhaustive_histories(max_len: usize) -> Vec<(History, Vec<String>)> {
    let alpha = alphabet();
    let k = alpha.len();
    let preamble: Vec<TplS> = [0usize, 1, 4]
        .iter()
        .flat_map(|i| match &alpha[*i].1 {
            Step::Add(items) => items.clone(),
            _ => vec![],
        })
        .collect();
    let mut out = Vec::new();
    let mut idx = 0u64;
    for with_preamble in [false, true] {
        for len in 1..=max_len {
            for code in 0..k.pow(len as u32) {
                let mut c = code;
                let mut steps = Vec::new();
                let mut intents = Vec::new();
                if with_preamble {
                    steps.push(Step::Add(preamble.clone()));
                    intents.push("exhaustive.preamble".to_string());
                }
                for _ in 0..len {
                    let (n, s) = &alpha[c % k];
                    steps.push(s.clone());
                    intents.push(format!("exhaustive.{n}"));
                    c /= k;
                }
                out.push((History { prefixes: vec![], perm2: idx % 3, perm3: (idx / 3) % 3, steps, custom_delims: false }, intents));
                idx += 1;
            }
        }
    }
    // include / extends cycles closed through SHORT names that only resolve through a fallback
    // prefix: as one batch, and by a re-add that must fail and be rolled back
    {
        let plain = |n: &str| TplS::new(n);
        let inc = |n: &str, target: &str, tag: &str| {
            let mut t = TplS::new(n);
            t.top_includes.push(target.to_string());
            t.tag = tag.to_string();
            t
        };
        let ext = |n: &str, target: &str, tag: &str| {
            let mut t = TplS::new(n);
            t.parent = Some(target.to_string());
            t.tag = tag.to_string();
            t
        };
        for (steps, what) in [
            (vec![vec![inc("th/a", "a", "")]], "prefix_cycle.self_include_short"),
            (vec![vec![inc("th/a", "b", ""), inc("th/b", "a", "")]], "prefix_cycle.include_pair_short"),
            (vec![vec![plain("th/a")], vec![inc("th/b", "a", "")], vec![inc("th/a", "b", "v2")], vec![plain("c")]], "prefix_cycle.include_closed_by_readd_short"),
            (vec![vec![plain("th/a"), inc("th/b", "a", ""), inc("th/c", "b", "")], vec![inc("th/a", "c", "v2")], vec![inc("th/a", "th/c", "v3")]], "prefix_cycle.include_3_closed_by_readd"),
            (vec![vec![ext("th/a", "b", ""), ext("th/b", "a", "")]], "prefix_cycle.extends_pair_short"),
            (vec![vec![plain("th/a")], vec![ext("th/b", "a", "")], vec![ext("th/a", "b", "v2")]], "prefix_cycle.extends_closed_by_readd_short"),
        ] {
            let n = steps.len();
            out.push((History { prefixes: vec!["th/".into()], perm2: idx % 3, perm3: (idx / 3) % 3, steps: steps.into_iter().map(Step::Add).collect(), custom_delims: false }, vec![format!("exhaustive.{what}"); n]));
            idx += 1;
        }
    }
    // file-based reloads: a failing call that also lists an UNCHANGED file must leave the instance
    // identical (the unchanged template included)
    let item = |i: usize| -> TplS {
        match &alpha[i].1 {
            Step::Add(items) => {
                let mut t = items[0].clone();
                t.via_file = true;
                t
            }
            _ => unreachable!(),
        }
    };
    let (layout, page, page_missing_parent) = (item(0), item(1), item(2));
    let mut broken = TplS::new("c");
    broken.bad_ref = Some("filter".into());
    broken.via_file = true;
    let mut unparsable = TplS::new("e");
    unparsable.syntax_error = true;
    unparsable.via_file = true;
    let mut raw_layout = layout.clone();
    raw_layout.via_file = false;
    for (steps, what) in [
        (vec![vec![layout.clone(), page.clone()], vec![layout.clone(), broken.clone()], vec![layout.clone()], vec![page.clone(), unparsable.clone()]], "files.reload_with_unchanged_layout"),
        (vec![vec![layout.clone()], vec![page.clone()], vec![broken.clone(), layout.clone(), page.clone()], vec![layout.clone(), page_missing_parent.clone()]], "files.reload_with_unchanged_files"),
        (vec![vec![raw_layout.clone()], vec![layout.clone()], vec![layout.clone(), unparsable.clone()], vec![layout.clone(), broken.clone()]], "files.raw_then_file_then_failing_reload"),
    ] {
        let n = steps.len();
        for custom_delims in [false, true] {
            out.push((History { prefixes: vec![], perm2: idx % 3, perm3: (idx / 3) % 3, steps: steps.iter().cloned().map(Step::Add).collect(), custom_delims }, vec![format!("exhaustive.{what}{}", if custom_delims { ".custom_delimiters" } else { "" }); n]));
            idx += 1;
        }
    }
    out
}

// ---------------------------------------------------------------- model

fn request(h: &History) -> String {
    let mut s = format!("hist {} {} P {}", h.perm2, h.perm3, h.prefixes.len());
    for p in &h.prefixes {
        s.push(' ');
        s.push_str(p);
    }
    s.push_str(&format!(" S {}", h.steps.len()));
    for st in &h.steps {
        match st {
            Step::Add(items) => {
                s.push_str(&format!(" A {}", items.len()));
                for t in items {
                    if t.syntax_error {
                        s.push_str(&format!(" bad {}", t.name));
                    } else {
                        s.push_str(&format!(" good {}", t.wire()));
                    }
                }
            }
            Step::Escape(l) => {
                s.push_str(&format!(" E {}", l.len()));
                for x in l {
                    s.push(' ');
                    s.push_str(x);
                }
            }
        }
    }
    s
}

/// the model's (result, state) per step, or None when the answer is not of that form
fn parse_answer(line: &str, n_steps: usize) -> Option<Vec<(String, String)>> {
    if n_steps == 0 {
        return Some(vec![]);
    }
    let mut out = Vec::new();
    for seg in line.split(" | ") {
        let seg = seg.trim_end();
        let rest = seg.strip_prefix("R ")?;
        if let Some(pos) = rest.find(" S ") {
            out.push((rest[..pos].to_string(), rest[pos + 3..].trim().to_string()));
        } else if let Some(r) = rest.strip_suffix(" S") {
            out.push((r.to_string(), String::new()));
        } else {
            return None;
        }
    }
    (out.len() == n_steps).then_some(out)
}

/// steps at which model and implementation differ: (step, what)
fn model_diffs(recs: &[Rec], model: &[(String, String)]) -> Vec<(usize, String)> {
    let mut out = Vec::new();
    for (i, (r, (mr, ms))) in recs.iter().zip(model.iter()).enumerate() {
        let same_result = r.result == *mr || (r.result.starts_with("panic") && mr == "err panic");
        if !same_result {
            out.push((i, format!("result: implementation `{}` vs model `{}`", r.result, mr)));
        } else if r.state != *ms {
            out.push((i, format!("state after `{}`: implementation `{}` vs model `{}`", r.result, r.state, ms)));
        }
    }
    out
}

// ---------------------------------------------------------------- shrinking

fn simplifications(t: &TplS) -> Vec<TplS> {
    let mut v = Vec::new();
    let mut push = |f: &dyn Fn(&mut TplS)| {
        let mut d = t.clone();
        f(&mut d);
        if &d != t {
            v.push(d);
        }
    };
    push(&|d| d.parent = None);
    push(&|d| d.blocks.clear());
    push(&|d| d.comps.clear());
    push(&|d| d.comp_calls.clear());
    push(&|d| d.top_includes.clear());
    push(&|d| d.bad_ref = None);
    push(&|d| d.tag.clear());
    for i in 0..t.blocks.len() {
        let name = t.blocks[i].name.clone();
        push(&|d| {
            d.blocks.remove(i);
            d.blocks.retain(|b| b.nested_in.as_deref() != Some(name.as_str()));
        });
        push(&|d| d.blocks[i].calls_super = false);
        push(&|d| d.blocks[i].includes.clear());
    }
    for i in 0..t.comps.len() {
        push(&|d| {
            d.comps.remove(i);
        });
        push(&|d| d.comps[i].includes.clear());
    }
    for i in 0..t.comp_calls.len() {
        push(&|d| {
            d.comp_calls.remove(i);
        });
    }
    for i in 0..t.top_includes.len() {
        push(&|d| {
            d.top_includes.remove(i);
        });
    }
    v
}

fn variants(h: &History) -> Vec<History> {
    let mut v = Vec::new();
    for i in (0..h.steps.len()).rev() {
        if h.steps.len() > 1 {
            let mut d = h.clone();
            d.steps.remove(i);
            v.push(d);
        }
    }
    for (i, s) in h.steps.iter().enumerate() {
        if let Step::Add(items) = s {
            if items.len() > 1 {
                for k in 0..items.len() {
                    let mut d = h.clone();
                    if let Step::Add(it) = &mut d.steps[i] {
                        it.remove(k);
                    }
                    v.push(d);
                }
            }
        }
    }
    if !h.prefixes.is_empty() {
        let mut d = h.clone();
        d.prefixes.pop();
        v.push(d);
    }
    for (i, s) in h.steps.iter().enumerate() {
        match s {
            Step::Add(items) => {
                for (k, t) in items.iter().enumerate() {
                    for simpler in simplifications(t) {
                        let mut d = h.clone();
                        if let Step::Add(it) = &mut d.steps[i] {
                            it[k] = simpler;
                        }
                        v.push(d);
                    }
                }
            }
            Step::Escape(l) => {
                for k in 0..l.len() {
                    let mut d = h.clone();
                    if let Step::Escape(x) = &mut d.steps[i] {
                        x.remove(k);
                    }
                    v.push(d);
                }
            }
        }
    }
    v
}

/// greedy: keep any simpler history on which `fails` still holds
fn shrink(mut h: History, fails: &dyn Fn(&History) -> bool) -> History {
    let mut budget = 4000usize;
    loop {
        let mut progress = false;
        for d in variants(&h) {
            if budget == 0 {
                return h;
            }
            budget -= 1;
            if fails(&d) {
                h = d;
                progress = true;
                break;
            }
        }
        if !progress {
            return h;
        }
    }
}

// ---------------------------------------------------------------- reporting helpers

fn describe_step(s: &Step) -> serde_json::Value {
    match s {
        Step::Add(items) => {
            let call = if items.first().is_some_and(|t| t.via_file) { if items.len() == 1 { "add_template_file (source written to a file)" } else { "add_template_files (sources written to files)" } } else { "add_raw_templates" };
            serde_json::json!({call: items.iter().map(|t| (t.name.clone(), t.source())).collect::<Vec<_>>()})
        }
        Step::Escape(l) => serde_json::json!({"autoescape_on": l}),
    }
}

fn model_for(exe: &std::path::Path, h: &History) -> Result<Vec<(String, String)>, String> {
    let ans = driver::run_batch(exe, &[request(h)])?;
    parse_answer(&ans[0], h.steps.len()).ok_or_else(|| format!("unexpected answer of the model driver: {}", ans[0]))
}

fn replay_json(h: &History, run: &HistoryRun, model: Option<&Vec<(String, String)>>, detail: serde_json::Value) -> serde_json::Value {
    serde_json::json!({
        "history": h,
        "steps": h.steps.iter().map(describe_step).collect::<Vec<_>>(),
        "implementation": run.recs,
        "oracle_failures": run.failures,
        "model_request": request(h),
        "model": model.map(|m| m.iter().map(|(r, s)| serde_json::json!({"result": r, "state": s})).collect::<Vec<_>>()),
        "detail": detail,
        "rerun": "harness/target/release/c10 --replay <this file>",
    })
}

fn replay(path: &str, exe: &std::path::Path, thorough: bool) {
    let j: serde_json::Value = serde_json::from_str(&std::fs::read_to_string(path).expect("replay file")).expect("json");
    let j = if j.get("replay").is_some() { j["replay"].clone() } else { j };
    let h: History = serde_json::from_value(j["history"].clone()).expect("history");
    println!("prefixes: {:?}   model iteration orders: {} {}", h.prefixes, h.perm2, h.perm3);
    let model = model_for(exe, &h);
    if let Err(e) = &model {
        println!("model: {e}");
    }
    // first in a worker process: a history on which the engine aborts or hangs must not take the
    // replay down
    let probe = run_fixed_safe(&h, thorough);
    if let Some(f) = probe.failures.iter().find(|f| f.kind == "abort") {
        println!("implementation: {} — in a worker process, on the last call of the history below", f.desc);
        for (i, s) in h.steps.iter().enumerate() {
            println!("step {i}: {}", describe_step(s));
        }
        if let Ok(m) = &model {
            println!("model: {:?}", m.iter().map(|(r, _)| r.clone()).collect::<Vec<_>>());
        }
        return;
    }
    CUSTOM_DELIMS.with(|c| c.set(h.custom_delims));
    let mut runner = Runner::new(&h.prefixes, thorough);
    let mut observed: Vec<Vec<(String, String)>> = Vec::new();
    for s in &h.steps {
        runner.apply(s, "replay");
        observed.push(runner.snap.renders.clone());
    }
    runner.cleanup_files();
    let run = HistoryRun {
        history: h.clone(),
        intents: vec![],
        recs: runner.recs,
        failures: runner.failures,
        oracle_checks: runner.oracle_checks,
        stats: runner.stats,
        keys: runner.keys,
        exhaustive: false,
    };
    for (i, s) in h.steps.iter().enumerate() {
        println!("---- step {i}");
        match s {
            Step::Add(items) => {
                println!("add_raw_templates, {} item(s):", items.len());
                for t in items {
                    println!("    {:?}: {}", t.name, t.source());
                }
            }
            Step::Escape(l) => println!("autoescape_on({l:?})"),
        }
        let r = &run.recs[i];
        println!("implementation: {}", r.result);
        println!("         state: {}", r.state);
        if let Ok(m) = &model {
            println!("model         : {}", m[i].0);
            println!("         state: {}", m[i].1);
            println!("model agrees  : {}", model_diffs(&run.recs[i..=i], &m[i..=i]).is_empty());
        }
        println!("fresh instance given the current set ({} templates) in one batch: {}", r.set_size, r.fresh);
        if !r.identity.is_empty() {
            println!("failed call, observation before vs after: {}", r.identity);
        }
        if !r.escape.is_empty() {
            println!("autoescape_on changed: {}", r.escape);
        }
        if observed[i].iter().all(|(k, _)| k.starts_with("compdef")) && r.set_size > 0 {
            println!("observed: nothing rendered (the call graph of the stored templates has a cycle)");
        }
        for (k, v) in &observed[i] {
            println!("    observed {k} = {v}");
        }
    }
    println!("---- oracle failures: {}", run.failures.len());
    for f in &run.failures {
        println!("step {} [{}]: {}", f.step, f.kind, f.desc);
    }
    if let Ok(m) = &model {
        let d = model_diffs(&run.recs, m);
        println!("---- model disagreements: {}", d.len());
        for (i, what) in d {
            println!("step {i}: {what}");
        }
    }
}

// ---------------------------------------------------------------- worker processes

/// the jobs of a run: exhaustive short histories, then random histories (one PRNG)
fn build_jobs(seed: u64, thorough: bool) -> (Vec<Job>, usize, usize, usize, usize) {
    let max_steps = if thorough { 12 } else { 8 };
    let n_random = if thorough { 120_000 } else { 2000 };
    let exh_len = if thorough { 4 } else { 3 };
    let mut jobs: Vec<Job> = Vec::new();
    let exh = exhaustive_histories(exh_len);
    let n_exh = exh.len();
    for (h, intents) in exh {
        jobs.push(Job::Fixed(h, intents));
    }
    let mut rng = Rng::new(seed);
    for i in 0..n_random {
        jobs.push(Job::Random(rng.fork(), i as u64));
    }
    (jobs, n_exh, n_random, max_steps, exh_len)
}

fn start_watchdog(progress: std::sync::Arc<std::sync::atomic::AtomicU64>, secs: u64) {
    std::thread::spawn(move || {
        let t0 = Instant::now();
        loop {
            std::thread::sleep(std::time::Duration::from_millis(200));
            let last = progress.load(std::sync::atomic::Ordering::Relaxed);
            if t0.elapsed().as_millis() as u64 > last + secs * 1000 {
                std::process::exit(3);
            }
        }
    });
}

/// worker: runs the jobs `start, start + stride, … < hi`; everything that touches the engine
/// happens in workers.  `at <j>` announces a job, `<j> \t <HistoryRun as JSON>` ends it.
fn child_wave(thorough: bool, seed: u64, hi: usize, start: usize, stride: usize, attempt_file: &str) {
    use std::io::Write;
    let _ = ATTEMPT_FILE.set(std::path::PathBuf::from(attempt_file));
    let (jobs, _, _, max_steps, _) = build_jobs(seed, thorough);
    let progress = std::sync::Arc::new(std::sync::atomic::AtomicU64::new(0));
    start_watchdog(progress.clone(), 30);
    let t0 = Instant::now();
    let stdout = std::io::stdout();
    let mut w = std::io::BufWriter::new(stdout.lock());
    let mut j = start;
    while j < hi.min(jobs.len()) {
        progress.store(t0.elapsed().as_millis() as u64, std::sync::atomic::Ordering::Relaxed);
        writeln!(w, "at {j}").unwrap();
        w.flush().unwrap();
        let run = match &jobs[j] {
            Job::Fixed(h, intents) => run_fixed(h, intents, thorough, true),
            Job::Random(rng, i) => run_random(rng.clone(), *i, max_steps, thorough),
        };
        writeln!(w, "{j}\t{}", serde_json::to_string(&run).unwrap()).unwrap();
        j += stride;
    }
    w.flush().unwrap();
}

/// worker: runs the history of a file
fn child_one(path: &str, thorough: bool) {
    let h: History = serde_json::from_str(&std::fs::read_to_string(path).expect("history file")).expect("history json");
    let progress = std::sync::Arc::new(std::sync::atomic::AtomicU64::new(0));
    start_watchdog(progress, 30);
    println!("{}", serde_json::to_string(&run_fixed(&h, &[], thorough, false)).unwrap());
}

/// run this binary as a child with a deadline: (status, stdout)
fn run_child(args: &[String], timeout: std::time::Duration) -> (String, String) {
    use std::io::Read;
    use std::process::{Command, Stdio};
    let exe = std::env::current_exe().expect("own path");
    let mut child = Command::new(exe).args(args).stdin(Stdio::null()).stdout(Stdio::piped()).stderr(Stdio::null()).spawn().expect("spawn child");
    // (whatever happens to the child, the files it wrote for file-based registrations go away)
    let child_files = std::env::temp_dir().join(format!("tera_verif_c10_{}", child.id()));
    let mut stdout = child.stdout.take().unwrap();
    let reader = std::thread::spawn(move || {
        let mut s = String::new();
        let _ = stdout.read_to_string(&mut s);
        s
    });
    let t0 = Instant::now();
    let status = loop {
        match child.try_wait() {
            Ok(Some(st)) => break if st.success() { "exit0".to_string() } else if st.code() == Some(3) { "timeout (no answer within 30 s)".to_string() } else { format!("died {st}") },
            Ok(None) => {
                if t0.elapsed() > timeout {
                    let _ = child.kill();
                    let _ = child.wait();
                    break "timeout".to_string();
                }
                std::thread::sleep(std::time::Duration::from_millis(5));
            }
            Err(e) => break format!("wait failed {e}"),
        }
    };
    let _ = std::fs::remove_dir_all(&child_files);
    (status, reader.join().unwrap_or_default())
}

fn scratch_dir() -> std::path::PathBuf {
    let d = std::env::temp_dir().join(format!("c10-{}", std::process::id()));
    let _ = std::fs::create_dir_all(&d);
    d
}

struct WaveOut {
    /// (job index, run)
    runs: Vec<(usize, HistoryRun)>,
    /// (the calls the worker was making when it died, worker status)
    aborted: Vec<(History, String)>,
    notes: Vec<String>,
}

/// the jobs `lo..hi` in worker processes; a worker that dies is restarted after its culprit
fn run_wave(thorough: bool, seed: u64, lo: usize, hi: usize, threads: usize) -> WaveOut {
    let dir = scratch_dir();
    let per: Vec<WaveOut> = std::thread::scope(|s| {
        let hs: Vec<_> = (0..threads)
            .map(|k| {
                let dir = dir.clone();
                s.spawn(move || {
                    let mut out = WaveOut { runs: Vec::new(), aborted: Vec::new(), notes: Vec::new() };
                    let attempt = dir.join(format!("attempt-{k}.json"));
                    let mut start = lo + k;
                    while start < hi {
                        let _ = std::fs::remove_file(&attempt);
                        let a: Vec<String> = vec![
                            "--child".into(),
                            "wave".into(),
                            if thorough { "thorough".into() } else { "quick".into() },
                            seed.to_string(),
                            hi.to_string(),
                            start.to_string(),
                            threads.to_string(),
                            attempt.to_string_lossy().to_string(),
                        ];
                        let (status, text) = run_child(&a, std::time::Duration::from_secs(if thorough { 3000 } else { 300 }));
                        let mut last_at: Option<usize> = None;
                        for line in text.lines() {
                            if let Some(rest) = line.strip_prefix("at ") {
                                last_at = rest.parse().ok();
                                continue;
                            }
                            let Some((j, json)) = line.split_once('\t') else { continue };
                            let Ok(j) = j.parse::<usize>() else { continue };
                            match serde_json::from_str::<HistoryRun>(json) {
                                Ok(run) => {
                                    if last_at == Some(j) {
                                        last_at = None;
                                    }
                                    out.runs.push((j, run));
                                }
                                Err(e) => out.notes.push(format!("worker {k}: unreadable result of job {j}: {e}")),
                            }
                        }
                        if status == "exit0" {
                            break;
                        }
                        match last_at {
                            Some(j) => {
                                match std::fs::read_to_string(&attempt).ok().and_then(|t| serde_json::from_str::<History>(&t).ok()) {
                                    Some(h) => out.aborted.push((h, status.clone())),
                                    None => out.notes.push(format!("worker {k} {status} on job {j} before any call on the engine was recorded")),
                                }
                                if out.aborted.len() >= 4 {
                                    out.notes.push(format!("worker {k}: given up after 4 culprits, jobs from {} on (stride {threads}, up to {hi}) were not run", j + threads));
                                    break;
                                }
                                start = j + threads;
                            }
                            None => {
                                out.notes.push(format!("worker {k} ended abnormally ({status}) without naming a job"));
                                break;
                            }
                        }
                    }
                    out
                })
            })
            .collect();
        hs.into_iter().map(|h| h.join().unwrap()).collect()
    });
    let mut all = WaveOut { runs: Vec::new(), aborted: Vec::new(), notes: Vec::new() };
    for o in per {
        all.runs.extend(o.runs);
        all.aborted.extend(o.aborted);
        all.notes.extend(o.notes);
    }
    all.runs.sort_by_key(|r| r.0);
    all
}

/// `run_fixed` in a worker process: when the engine aborts or hangs the run carries one failure
/// of kind "abort" (the parent never calls the engine on a generated history)
fn run_fixed_safe(h: &History, thorough: bool) -> HistoryRun {
    let path = scratch_dir().join(format!("one-{:?}.json", std::thread::current().id()).replace(['(', ')'], ""));
    std::fs::write(&path, serde_json::to_string(h).unwrap()).unwrap();
    let (status, text) = run_child(
        &["--child".into(), "one".into(), path.to_string_lossy().to_string(), if thorough { "thorough".into() } else { "quick".into() }],
        std::time::Duration::from_secs(90),
    );
    let _ = std::fs::remove_file(&path);
    if status == "exit0" {
        if let Ok(run) = serde_json::from_str::<HistoryRun>(text.trim()) {
            return run;
        }
    }
    HistoryRun {
        history: h.clone(),
        intents: vec![],
        recs: vec![Rec { result: format!("no answer: worker {status}"), ..Default::default() }; h.steps.len()],
        failures: vec![Failure { step: h.steps.len().saturating_sub(1), kind: "abort".into(), desc: format!("the engine did not return (worker {status})") }],
        oracle_checks: 0,
        stats: BTreeMap::new(),
        keys: vec![],
        exhaustive: false,
    }
}

// ---------------------------------------------------------------- main

enum Job {
    Fixed(History, Vec<String>),
    Random(Rng, u64),
}

fn main() {
    if std::env::var("C10_LOUD").is_err() {
        quiet_panics();
    }
    let env = Env::from_env();
    let exe = driver::driver_path(&env.verif_dir, "drv_c10");
    let thorough = !env.quick();
    let args: Vec<String> = std::env::args().collect();
    if let Some(i) = args.iter().position(|a| a == "--child") {
        match args[i + 1].as_str() {
            "wave" => child_wave(args[i + 2] == "thorough", args[i + 3].parse().unwrap(), args[i + 4].parse().unwrap(), args[i + 5].parse().unwrap(), args[i + 6].parse().unwrap(), &args[i + 7]),
            "one" => child_one(&args[i + 2], args[i + 3] == "thorough"),
            _ => {}
        }
        return;
    }

    if let Some(path) = replay_path() {
        replay(&path, &exe, thorough);
        return;
    }

    let t0 = Instant::now();
    let mut report = Report::new("C10");
    let threads = std::thread::available_parallelism().map(|n| n.get()).unwrap_or(8).min(16);
    let (jobs, n_exh, n_random, max_steps, exh_len) = build_jobs(env.seed, thorough);

    // debugging aid: `C10_DUMP_HISTORY=<i>` prints the i-th random history of this seed / tier as
    // a replay file and stops
    if let Some(want) = std::env::var("C10_DUMP_HISTORY").ok().and_then(|s| s.parse::<u64>().ok()) {
        for j in &jobs {
            if let Job::Random(r, i) = j {
                if *i == want {
                    let run = run_random(r.clone(), *i, max_steps, thorough);
                    println!("{}", serde_json::to_string_pretty(&replay_json(&run.history, &run, None, serde_json::json!({"generated_as": run.intents}))).unwrap());
                }
            }
        }
        return;
    }

    let mut distinct: HashSet<u64> = HashSet::new();
    let mut oracle_failed: Vec<(History, Failure)> = Vec::new();
    let mut mismatched: Vec<(History, usize, String)> = Vec::new();
    let mut samples: Vec<serde_json::Value> = Vec::new();
    let mut exh_done = 0usize;
    let mut exh_compared = 0usize;
    let mut driver_error: Option<String> = None;

    let wave = 5000;
    let (mut t_impl, mut t_model) = (0f64, 0f64);
    let total_jobs = jobs.len();
    drop(jobs);
    let mut aborted: Vec<(History, String)> = Vec::new();
    let mut lo = 0usize;
    while lo < total_jobs {
        let hi = (lo + wave).min(total_jobs);
        let tw = Instant::now();
        let wave_out = run_wave(thorough, env.seed, lo, hi, threads);
        lo = hi;
        report.notes.extend(wave_out.notes.iter().cloned());
        aborted.extend(wave_out.aborted);
        let idxs: Vec<usize> = wave_out.runs.iter().map(|r| r.0).collect();
        let runs: Vec<HistoryRun> = wave_out.runs.into_iter().map(|r| r.1).collect();

        t_impl += tw.elapsed().as_secs_f64();
        let tw = Instant::now();
        // ---- the model's answers for this wave, in one call
        let reqs: Vec<String> = runs.iter().map(|r| request(&r.history)).collect();
        let answers = match driver::run_batch_parallel(&exe, &reqs, threads) {
            Ok(a) => Some(a),
            Err(e) => {
                driver_error.get_or_insert(e);
                None
            }
        };

        t_model += tw.elapsed().as_secs_f64();
        for (k, run) in runs.iter().enumerate() {
            let n = run.history.steps.len();
            report.evaluations += n as u64;
            report.oracle_checks += run.oracle_checks;
            report.oracle_failures += run.failures.len() as u64;
            report.count(if run.exhaustive { "histories.exhaustive" } else { "histories.random" });
            report.count(&format!("history.steps.{n}"));
            for (key, v) in &run.stats {
                report.count_n(key, *v);
            }
            for key in &run.keys {
                distinct.insert(*key);
            }
            if run.exhaustive {
                exh_done += 1;
            }
            for f in &run.failures {
                if oracle_failed.len() < 40 {
                    oracle_failed.push((run.history.clone(), f.clone()));
                }
            }
            let model = answers.as_ref().map(|a| parse_answer(&a[k], n));
            match &model {
                Some(Some(m)) => {
                    report.model_comparisons += n as u64;
                    if run.exhaustive {
                        exh_compared += 1;
                    }
                    let d = model_diffs(&run.recs, m);
                    report.model_disagreements += d.len() as u64;
                    if let Some((i, what)) = d.first() {
                        if mismatched.len() < 40 {
                            mismatched.push((run.history.clone(), *i, what.clone()));
                        }
                    }
                }
                Some(None) => {
                    report.model_comparisons += n as u64;
                    report.model_disagreements += n as u64;
                    if mismatched.len() < 40 {
                        mismatched.push((run.history.clone(), 0, format!("the model driver answered `{}`", answers.as_ref().unwrap()[k].chars().take(200).collect::<String>())));
                    }
                }
                None => {}
            }
            // a few real histories as samples: a long exhaustive one, and three random ones
            let gi = idxs[k];
            // (exhaustive #342 = a; b extends a; a extends b: an extends cycle made by a replacement)
            let wanted = gi == 342 || gi == n_exh || gi == n_exh + n_random / 2 || gi == n_exh + n_random - 1;
            if wanted {
                let m = model.clone().flatten();
                samples.push(serde_json::json!({
                    "prefixes": run.history.prefixes,
                    "steps": run.history.steps.iter().enumerate().map(|(i, s)| serde_json::json!({
                        "call": describe_step(s),
                        "generated_as": run.intents.get(i),
                        "implementation": run.recs[i].result,
                        "model": m.as_ref().map(|m| m[i].0.clone()),
                        "state": run.recs[i].state,
                        "templates_after": run.recs[i].set_size,
                        "fresh_instance": run.recs[i].fresh,
                    })).collect::<Vec<_>>(),
                }));
            }
        }
    }
    for s in samples {
        report.sample(s);
    }
    report.distinct_nontrivial = distinct.len() as u64;
    report.exhaustive = exh_done == n_exh && exh_compared == n_exh;
    if let Some(e) = &driver_error {
        report.notes.push(format!("model driver unavailable: {e}"));
        report.violation("model-mismatch", format!("model driver could not be run: {e}"), serde_json::json!({"stage": "driver", "error": e}));
    }

    // ---- calls that never returned (worker aborted or hung): shrink in workers, report
    report.oracle_failures += aborted.len() as u64;
    report.count_n("worker-death", aborted.len() as u64);
    for (k, (h, status)) in aborted.iter().enumerate().take(3) {
        let small = if k < 2 {
            shrink(h.clone(), &|d: &History| run_fixed_safe(d, thorough).failures.iter().any(|x| x.kind == "abort"))
        } else {
            h.clone()
        };
        let run = run_fixed_safe(&small, thorough);
        report.violation(
            "property",
            format!(
                "a registration call must end in Ok or Err and leave the instance usable: the engine did not return (worker {status}) on the last call of this history ({} steps, {} templates in the last batch)",
                small.steps.len(),
                match small.steps.last() { Some(Step::Add(items)) => items.len(), _ => 0 }
            ),
            replay_json(&small, &run, None, serde_json::json!({"oracle": "abort", "worker": status})),
        );
    }

    // ---- direct-oracle failures: shrink, report as violations of the property
    // (the first failure of each oracle, then further ones up to four reports in all)
    let mut order: Vec<usize> = Vec::new();
    let mut reported_kinds: BTreeSet<String> = BTreeSet::new();
    for (i, (_, f)) in oracle_failed.iter().enumerate() {
        if reported_kinds.insert(f.kind.clone()) {
            order.push(i);
        }
    }
    for i in 0..oracle_failed.len() {
        if !order.contains(&i) {
            order.push(i);
        }
    }
    for i in order.into_iter().take(4) {
        let (h, f) = &oracle_failed[i];
        let kind = f.kind.clone();
        let small = shrink(h.clone(), &|d: &History| run_fixed_safe(d, thorough).failures.iter().any(|x| x.kind == kind));
        let run = run_fixed_safe(&small, thorough);
        let model = model_for(&exe, &small).ok();
        let first = run.failures.iter().find(|x| x.kind == kind).cloned().unwrap_or_else(|| f.clone());
        let what = match kind.as_str() {
            "fresh" => "after this history the instance differs from a fresh instance given the same set of templates in one batch",
            "identity" => "a failed registration call changed the instance",
            "escape" => "autoescape_on did not set exactly the flags",
            "acceptance" => "whether a registration call succeeds depends on the history, not only on the resulting set",
            "cycle" => "a call that is invalid (it closes a cycle) did not fail",
            _ => "a registration call panicked",
        };
        report.violation("property", format!("{what}: step {}: {}", first.step, first.desc), replay_json(&small, &run, model.as_ref(), serde_json::json!({"oracle": kind, "original_failure": f})));
    }

    // ---- model disagreements: shrink; an oracle failure met on the way wins
    if oracle_failed.is_empty() {
        for (h, step, what) in mismatched.iter().take(3) {
            let found: RefCell<Option<(History, Failure)>> = RefCell::new(None);
            let small = shrink(h.clone(), &|d: &History| {
                let run = run_fixed_safe(d, thorough);
                if let Some(f) = run.failures.first() {
                    found.borrow_mut().get_or_insert((d.clone(), f.clone()));
                }
                match model_for(&exe, d) {
                    Ok(m) => !model_diffs(&run.recs, &m).is_empty(),
                    Err(_) => false,
                }
            });
            if let Some((d, f)) = found.into_inner() {
                let run = run_fixed_safe(&d, thorough);
                let model = model_for(&exe, &d).ok();
                report.oracle_failures += 1;
                report.violation(
                    "property",
                    format!("found while shrinking a model disagreement: step {} [{}]: {}", f.step, f.kind, f.desc),
                    replay_json(&d, &run, model.as_ref(), serde_json::json!({"oracle": f.kind})),
                );
                continue;
            }
            let run = run_fixed_safe(&small, thorough);
            let model = model_for(&exe, &small).ok();
            let diffs = model.as_ref().map(|m| model_diffs(&run.recs, m)).unwrap_or_default();
            let desc = diffs.first().map(|(i, w)| format!("step {i}: {w}")).unwrap_or_else(|| format!("step {step}: {what}"));
            report.violation(
                "model-mismatch",
                format!("registration history: {desc}"),
                replay_json(&small, &run, model.as_ref(), serde_json::json!({"stage": "correspondence:registry-history", "original": what})),
            );
        }
    }

    report.notes.push(format!("time: implementation runs and direct oracles {t_impl:.1} s, model driver {t_model:.1} s"));
    let num = report.histogram.get("add.success.numerator").copied().unwrap_or(0);
    let den = report.histogram.get("add.success.denominator").copied().unwrap_or(0);
    report.notes.push(format!(
        "{} exhaustive histories (all words of length <= {} over {} letters, from the empty instance and after a preamble batch) + {} random histories of <= {} steps; {} of {} add calls succeeded ({:.1} %); {:.1} s",
        n_exh,
        exh_len,
        alphabet().len(),
        n_random,
        max_steps,
        num,
        den,
        if den > 0 { 100.0 * num as f64 / den as f64 } else { 0.0 },
        t0.elapsed().as_secs_f64()
    ));
    report.rule = "a (prefixes, steps so far, this step) case whose last step is an add_raw_templates call that reaches finalize_templates (no item of the batch has a syntax error, so every item is inserted and the multi-pass finalize / commit-or-undo runs); distinct by the full history prefix including every template summary".into();
    report.write(&out_path());
    let _ = std::fs::remove_dir_all(scratch_dir());
}
