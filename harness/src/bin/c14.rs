//! C14 — indexing and slicing follow Python semantics and respect character boundaries.
//!
//! Every case is evaluated through a real template (`{{ (x[a:b:c]) | probe }}` and friends; the
//! probe filter captures the resulting `Value`) and then
//!  * compared with the Lean model (`drv_c14`)                              — correspondence
//!  * judged by an oracle written here that follows CPython's own algorithm
//!    (`PySlice_Unpack` + `PySlice_AdjustIndices` + the copy loop of `list_subscript`, on
//!    `Py_ssize_t` = i64) and char-based expectations for strings             — the property itself
//! In the thorough tier (and on a small sample in quick) the Rust oracle is itself cross-checked
//! against the real `python3` (supporting evidence only).
use std::cell::RefCell;
use std::collections::HashSet;
use std::io::Write as _;
use std::sync::atomic::{AtomicBool, AtomicU64, Ordering};
use std::sync::Arc;
use std::time::{Duration, Instant};
use tera::{Context, Kwargs, State, Tera, Value};
use tera_verif_harness::report::{out_path, replay_path, Report};
use tera_verif_harness::rng::Rng;
use tera_verif_harness::wire::{decode, encode, hex};
use tera_verif_harness::{catch, driver, quiet_panics, Env};

thread_local! {
    static PROBE: RefCell<Option<Value>> = const { RefCell::new(None) };
    static PUSHED: RefCell<Vec<Value>> = const { RefCell::new(Vec::new()) };
}

// ---------------------------------------------------------------- cases

#[derive(Clone, Debug)]
enum Opnd {
    /// the variable is not in the context at all
    Missing,
    Val(Value),
}

impl Opnd {
    fn wire(&self) -> String {
        match self {
            Opnd::Missing => "U".into(),
            Opnd::Val(v) => encode(v),
        }
    }
    fn replay(&self) -> serde_json::Value {
        match self {
            Opnd::Missing => serde_json::json!("missing"),
            Opnd::Val(v) => serde_json::json!(encode(v)),
        }
    }
    fn from_replay(j: &serde_json::Value) -> Opnd {
        match j.as_str() {
            Some("missing") | None => Opnd::Missing,
            Some(s) => Opnd::Val(decode(s).expect("operand encoding")),
        }
    }
    fn val(&self) -> Value {
        match self {
            Opnd::Missing => Value::undefined(),
            Opnd::Val(v) => v.clone(),
        }
    }
}

#[derive(Clone, Copy, Debug, PartialEq, Eq)]
enum Kind {
    Idx,
    /// bit 0: start written, bit 1: stop written, bit 2: step written
    Slice(u8),
    Len,
    Rev,
    Iter,
    /// a `for` loop reading the item and loop.index / index0 / first / last / length, with an else branch
    ForMeta,
    /// identity list comprehension `[ch for ch in x]`: 0 itself, 1 `[..][a]`, 2 `[..][a:b:c]`, 3 `| length`, 4 `| join(sep="|")`
    Comp(u8),
    /// `truncate(length=a)` / `truncate(length=a, end=b)`
    Trunc(bool),
}

#[derive(Clone, Debug)]
struct Case {
    kind: Kind,
    opt: bool,
    x: Opnd,
    a: Opnd,
    b: Opnd,
    c: Opnd,
    stream: &'static str,
    /// bit 0: operands are written as literals in the template source; bit 1: so is the receiver
    lit: u8,
}

fn slice_src(form: u8, opt: bool) -> String {
    let br = if opt { "?[" } else { "[" };
    let a = if form & 1 != 0 { "a" } else { "" };
    let b = if form & 2 != 0 { "b" } else { "" };
    let tail = if form & 4 != 0 { ":c" } else { "" };
    format!("{{{{ (x{br}{a}:{b}{tail}]) | probe }}}}")
}

fn tpl_name(kind: Kind, opt: bool) -> String {
    match kind {
        Kind::Idx => format!("idx{}", opt as u8),
        Kind::Slice(f) => format!("sl{}_{}", f, opt as u8),
        Kind::Len => "len".into(),
        Kind::Rev => "rev".into(),
        Kind::Iter => "iter".into(),
        Kind::ForMeta => "formeta".into(),
        Kind::Comp(v) => format!("comp{v}"),
        Kind::Trunc(false) => "trunc".into(),
        Kind::Trunc(true) => "trunce".into(),
    }
}

fn tpl_src(kind: Kind, opt: bool) -> String {
    match kind {
        Kind::Idx => format!("{{{{ (x{}a]) | probe }}}}", if opt { "?[" } else { "[" }),
        Kind::Slice(f) => slice_src(f, opt),
        Kind::Len => "{{ x | length | probe }}".into(),
        Kind::Rev => "{{ x | reverse | probe }}".into(),
        Kind::Iter => "{% for ch in x %}{{ ch | push }}{% endfor %}".into(),
        Kind::ForMeta => "{% for ch in x %}{{ [ch, loop.index, loop.index0, loop.first, loop.last, loop.length] | push }}{% else %}{{ \"EMPTY\" | push }}{% endfor %}".into(),
        Kind::Comp(0) => "{{ ([ch for ch in x]) | probe }}".into(),
        Kind::Comp(1) => "{{ ([ch for ch in x][a]) | probe }}".into(),
        Kind::Comp(2) => "{{ ([ch for ch in x][a:b:c]) | probe }}".into(),
        Kind::Comp(3) => "{{ [ch for ch in x] | length | probe }}".into(),
        Kind::Comp(_) => "{{ [ch for ch in x] | join(sep=\"|\") | probe }}".into(),
        Kind::Trunc(false) => "{{ x | truncate(length=a) | probe }}".into(),
        Kind::Trunc(true) => "{{ x | truncate(length=a, end=b) | probe }}".into(),
    }
}

fn lit_text(o: &Opnd) -> Option<String> {
    match o {
        Opnd::Val(v) => v.as_i128().map(|i| i.to_string()),
        Opnd::Missing => None,
    }
}

fn recv_lit_text(o: &Opnd) -> Option<String> {
    let Opnd::Val(v) = o else { return None };
    if let Some(a) = v.as_array() {
        let parts: Option<Vec<String>> = a.iter().map(|e| e.as_i128().map(|i| i.to_string())).collect();
        Some(format!("[{}]", parts?.join(", ")))
    } else if let Some(s) = v.as_str() {
        if v.is_safe() || s.contains('"') || s.contains('\\') { None } else { Some(format!("\"{s}\"")) }
    } else {
        None
    }
}

/// The template a case is evaluated through: a pre-registered one with variables, or (literal
/// cases) a one-off source with the operands and/or the receiver written as literals.
fn case_src(c: &Case) -> String {
    if c.lit == 0 {
        return tpl_src(c.kind, c.opt);
    }
    let x = if c.lit & 2 != 0 { recv_lit_text(&c.x).unwrap_or_else(|| "x".into()) } else { "x".into() };
    let name = |n: &str, o: &Opnd| if c.lit & 1 != 0 { lit_text(o).unwrap_or_else(|| n.to_string()) } else { n.to_string() };
    let br = if c.opt { "?[" } else { "[" };
    match c.kind {
        Kind::Idx => format!("{{{{ ({x}{br}{}]) | probe }}}}", name("a", &c.a)),
        Kind::Slice(f) => {
            let a = if f & 1 != 0 { name("a", &c.a) } else { String::new() };
            let b = if f & 2 != 0 { name("b", &c.b) } else { String::new() };
            let tail = if f & 4 != 0 { format!(":{}", name("c", &c.c)) } else { String::new() };
            format!("{{{{ ({x}{br}{a}:{b}{tail}]) | probe }}}}")
        }
        _ => tpl_src(c.kind, c.opt),
    }
}

fn engine() -> Tera {
    let mut tera = Tera::default();
    // the probe returns a fixed string so that an undefined result can still be "rendered"
    tera.register_filter("probe", |v: Value, _: Kwargs, _: &State| {
        PROBE.with(|p| *p.borrow_mut() = Some(v));
        Value::from("")
    });
    tera.register_filter("push", |v: Value, _: Kwargs, _: &State| {
        PUSHED.with(|p| p.borrow_mut().push(v));
        Value::from("")
    });
    let mut tpls: Vec<(String, String)> = Vec::new();
    for opt in [false, true] {
        tpls.push((tpl_name(Kind::Idx, opt), tpl_src(Kind::Idx, opt)));
        for f in 0..8u8 {
            tpls.push((tpl_name(Kind::Slice(f), opt), tpl_src(Kind::Slice(f), opt)));
        }
    }
    for k in [Kind::Len, Kind::Rev, Kind::Iter, Kind::ForMeta, Kind::Comp(0), Kind::Comp(1), Kind::Comp(2), Kind::Comp(3), Kind::Comp(4), Kind::Trunc(false), Kind::Trunc(true)] {
        tpls.push((tpl_name(k, false), tpl_src(k, false)));
    }
    tera.add_raw_templates(tpls).expect("probe templates");
    tera
}

fn classify_err(msg: &str) -> String {
    let table: [(&str, &str); 15] = [
        ("Cannot index into an undefined value", "recv-undefined"),
        ("Cannot slice an undefined value", "recv-undefined"),
        ("Index expression is undefined", "index-undefined"),
        ("index must be an integer", "index-notint"),
        ("Slice start is undefined", "start-undefined"),
        ("Slice end is undefined", "stop-undefined"),
        ("Slice step is undefined", "step-undefined"),
        ("Slice start must be an integer", "start-notint"),
        ("Slice end must be an integer", "stop-notint"),
        ("Slice step must be an integer", "step-notint"),
        ("Slicing step cannot be 0", "step-zero"),
        ("Slicing can only be used on", "not-sliceable"),
        ("has no length", "no-length"),
        ("cannot be reversed", "not-reversible"),
        ("Iteration not possible", "not-iterable"),
    ];
    for (pat, class) in table {
        if msg.contains(pat) {
            return class.to_string();
        }
    }
    "other".to_string()
}

fn context_of(c: &Case) -> Context {
    let mut ctx = Context::new();
    for (name, o) in [("x", &c.x), ("a", &c.a), ("b", &c.b), ("c", &c.c)] {
        if let Opnd::Val(v) = o {
            ctx.insert_value(name, v.clone());
        }
    }
    ctx
}

/// "ok <wire>" | "err <class>" | "panic <msg>"
fn run_case(tera: &Tera, c: &Case) -> String {
    let ctx = context_of(c);
    PROBE.with(|p| *p.borrow_mut() = None);
    PUSHED.with(|p| p.borrow_mut().clear());
    let name = tpl_name(c.kind, c.opt);
    let res = if c.lit != 0 {
        let src = case_src(c);
        catch(std::panic::AssertUnwindSafe(|| tera.render_str(&src, &ctx, false)))
    } else {
        catch(std::panic::AssertUnwindSafe(|| tera.render(&name, &ctx)))
    };
    match res {
        Err(p) => format!("panic {p}"),
        Ok(Ok(_)) => {
            if c.kind == Kind::Iter || c.kind == Kind::ForMeta {
                let items = PUSHED.with(|p| std::mem::take(&mut *p.borrow_mut()));
                format!("ok {}", encode(&Value::from(items)))
            } else {
                match PROBE.with(|p| p.borrow_mut().take()) {
                    Some(v) => format!("ok {}", encode(&v)),
                    None => "noprobe".into(),
                }
            }
        }
        Ok(Err(e)) => {
            let msg = match e.kind() {
                tera::ErrorKind::RenderingError(r) => r.message().to_string(),
                _ => e.to_string(),
            };
            if std::env::var("C14_SHOW_MESSAGES").is_ok() {
                eprintln!("engine error message: {msg}");
            }
            format!("err {}", classify_err(&msg))
        }
    }
}

/// The operands as the compiler puts them on the VM stack: an unwritten start/stop is the
/// constant none, an unwritten step is the constant 1 (`LoadConst(1.into())`, an i64).
fn stack_operands(c: &Case) -> (String, String, String) {
    let Kind::Slice(f) = c.kind else { unreachable!() };
    let s = if f & 1 != 0 { c.a.wire() } else { "N".into() };
    let e = if f & 2 != 0 { c.b.wire() } else { "N".into() };
    let st = if f & 4 != 0 { c.c.wire() } else { "i64:1".into() };
    (s, e, st)
}

fn str_bytes(v: &Value) -> Option<Vec<u8>> {
    v.as_str().map(|s| s.as_bytes().to_vec())
}

/// Model requests for a case, each with what the implementation's answer looks like in the
/// driver's output format.
fn model_reqs(c: &Case, imp: &str) -> Vec<(String, String)> {
    let mut out = Vec::new();
    match c.kind {
        Kind::Idx => out.push((format!("idx {} {} {}", c.opt as u8, c.x.wire(), c.a.wire()), imp.to_string())),
        Kind::Slice(_) => {
            let (s, e, st) = stack_operands(c);
            out.push((format!("slice {} {} {} {} {}", c.opt as u8, c.x.wire(), s, e, st), imp.to_string()));
        }
        Kind::Len => out.push((format!("len {}", c.x.wire()), imp.to_string())),
        Kind::Rev => out.push((format!("rev {}", c.x.wire()), imp.to_string())),
        Kind::Comp(v) => {
            let x = c.x.wire();
            let req = match v {
                0 => Some(format!("comp {x}")),
                1 => Some(format!("compidx {x} {}", c.a.wire())),
                2 => Some(format!("compslice {x} {} {} {}", c.a.wire(), c.b.wire(), c.c.wire())),
                3 => Some(format!("complen {x}")),
                _ => c.x.val().as_str().map(|_| format!("compjoin {x}")),
            };
            if let Some(r) = req {
                out.push((r, imp.to_string()));
            }
        }
        Kind::ForMeta => {
            out.push((format!("for {}", c.x.wire()), imp.to_string()));
            let xv = c.x.val();
            if let Some(bytes) = str_bytes(&xv) {
                // byte-level loop model (iterator with its `remaining` counter): items as bytes + loop data
                let rows = imp.strip_prefix("ok ").and_then(decode);
                let exp = match rows.as_ref().and_then(|v| v.as_array()) {
                    Some(a) if bytes.is_empty() && a.len() == 1 && a[0].as_str() == Some("EMPTY") => "ok L0".to_string(),
                    Some(a) => {
                        let mut t = format!("ok L{}", a.len());
                        for row in a.iter() {
                            let f = row.as_array().map(|r| r.to_vec()).unwrap_or_default();
                            let g = |i: usize| f.get(i).cloned().unwrap_or_else(Value::undefined);
                            let bit = |v: Value| match v.as_bool() { Some(true) => "1", Some(false) => "0", None => "?" };
                            let num = |v: Value| v.as_u128().map(|n| n.to_string()).unwrap_or_else(|| "?".into());
                            t.push_str(&format!(" h:{}/{}/{}/{}/{}/{}", hex(g(0).as_str().map(|x| x.as_bytes()).unwrap_or(b"?")), num(g(1)), num(g(2)), bit(g(3)), bit(g(4)), num(g(5))));
                        }
                        t
                    }
                    None => imp.to_string(),
                };
                out.push((format!("forb h:{}", hex(&bytes)), exp));
            }
        }
        Kind::Iter => {
            let xv = c.x.val();
            if let Some(bytes) = str_bytes(&xv) {
                out.push((format!("iter {}", c.x.wire()), imp.to_string()));
                // byte-level iterator model: same items, as raw bytes
                let items = imp.strip_prefix("ok ").and_then(decode);
                let exp = match items.as_ref().and_then(|v| v.as_array()) {
                    Some(a) => {
                        let mut s = format!("ok L{}", a.len());
                        for it in a.iter() {
                            s.push_str(" h:");
                            s.push_str(&hex(it.as_str().map(|t| t.as_bytes()).unwrap_or(b"?")));
                        }
                        s
                    }
                    None => imp.to_string(),
                };
                out.push((format!("iterb h:{}", hex(&bytes)), exp));
            }
        }
        Kind::Trunc(has_end) => {
            let xv = c.x.val();
            let n = c.a.val().as_u128();
            let end = if has_end { c.b.val().as_str().map(|s| s.to_string()) } else { Some("…".to_string()) };
            if let (Some(bytes), Some(n), Some(end)) = (str_bytes(&xv), n, end) {
                if n <= u64::MAX as u128 {
                    out.push((
                        format!("trunc {} {} s:{}", c.x.wire(), n, hex(end.as_bytes())),
                        imp.to_string(),
                    ));
                    let exp = match imp.strip_prefix("ok ").and_then(decode).and_then(|v| str_bytes(&v)) {
                        Some(b) => format!("ok h:{}", hex(&b)),
                        None => imp.to_string(),
                    };
                    out.push((format!("truncb h:{} {} h:{}", hex(&bytes), n, hex(end.as_bytes())), exp));
                }
            }
        }
    }
    out
}

// ---------------------------------------------------------------- the Python oracle (independent of the model)

/// `_PyEval_SliceIndex`: clip an arbitrary integer to `Py_ssize_t`
fn clip_ssize(v: i128) -> i64 {
    if v > i64::MAX as i128 {
        i64::MAX
    } else if v < i64::MIN as i128 {
        i64::MIN
    } else {
        v as i64
    }
}

/// CPython's `PySlice_Unpack` + `PySlice_AdjustIndices` + the loop of `list_subscript`:
/// the positions selected by `seq[start:stop:step]` for a sequence of `len` elements.
/// `Err(())` is `ValueError: slice step cannot be zero`.
fn py_slice_positions(len: usize, start: Option<i128>, stop: Option<i128>, step: Option<i128>) -> Result<Vec<usize>, ()> {
    // PySlice_Unpack
    let step: i64 = match step {
        None => 1,
        Some(s) => {
            let s = clip_ssize(s);
            if s == 0 {
                return Err(());
            }
            if s < -i64::MAX { -i64::MAX } else { s }
        }
    };
    let mut start: i64 = match start {
        None => if step < 0 { i64::MAX } else { 0 },
        Some(v) => clip_ssize(v),
    };
    let mut stop: i64 = match stop {
        None => if step < 0 { i64::MIN } else { i64::MAX },
        Some(v) => clip_ssize(v),
    };
    // PySlice_AdjustIndices
    let length = len as i64;
    if start < 0 {
        start += length;
        if start < 0 {
            start = if step < 0 { -1 } else { 0 };
        }
    } else if start >= length {
        start = if step < 0 { length - 1 } else { length };
    }
    if stop < 0 {
        stop += length;
        if stop < 0 {
            stop = if step < 0 { -1 } else { 0 };
        }
    } else if stop >= length {
        stop = if step < 0 { length - 1 } else { length };
    }
    let slicelength: i64 = if step < 0 {
        if stop < start { (start - stop - 1) / (-step) + 1 } else { 0 }
    } else if start < stop {
        (stop - start - 1) / step + 1
    } else {
        0
    };
    // list_subscript: for (cur = start, i = 0; i < slicelength; cur += (size_t)step, i++)
    let mut out = Vec::with_capacity(slicelength as usize);
    let mut cur = start as u64;
    for _ in 0..slicelength {
        out.push(cur as usize);
        cur = cur.wrapping_add(step as u64);
    }
    Ok(out)
}

/// Python's `seq[i]` position: None = IndexError. `neg`/`mag` give the exact integer.
fn py_index_position(len: usize, neg: bool, mag: u128) -> Option<usize> {
    if !neg {
        if mag < len as u128 { Some(mag as usize) } else { None }
    } else if mag <= len as u128 {
        Some(len - mag as usize)
    } else {
        None
    }
}

#[derive(Clone, Debug, PartialEq)]
enum IntArg {
    /// not written / none
    Absent,
    /// an integer that fits i128
    In(i128),
    /// an integer above i128::MAX (u128 encoding)
    Huge(u128),
    Undefined,
    NotInt,
}

fn int_arg(o: &Opnd) -> IntArg {
    let v = match o {
        Opnd::Missing => return IntArg::Undefined,
        Opnd::Val(v) => v,
    };
    if v.is_undefined() {
        IntArg::Undefined
    } else if v.is_none() {
        IntArg::Absent
    } else if v.is_f64() || v.is_bool() || v.as_str().is_some() {
        IntArg::NotInt
    } else if let Some(i) = v.as_i128() {
        IntArg::In(i)
    } else if let Some(u) = v.as_u128() {
        IntArg::Huge(u)
    } else {
        IntArg::NotInt
    }
}

enum Recv {
    Arr(Vec<Value>),
    /// chars, safe flag
    Str(Vec<char>, bool),
    UndefOrNone,
    Other,
}

fn recv_of(o: &Opnd) -> Recv {
    let v = o.val();
    if v.is_undefined() || v.is_none() {
        Recv::UndefOrNone
    } else if let Some(a) = v.as_array() {
        Recv::Arr(a.to_vec())
    } else if let Some(s) = v.as_str() {
        Recv::Str(s.chars().collect(), v.is_safe())
    } else {
        Recv::Other
    }
}

fn want_string(chars: &[char], safe: bool) -> String {
    let s: String = chars.iter().collect();
    format!("ok {}", encode(&if safe { Value::safe_string(&s) } else { Value::normal_string(&s) }))
}

/// The property evaluated on the implementation's answer. `Ok(true)`: the property prescribes
/// the outcome and the answer complies; `Ok(false)`: the property leaves this case open;
/// `Err(d)`: violated.
fn oracle(c: &Case, imp: &str) -> Result<bool, String> {
    if imp.starts_with("panic") {
        return Err(format!("panic: {imp}"));
    }
    // every string that comes out must be valid text
    if let Some(v) = imp.strip_prefix("ok ").and_then(decode) {
        let mut stack = vec![v];
        while let Some(v) = stack.pop() {
            if let Some(s) = v.as_str() {
                if std::str::from_utf8(s.as_bytes()).is_err() {
                    return Err("result is not valid UTF-8".into());
                }
            } else if let Some(a) = v.as_array() {
                stack.extend(a.iter().cloned());
            }
        }
    } else if imp.starts_with("ok ") {
        return Err(format!("result cannot be decoded: {imp}"));
    }
    let is_err = imp.starts_with("err");
    match c.kind {
        Kind::Idx => {
            let recv = recv_of(&c.x);
            if c.opt && matches!(recv, Recv::UndefOrNone) {
                return if imp == "ok U" { Ok(true) } else { Err(format!("`?[` on none or undefined must be undefined, engine: {imp}")) };
            }
            let (len, want_at): (usize, Box<dyn Fn(usize) -> String>) = match recv {
                Recv::Arr(a) => (a.len(), Box::new(move |i| format!("ok {}", encode(&a[i])))),
                Recv::Str(s, safe) => (s.len(), Box::new(move |i| want_string(&s[i..i + 1], safe))),
                _ => return Ok(false),
            };
            match int_arg(&c.a) {
                IntArg::In(i) => {
                    let want = match py_index_position(len, i < 0, i.unsigned_abs()) {
                        Some(p) => want_at(p),
                        None => "ok U".into(),
                    };
                    if imp == want { Ok(true) } else { Err(format!("x[{i}] with len {len}: Python position gives `{want}`, engine `{imp}`")) }
                }
                IntArg::Huge(u) => {
                    if imp == "ok U" { Ok(true) } else { Err(format!("x[{u}] is out of range and must be undefined, engine `{imp}`")) }
                }
                IntArg::NotInt | IntArg::Absent | IntArg::Undefined => {
                    if is_err { Ok(true) } else { Err(format!("a non-integer index must be an error, engine `{imp}`")) }
                }
            }
        }
        Kind::Slice(f) => {
            let recv = recv_of(&c.x);
            if c.opt && matches!(recv, Recv::UndefOrNone) {
                return if imp == "ok U" { Ok(true) } else { Err(format!("`?[` on none or undefined must be undefined, engine: {imp}")) };
            }
            let args = [
                if f & 1 != 0 { int_arg(&c.a) } else { IntArg::Absent },
                if f & 2 != 0 { int_arg(&c.b) } else { IntArg::Absent },
                if f & 4 != 0 { int_arg(&c.c) } else { IntArg::Absent },
            ];
            let len = match &recv {
                Recv::Arr(a) => a.len(),
                Recv::Str(s, _) => s.len(),
                _ => return Ok(false),
            };
            if args.iter().any(|a| matches!(a, IntArg::NotInt | IntArg::Undefined)) {
                return if is_err { Ok(true) } else { Err(format!("a non-integer or undefined slice operand must be an error, engine `{imp}`")) };
            }
            let huge = args.iter().any(|a| matches!(a, IntArg::Huge(_)));
            let as_py = |a: &IntArg| match a {
                IntArg::In(i) => Some(*i),
                // Python clips anything above the ssize range the same way
                IntArg::Huge(_) => Some(i128::MAX),
                _ => None,
            };
            let pos = py_slice_positions(len, as_py(&args[0]), as_py(&args[1]), as_py(&args[2]));
            let want = match pos {
                Err(()) => None,
                Ok(ps) => Some(match &recv {
                    Recv::Arr(a) => format!("ok {}", encode(&Value::from(ps.iter().map(|&p| a[p].clone()).collect::<Vec<_>>()))),
                    Recv::Str(s, safe) => want_string(&ps.iter().map(|&p| s[p]).collect::<Vec<_>>(), *safe),
                    _ => unreachable!(),
                }),
            };
            match want {
                None => if is_err { Ok(true) } else { Err(format!("a zero step must be an error, engine `{imp}`")) },
                Some(w) => {
                    if imp == w {
                        Ok(true)
                    } else if huge && is_err {
                        // an operand above i128::MAX: the engine refuses it; the property is read as
                        // covering the integers the engine's slice accepts (i128)
                        Ok(false)
                    } else {
                        Err(format!("Python selects `{w}`, engine `{imp}`"))
                    }
                }
            }
        }
        Kind::Len => match recv_of(&c.x) {
            Recv::Arr(a) => if imp == format!("ok u64:{}", a.len()) { Ok(true) } else { Err(format!("length of a {}-element array: engine `{imp}`", a.len())) },
            Recv::Str(s, _) => if imp == format!("ok u64:{}", s.len()) { Ok(true) } else { Err(format!("length of a {}-char string: engine `{imp}`", s.len())) },
            _ => Ok(false),
        },
        Kind::Rev => match recv_of(&c.x) {
            Recv::Arr(a) => {
                let w = format!("ok {}", encode(&Value::from(a.iter().rev().cloned().collect::<Vec<_>>())));
                if imp == w { Ok(true) } else { Err(format!("reverse: want `{w}`, engine `{imp}`")) }
            }
            Recv::Str(s, _) => {
                // characters in reverse order; the property does not say whether the safe mark survives
                let w: String = s.iter().rev().collect();
                let got = imp.strip_prefix("ok ").and_then(decode);
                if got.as_ref().and_then(|v| v.as_str()) == Some(w.as_str()) { Ok(true) } else { Err(format!("reverse by characters: want {w:?}, engine `{imp}`")) }
            }
            _ => Ok(false),
        },
        Kind::Comp(v) => {
            // a comprehension over a string goes by characters and always builds a LIST
            let xv = c.x.val();
            let items: Vec<Value> = if let Some(s) = xv.as_str() {
                s.chars().map(|ch| Value::from(ch.to_string())).collect()
            } else if let Some(a) = xv.as_array() {
                a.to_vec()
            } else if let Some(b) = xv.as_bytes() {
                b.iter().map(|x| Value::from(*x as u64)).collect()
            } else {
                return Ok(false);
            };
            let list = Value::from(items.clone());
            match v {
                0 => {
                    let w = format!("ok {}", encode(&list));
                    if imp == w { Ok(true) } else { Err(format!("[ch for ch in x] must be the list of items `{w}`, engine `{imp}`")) }
                }
                1 => oracle(&Case { kind: Kind::Idx, x: Opnd::Val(list), ..c.clone() }, imp).map_err(|d| format!("[ch for ch in x][a] on the list of items: {d}")),
                2 => oracle(&Case { kind: Kind::Slice(7), x: Opnd::Val(list), ..c.clone() }, imp).map_err(|d| format!("[ch for ch in x][a:b:c] on the list of items: {d}")),
                3 => {
                    let w = format!("ok u64:{}", items.len());
                    if imp == w { Ok(true) } else { Err(format!("[ch for ch in x] | length: want `{w}`, engine `{imp}`")) }
                }
                _ => {
                    let Some(s) = xv.as_str() else { return Ok(false) };
                    let want: String = s.chars().map(|ch| ch.to_string()).collect::<Vec<_>>().join("|");
                    let got = imp.strip_prefix("ok ").and_then(decode);
                    if got.as_ref().and_then(|g| g.as_str()) == Some(want.as_str()) { Ok(true) } else { Err(format!("[ch for ch in x] | join(sep=\"|\"): want {want:?}, engine `{imp}`")) }
                }
            }
        }
        Kind::ForMeta => {
            // items by characters / elements / bytes, and the loop variables computed from the
            // number of characters (`chars().count()`), elements or bytes
            let xv = c.x.val();
            let items: Vec<Value> = if let Some(s) = xv.as_str() {
                s.chars().map(|ch| Value::from(ch.to_string())).collect()
            } else if let Some(a) = xv.as_array() {
                a.to_vec()
            } else if let Some(b) = xv.as_bytes() {
                b.iter().map(|x| Value::from(*x as u64)).collect()
            } else {
                return Ok(false);
            };
            let n = items.len();
            let want = if n == 0 {
                Value::from(vec![Value::from("EMPTY")])
            } else {
                Value::from(
                    items
                        .into_iter()
                        .enumerate()
                        .map(|(k, it)| Value::from(vec![it, Value::from(k as u64 + 1), Value::from(k as u64), Value::from(k == 0), Value::from(k + 1 == n), Value::from(n as u64)]))
                        .collect::<Vec<_>>(),
                )
            };
            let w = format!("ok {}", encode(&want));
            if imp == w { Ok(true) } else { Err(format!("for loop over {n} items: want [item, loop.index, loop.index0, loop.first, loop.last, loop.length] = `{w}`, engine `{imp}`")) }
        }
        Kind::Iter => match recv_of(&c.x) {
            Recv::Str(s, _) => {
                let got = imp.strip_prefix("ok ").and_then(decode);
                let items: Option<Vec<String>> = got.as_ref().and_then(|v| v.as_array()).map(|a| a.iter().map(|i| i.as_str().unwrap_or("\u{0}<notstr>").to_string()).collect());
                let want: Vec<String> = s.iter().map(|c| c.to_string()).collect();
                if items.as_ref() == Some(&want) { Ok(true) } else { Err(format!("iteration by characters: want {want:?}, engine `{imp}`")) }
            }
            _ => Ok(false),
        },
        Kind::Trunc(has_end) => {
            let Recv::Str(s, _) = recv_of(&c.x) else { return Ok(false) };
            let IntArg::In(n) = int_arg(&c.a) else { return Ok(false) };
            if n < 0 || n > u64::MAX as i128 {
                return Ok(false);
            }
            let end: String = if has_end {
                match c.b.val().as_str() {
                    Some(e) => e.to_string(),
                    None => return Ok(false),
                }
            } else {
                "…".into()
            };
            let n = n as usize;
            let want: String = if n < s.len() { s[..n].iter().collect::<String>() + &end } else { s.iter().collect() };
            let got = imp.strip_prefix("ok ").and_then(decode);
            if got.as_ref().and_then(|v| v.as_str()) == Some(want.as_str()) { Ok(true) } else { Err(format!("truncate to {n} characters: want {want:?}, engine `{imp}`")) }
        }
    }
}

// ---------------------------------------------------------------- generators

const CHAR_POOL: [char; 18] = ['a', 'Z', '0', ' ', 'é', 'ß', 'λ', '€', '語', '\u{0301}', '\u{FFFD}', '😀', '𝄞', '\u{10FFFF}', '\r', '\n', '\t', '\0'];

/// receivers built around line endings and other control characters, on every seed
const DIRECTED_STRINGS: [&str; 12] = ["a\r\nb", "\r\n", "\n\r", "x\r\n\r\ny", "é\r\n😀", "€\n\r𝄞\r\n", "\r\r\n\n", "\0\t\r\n", "\n", "\r", "語\r\n\u{0301}\r\nß", "\r\n\r\n\r\n"];

fn grid_string(len: usize, variant: usize) -> String {
    // mixes 1, 2, 3 and 4 byte characters; distinct characters so that positions are visible
    let base: [[char; 6]; 3] = [
        ['a', 'é', '€', '😀', 'b', 'λ'],
        ['𝄞', 'x', '語', 'ß', '\u{10FFFF}', 'q'],
        ['€', '😀', 'é', 'a', '語', '𝄞'],
    ];
    base[variant % 3][..len].iter().collect()
}

fn random_string(rng: &mut Rng, len: usize) -> String {
    // exactly `len` characters; CR LF pairs are put in on purpose now and then
    let mut cs: Vec<char> = Vec::with_capacity(len);
    while cs.len() < len {
        if cs.len() + 2 <= len && rng.chance(1, 10) {
            cs.push('\r');
            cs.push('\n');
        } else {
            cs.push(*rng.pick(&CHAR_POOL));
        }
    }
    cs.into_iter().collect()
}

fn random_elem(rng: &mut Rng) -> Value {
    match rng.below(8) {
        0 => Value::from(rng.range(-5, 5)),
        1 => Value::from("é€"),
        2 => Value::none(),
        3 => Value::from(vec![Value::from(1), Value::from("x")]),
        4 => Value::from(true),
        5 => Value::from(2.5),
        6 => Value::safe_string("<b>"),
        _ => Value::from(rng.next_u64()),
    }
}

fn distinct_array(len: usize) -> Value {
    Value::from((0..len).map(|k| Value::from(100 + k as i64)).collect::<Vec<_>>())
}

/// one of the encodings that can hold `v`, chosen by `sel`
fn enc_int(v: i128, sel: usize) -> Value {
    let mut cands: Vec<Value> = Vec::with_capacity(4);
    if let Ok(x) = i64::try_from(v) {
        cands.push(Value::from(x));
    }
    if let Ok(x) = u64::try_from(v) {
        cands.push(Value::from(x));
    }
    cands.push(Value::from(v));
    if let Ok(x) = u128::try_from(v) {
        cands.push(Value::from(x));
    }
    cands[sel % cands.len()].clone()
}

fn all_encodings(v: i128) -> Vec<Value> {
    let mut cands: Vec<Value> = Vec::with_capacity(4);
    if let Ok(x) = i64::try_from(v) {
        cands.push(Value::from(x));
    }
    if let Ok(x) = u64::try_from(v) {
        cands.push(Value::from(x));
    }
    cands.push(Value::from(v));
    if let Ok(x) = u128::try_from(v) {
        cands.push(Value::from(x));
    }
    cands
}

fn grid_bounds() -> Vec<Option<i128>> {
    let mut v: Vec<Option<i128>> = vec![None];
    v.extend((-9..=9).map(Some));
    v.extend([Some(1i128 << 63), Some(-(1i128 << 63)), Some(i128::MAX), Some(-i128::MAX), Some(i128::MIN)]);
    v
}

fn grid_steps() -> Vec<Option<i128>> {
    let mut v: Vec<Option<i128>> = vec![None];
    for k in 1..=4 {
        v.push(Some(k));
        v.push(Some(-k));
    }
    v.extend([Some(1i128 << 126), Some(-(1i128 << 126)), Some(i128::MAX), Some(-i128::MAX), Some(i128::MIN), Some(0)]);
    v
}

fn receivers_of_len(len: usize, variant: usize) -> [Value; 3] {
    let s = grid_string(len, variant);
    [distinct_array(len), Value::normal_string(&s), Value::safe_string(&s)]
}

fn slice_case(x: Value, s: Option<Value>, e: Option<Value>, st: Option<Value>, opt: bool, stream: &'static str) -> Case {
    let form = (s.is_some() as u8) | ((e.is_some() as u8) << 1) | ((st.is_some() as u8) << 2);
    let o = |v: Option<Value>| v.map(Opnd::Val).unwrap_or(Opnd::Missing);
    Case { kind: Kind::Slice(form), opt, x: Opnd::Val(x), a: o(s), b: o(e), c: o(st), stream, lit: 0 }
}

fn gen_grid(rng: &mut Rng, out: &mut Vec<Case>) {
    let bounds = grid_bounds();
    let steps = grid_steps();
    for len in 0..=6usize {
        for (ri, _) in [0, 1, 2].iter().enumerate() {
            // arrays and normal strings get the whole grid; safe strings every third point
            for (si, s) in bounds.iter().enumerate() {
                for (ei, e) in bounds.iter().enumerate() {
                    for (ti, st) in steps.iter().enumerate() {
                        if ri == 2 && (si + ei + ti) % 3 != 0 {
                            continue;
                        }
                        let sel = rng.next_u64() as usize;
                        let x = receivers_of_len(len, sel >> 8)[ri].clone();
                        let opt = sel % 8 == 0;
                        out.push(slice_case(
                            x,
                            s.map(|v| enc_int(v, sel >> 16)),
                            e.map(|v| enc_int(v, sel >> 24)),
                            st.map(|v| enc_int(v, sel >> 32)),
                            opt,
                            "grid.slice",
                        ));
                    }
                }
            }
        }
    }
}

fn gen_index_grid(out: &mut Vec<Case>) {
    let mut idx: Vec<Value> = Vec::new();
    for i in -12i128..=12 {
        idx.extend(all_encodings(i));
    }
    for i in [1i128 << 63, -(1i128 << 63), (1i128 << 63) - 1, 1i128 << 64, -(1i128 << 64), (1i128 << 64) + 1, i128::MAX, -i128::MAX, i128::MIN] {
        idx.extend(all_encodings(i));
    }
    idx.push(Value::from(1u128 << 127));
    idx.push(Value::from(u128::MAX));
    for len in 0..=8usize {
        for variant in 0..2 {
            for x in receivers_of_len(len.min(6), variant) {
                // arrays go up to 8, the fixed strings up to 6
                let x = if x.as_array().is_some() { distinct_array(len) } else { x };
                for i in &idx {
                    for opt in [false, true] {
                        out.push(Case { kind: Kind::Idx, opt, x: Opnd::Val(x.clone()), a: Opnd::Val(i.clone()), b: Opnd::Missing, c: Opnd::Missing, stream: "grid.index", lit: 0 });
                    }
                }
            }
        }
    }
}

fn odd_operand(rng: &mut Rng) -> Opnd {
    match rng.below(16) {
        0 => Opnd::Missing,
        1 => Opnd::Val(Value::undefined()),
        2 => Opnd::Val(Value::none()),
        3 => Opnd::Val(Value::from(1.0)),
        4 => Opnd::Val(Value::from(0.5)),
        5 => Opnd::Val(Value::from(f64::NAN)),
        6 => Opnd::Val(Value::from("1")),
        7 => Opnd::Val(Value::from(true)),
        8 => Opnd::Val(Value::from(vec![Value::from(1)])),
        9 => Opnd::Val(Value::bytes(vec![1u8])),
        10 => Opnd::Val(Value::from(u128::MAX - rng.below(3) as u128)),
        11 => Opnd::Val(Value::from((1u128 << 127) + rng.below(2) as u128)),
        _ => Opnd::Val(enc_int(rng.range(-8, 8) as i128, rng.below(4))),
    }
}

fn odd_receiver(rng: &mut Rng) -> Opnd {
    match rng.below(14) {
        0 => Opnd::Missing,
        1 => Opnd::Val(Value::undefined()),
        2 => Opnd::Val(Value::none()),
        3 => Opnd::Val(Value::from(7)),
        4 => Opnd::Val(Value::from(true)),
        5 => Opnd::Val(Value::from(1.5)),
        6 => Opnd::Val(Value::bytes(vec![1u8, 2, 3])),
        n => {
            let len = rng.below(7);
            Opnd::Val(receivers_of_len(len, n)[n % 3].clone())
        }
    }
}

/// operands of every kind: mostly valid receivers, with the occasional odd one
fn gen_kinds(rng: &mut Rng, n: usize, out: &mut Vec<Case>) {
    for _ in 0..n {
        let opt = rng.chance(1, 3);
        if rng.chance(1, 3) {
            out.push(Case { kind: Kind::Idx, opt, x: odd_receiver(rng), a: odd_operand(rng), b: Opnd::Missing, c: Opnd::Missing, stream: "kinds.index", lit: 0 });
        } else {
            let form = rng.below(8) as u8;
            // keep most operands integers so that the second and third operand checks are reached
            let pick = |rng: &mut Rng| if rng.chance(1, 2) { odd_operand(rng) } else { Opnd::Val(enc_int(rng.range(-8, 8) as i128, rng.below(4))) };
            let (a, b, c) = (pick(rng), pick(rng), pick(rng));
            out.push(Case { kind: Kind::Slice(form), opt, x: odd_receiver(rng), a, b, c, stream: "kinds.slice", lit: 0 });
        }
    }
}

/// operands and/or receivers written as literals in the template source
fn gen_literals(rng: &mut Rng, n: usize, out: &mut Vec<Case>) {
    for _ in 0..n {
        let len = rng.below(7);
        let x = if rng.chance(1, 2) { distinct_array(len) } else { Value::normal_string(&grid_string(len, rng.below(3))) };
        let lit = 1 + rng.below(3) as u8;
        // `?[` is only accepted after a name, not after a literal (a syntax matter, not C14's)
        let opt = lit & 2 == 0 && rng.chance(1, 6);
        let small = |rng: &mut Rng| Value::from(rng.range(-9, 9));
        if rng.chance(1, 4) {
            out.push(Case { kind: Kind::Idx, opt, x: Opnd::Val(x), a: Opnd::Val(small(rng)), b: Opnd::Missing, c: Opnd::Missing, stream: "literal.index", lit });
        } else {
            let s = rng.chance(2, 3).then(|| small(rng));
            let e = rng.chance(2, 3).then(|| small(rng));
            let st = rng.chance(2, 3).then(|| Value::from(*rng.pick(&[1i64, 2, 3, -1, -2, -3, 0, 7, -7])));
            let mut c = slice_case(x, s, e, st, opt, "literal.slice");
            c.lit = lit;
            out.push(c);
        }
    }
}

fn random_bound(rng: &mut Rng, len: usize) -> Option<i128> {
    let l = len as i128;
    match rng.below(10) {
        0 => None,
        1 => Some(rng.next_u128() as i128),
        2 => Some(*rng.pick(&[i128::MIN, i128::MAX, i128::MIN + 1, i128::MAX - 1, 1i128 << 64, -(1i128 << 64)])),
        3 => Some(l + rng.range(-2, 2) as i128),
        4 => Some(-l + rng.range(-2, 2) as i128),
        _ => Some(rng.range(-(l as i64) - 3, l as i64 + 3) as i128),
    }
}

fn random_step(rng: &mut Rng, len: usize) -> Option<i128> {
    match rng.below(10) {
        0 => None,
        1 => Some(rng.next_u128() as i128).filter(|s| *s != 0),
        2 => Some(*rng.pick(&[i128::MIN, i128::MAX, i128::MIN + 1, 1i128 << 64, -(1i128 << 64)])),
        3 => Some(len as i128 + rng.range(-1, 1) as i128).filter(|s| *s != 0),
        4 => Some(-(len as i128) + rng.range(-1, 1) as i128).filter(|s| *s != 0),
        _ => {
            let k = rng.range(1, 7) as i128;
            Some(if rng.chance(1, 2) { k } else { -k })
        }
    }
}

fn random_receiver(rng: &mut Rng, len: usize) -> Value {
    match rng.below(4) {
        0 => distinct_array(len),
        1 => Value::from((0..len).map(|_| random_elem(rng)).collect::<Vec<_>>()),
        2 => Value::normal_string(&random_string(rng, len)),
        _ => Value::safe_string(&random_string(rng, len)),
    }
}

fn gen_random(rng: &mut Rng, n: usize, max_len: usize, out: &mut Vec<Case>) {
    for _ in 0..n {
        let len = if rng.chance(1, 4) { rng.below(max_len + 1) } else { rng.below(max_len.min(24) + 1) };
        let x = random_receiver(rng, len);
        let opt = rng.chance(1, 6);
        if rng.chance(1, 5) {
            let i = random_bound(rng, len).unwrap_or(0);
            out.push(Case { kind: Kind::Idx, opt, x: Opnd::Val(x), a: Opnd::Val(enc_int(i, rng.below(4))), b: Opnd::Missing, c: Opnd::Missing, stream: "random.index", lit: 0 });
        } else {
            let s = random_bound(rng, len).map(|v| enc_int(v, rng.below(4)));
            let e = random_bound(rng, len).map(|v| enc_int(v, rng.below(4)));
            let st = random_step(rng, len).map(|v| enc_int(v, rng.below(4)));
            let mut c = slice_case(x, s, e, st, opt, "random.slice");
            // absent operands are sometimes written as a variable holding none
            if let Kind::Slice(f) = c.kind {
                let mut f2 = f;
                for (bit, slot) in [(1u8, 0), (2, 1), (4, 2)] {
                    if f & bit == 0 && rng.chance(1, 4) {
                        f2 |= bit;
                        match slot {
                            0 => c.a = Opnd::Val(Value::none()),
                            1 => c.b = Opnd::Val(Value::none()),
                            _ => c.c = Opnd::Val(Value::none()),
                        }
                    }
                }
                c.kind = Kind::Slice(f2);
            }
            out.push(c);
        }
    }
}

fn gen_text_ops(rng: &mut Rng, n_random: usize, max_len: usize, out: &mut Vec<Case>) {
    let mut strings: Vec<Value> = Vec::new();
    for len in 0..=6 {
        for variant in 0..3 {
            let s = grid_string(len, variant);
            strings.push(Value::normal_string(&s));
            strings.push(Value::safe_string(&s));
        }
    }
    for d in DIRECTED_STRINGS {
        strings.push(Value::normal_string(d));
        strings.push(Value::safe_string(d));
    }
    for _ in 0..n_random {
        let len = rng.below(max_len + 1);
        let s = random_string(rng, len);
        strings.push(if rng.chance(1, 3) { Value::safe_string(&s) } else { Value::normal_string(&s) });
    }
    let none = || Opnd::Missing;
    for s in &strings {
        let nchars = s.as_str().unwrap().chars().count();
        for kind in [Kind::Len, Kind::Rev, Kind::Iter, Kind::ForMeta, Kind::Comp(0), Kind::Comp(3), Kind::Comp(4)] {
            out.push(Case { kind, opt: false, x: Opnd::Val(s.clone()), a: none(), b: none(), c: none(), stream: "text", lit: 0 });
        }
        {
            let small = |rng: &mut Rng| if rng.chance(1, 5) { Value::none() } else { Value::from(rng.range(-4, 4)) };
            let i = Value::from(rng.range(-(nchars as i64) - 1, nchars as i64 + 1));
            out.push(Case { kind: Kind::Comp(1), opt: false, x: Opnd::Val(s.clone()), a: Opnd::Val(i), b: none(), c: none(), stream: "text.comprehension", lit: 0 });
            let st = Value::from(*rng.pick(&[1i64, 1, 2, -1, -1, -2, 3]));
            out.push(Case { kind: Kind::Comp(2), opt: false, x: Opnd::Val(s.clone()), a: Opnd::Val(small(rng)), b: Opnd::Val(small(rng)), c: Opnd::Val(st), stream: "text.comprehension", lit: 0 });
        }
        let mut ns: Vec<usize> = vec![0, 1, nchars.saturating_sub(1), nchars, nchars + 1, 1000];
        ns.push(rng.below(nchars + 2));
        ns.dedup();
        for n in ns {
            let nv = enc_int(n as i128, rng.below(4));
            out.push(Case { kind: Kind::Trunc(false), opt: false, x: Opnd::Val(s.clone()), a: Opnd::Val(nv.clone()), b: none(), c: none(), stream: "text", lit: 0 });
            let end = *rng.pick(&["", "...", "→", "😀!"]);
            out.push(Case { kind: Kind::Trunc(true), opt: false, x: Opnd::Val(s.clone()), a: Opnd::Val(nv), b: Opnd::Val(Value::from(end)), c: none(), stream: "text", lit: 0 });
        }
    }
    // arrays and other kinds through length / reverse / for
    for len in [0usize, 1, 2, 5, 9] {
        let a = Value::from((0..len).map(|_| random_elem(rng)).collect::<Vec<_>>());
        for kind in [Kind::Len, Kind::Rev] {
            out.push(Case { kind, opt: false, x: Opnd::Val(a.clone()), a: none(), b: none(), c: none(), stream: "text", lit: 0 });
        }
    }
    for len in [0usize, 1, 2, 3, 5, 9, 33] {
        let a = Value::from((0..len).map(|_| random_elem(rng)).collect::<Vec<_>>());
        out.push(Case { kind: Kind::ForMeta, opt: false, x: Opnd::Val(a.clone()), a: none(), b: none(), c: none(), stream: "text.loop-array", lit: 0 });
        let b = Value::bytes((0..len).map(|_| rng.below(256) as u8).collect::<Vec<u8>>());
        out.push(Case { kind: Kind::ForMeta, opt: false, x: Opnd::Val(b.clone()), a: none(), b: none(), c: none(), stream: "text.loop-bytes", lit: 0 });
        for x in [a.clone(), b] {
            for v in [0u8, 3] {
                out.push(Case { kind: Kind::Comp(v), opt: false, x: Opnd::Val(x.clone()), a: none(), b: none(), c: none(), stream: "text.comprehension", lit: 0 });
            }
            out.push(Case { kind: Kind::Comp(1), opt: false, x: Opnd::Val(x.clone()), a: Opnd::Val(Value::from(-1)), b: none(), c: none(), stream: "text.comprehension", lit: 0 });
            out.push(Case { kind: Kind::Comp(2), opt: false, x: Opnd::Val(x.clone()), a: Opnd::Val(Value::none()), b: Opnd::Val(Value::none()), c: Opnd::Val(Value::from(-2)), stream: "text.comprehension", lit: 0 });
        }
    }
    for v in [Value::from(3), Value::none(), Value::from(true), Value::bytes(vec![1u8, 2, 3])] {
        for kind in [Kind::Len, Kind::Rev, Kind::Comp(0)] {
            out.push(Case { kind, opt: false, x: Opnd::Val(v.clone()), a: none(), b: none(), c: none(), stream: "text.other", lit: 0 });
        }
    }
}

// ---------------------------------------------------------------- evaluation

struct Evaluated {
    imp: String,
    reqs: Vec<(String, String)>,
}

// ---- hang protection: a loop that does not end (e.g. a zero step that is not refused) must
// become an observation, not a stuck or out-of-memory check

static CUR: [AtomicU64; 64] = [const { AtomicU64::new(0) }; 64];
static START_MS: [AtomicU64; 64] = [const { AtomicU64::new(0) }; 64];

fn now_ms(t0: &Instant) -> u64 {
    t0.elapsed().as_millis() as u64
}

/// Run one case on its own thread; `None` when no answer arrives within `limit`.
fn run_case_guarded(tera: &Arc<Tera>, c: &Case, limit: Duration) -> Option<String> {
    let (tx, rx) = std::sync::mpsc::channel();
    let t = tera.clone();
    let c2 = c.clone();
    std::thread::spawn(move || {
        let _ = tx.send(run_case(&t, &c2));
    });
    rx.recv_timeout(limit).ok()
}

fn report_hang_and_exit(c: &Case, secs: f64) -> ! {
    let mut report = Report::new("C14");
    let d = format!("the engine gave no answer within {secs} s (loop that does not end) on `{}`", case_src(c));
    report.violation("property", d.clone(), replay_json(c, "hang", serde_json::json!({"oracle": d})));
    report.notes.push("run aborted at the first hanging case".into());
    report.write(&out_path());
    std::process::exit(0);
}

/// The cases whose handling guards the only unbounded loop (`step == 0`): evaluated first, one
/// at a time, each with a deadline.
fn canaries() -> Vec<Case> {
    let mut out = Vec::new();
    for zero in [Value::from(0i64), Value::from(0u64), Value::from(0i128), Value::from(0u128)] {
        for x in [distinct_array(1), Value::normal_string("é"), distinct_array(0)] {
            for opt in [false, true] {
                out.push(slice_case(x.clone(), None, None, Some(zero.clone()), opt, "canary"));
                out.push(slice_case(x.clone(), Some(Value::from(0)), Some(Value::from(1)), Some(zero.clone()), opt, "canary"));
                out.push(slice_case(x.clone(), Some(Value::from(0)), Some(Value::from(-1)), Some(zero.clone()), opt, "canary"));
            }
        }
    }
    out
}

fn evaluate_all(tera: &Tera, cases: &[Case], threads: usize) -> Vec<Evaluated> {
    let chunk = cases.len().div_ceil(threads).max(1);
    let t0 = Instant::now();
    let done = AtomicBool::new(false);
    const LIMIT_MS: u64 = 60_000;
    std::thread::scope(|s| {
        let (t0, done) = (&t0, &done);
        // watchdog: a case running for more than LIMIT_MS is reported and the run ends
        s.spawn(move || {
            while !done.load(Ordering::SeqCst) {
                std::thread::sleep(Duration::from_millis(50));
                for w in 0..64 {
                    let cur = CUR[w].load(Ordering::SeqCst);
                    if cur != 0 {
                        let st = START_MS[w].load(Ordering::SeqCst);
                        if now_ms(t0).saturating_sub(st) > LIMIT_MS && CUR[w].load(Ordering::SeqCst) == cur {
                            report_hang_and_exit(&cases[(cur - 1) as usize], LIMIT_MS as f64 / 1000.0);
                        }
                    }
                }
            }
        });
        let hs: Vec<_> = cases
            .chunks(chunk)
            .enumerate()
            .map(|(w, cs)| {
                s.spawn(move || {
                    let base = w * chunk;
                    let out = cs
                        .iter()
                        .enumerate()
                        .map(|(k, c)| {
                            START_MS[w % 64].store(now_ms(t0), Ordering::SeqCst);
                            CUR[w % 64].store((base + k + 1) as u64, Ordering::SeqCst);
                            let imp = run_case(tera, c);
                            CUR[w % 64].store(0, Ordering::SeqCst);
                            let reqs = model_reqs(c, &imp);
                            Evaluated { imp, reqs }
                        })
                        .collect::<Vec<_>>();
                    out
                })
            })
            .collect();
        let r = hs.into_iter().flat_map(|h| h.join().unwrap()).collect();
        done.store(true, Ordering::SeqCst);
        r
    })
}

fn replay_json(c: &Case, imp: &str, extra: serde_json::Value) -> serde_json::Value {
    let (form, has_end) = match c.kind {
        Kind::Slice(f) => (f as i64, false),
        Kind::Trunc(e) => (-1, e),
        Kind::Comp(v) => (v as i64, false),
        _ => (-1, false),
    };
    let kind = match c.kind {
        Kind::Idx => "idx",
        Kind::Slice(_) => "slice",
        Kind::Len => "len",
        Kind::Rev => "rev",
        Kind::Iter => "iter",
        Kind::ForMeta => "formeta",
        Kind::Comp(_) => "comp",
        Kind::Trunc(_) => "trunc",
    };
    serde_json::json!({
        "kind": kind, "form": form, "has_end": has_end, "optional": c.opt,
        "template": case_src(c), "lit": c.lit,
        "x": c.x.replay(), "a": c.a.replay(), "b": c.b.replay(), "c": c.c.replay(),
        "x_display": format!("{:?}", c.x.val().to_string()),
        "implementation": imp, "detail": extra, "stream": c.stream,
        "rerun": "harness/target/release/c14 --replay <this file>",
    })
}

fn case_from_replay(j: &serde_json::Value) -> Case {
    let kind = match j["kind"].as_str().unwrap() {
        "idx" => Kind::Idx,
        "slice" => Kind::Slice(j["form"].as_i64().unwrap() as u8),
        "len" => Kind::Len,
        "rev" => Kind::Rev,
        "iter" => Kind::Iter,
        "formeta" => Kind::ForMeta,
        "comp" => Kind::Comp(j["form"].as_i64().unwrap_or(0) as u8),
        "trunc" => Kind::Trunc(j["has_end"].as_bool().unwrap_or(false)),
        k => panic!("unknown kind {k}"),
    };
    Case {
        kind,
        opt: j["optional"].as_bool().unwrap_or(false),
        x: Opnd::from_replay(&j["x"]),
        a: Opnd::from_replay(&j["a"]),
        b: Opnd::from_replay(&j["b"]),
        c: Opnd::from_replay(&j["c"]),
        stream: "replay",
        lit: j["lit"].as_u64().unwrap_or(0) as u8,
    }
}

/// true when the case fails: the oracle rejects the implementation's answer (`want_oracle`) or
/// the model disagrees with it
fn fails(tera: &Tera, exe: &std::path::Path, c: &Case, want_oracle: bool) -> bool {
    let imp = run_case(tera, c);
    if want_oracle {
        return oracle(c, &imp).is_err();
    }
    let reqs = model_reqs(c, &imp);
    let lines: Vec<String> = reqs.iter().map(|r| r.0.clone()).collect();
    match driver::run_batch(exe, &lines) {
        Ok(ans) => ans.iter().zip(reqs.iter()).any(|(a, r)| *a != r.1 && !(r.1 == "err other" && a.starts_with("err "))),
        Err(_) => false,
    }
}

fn shrink_int(v: &Value) -> Vec<Value> {
    let mut out = Vec::new();
    if let Some(i) = v.as_i128() {
        for cand in [0, i / 2, i - i.signum(), i.signum() * 9] {
            if cand != i {
                out.push(if let Ok(x) = i64::try_from(cand) { Value::from(x) } else { Value::from(cand) });
            }
        }
    }
    out
}

/// Greedy shrinking: shorter receiver, operands towards zero, non-optional form.
fn shrink(tera: &Tera, exe: &std::path::Path, c: &Case, want_oracle: bool) -> Case {
    let mut best = c.clone();
    for _round in 0..40 {
        let mut cands: Vec<Case> = Vec::new();
        if let Opnd::Val(x) = &best.x {
            if let Some(a) = x.as_array() {
                if !a.is_empty() {
                    let mut c2 = best.clone();
                    c2.x = Opnd::Val(Value::from(a[..a.len() - 1].to_vec()));
                    cands.push(c2);
                    let mut c3 = best.clone();
                    c3.x = Opnd::Val(Value::from(a[..a.len() / 2].to_vec()));
                    cands.push(c3);
                }
            } else if let Some(s) = x.as_str() {
                let chars: Vec<char> = s.chars().collect();
                if !chars.is_empty() {
                    for keep in [chars.len() - 1, chars.len() / 2] {
                        let t: String = chars[..keep].iter().collect();
                        let mut c2 = best.clone();
                        c2.x = Opnd::Val(if x.is_safe() { Value::safe_string(&t) } else { Value::normal_string(&t) });
                        cands.push(c2);
                    }
                }
            }
        }
        for slot in 0..3 {
            let cur = match slot { 0 => &best.a, 1 => &best.b, _ => &best.c };
            if let Opnd::Val(v) = cur {
                for nv in shrink_int(v) {
                    let mut c2 = best.clone();
                    match slot { 0 => c2.a = Opnd::Val(nv), 1 => c2.b = Opnd::Val(nv), _ => c2.c = Opnd::Val(nv) };
                    cands.push(c2);
                }
            }
        }
        if best.opt {
            let mut c2 = best.clone();
            c2.opt = false;
            cands.push(c2);
        }
        match cands.into_iter().find(|c2| fails(tera, exe, c2, want_oracle)) {
            Some(c2) => best = c2,
            None => break,
        }
    }
    best
}

/// Cross-check of the Rust oracle against the real python3 (supporting evidence for the reading
/// of "what Python selects"). Returns (cases compared, first difference).
fn python_crosscheck(rng: &mut Rng, n: usize, exe: &std::path::Path, threads: usize) -> Result<(u64, Option<String>), String> {
    let mut lines = String::new();
    let mut wants: Vec<String> = Vec::new();
    let fmt = |v: Option<i128>| v.map(|i| i.to_string()).unwrap_or_else(|| "None".into());
    let bounds = grid_bounds();
    let steps = grid_steps();
    let mut push = |len: usize, s: Option<i128>, e: Option<i128>, st: Option<i128>| {
        lines.push_str(&format!("{len} {} {} {}\n", fmt(s), fmt(e), fmt(st)));
        wants.push(match py_slice_positions(len, s, e, st) {
            Ok(ps) => ps.iter().map(|p| p.to_string()).collect::<Vec<_>>().join(","),
            Err(()) => "ValueError".into(),
        });
    };
    for i in 0..n {
        if i % 2 == 0 {
            let len = rng.below(7);
            push(len, *rng.pick(&bounds), *rng.pick(&bounds), *rng.pick(&steps));
        } else {
            let len = rng.below(40);
            push(len, random_bound(rng, len), random_bound(rng, len), random_step(rng, len));
        }
    }
    // index positions too: "i <len> <idx>"
    let script = r#"
import sys
for line in sys.stdin:
    p = line.split()
    n = int(p[0]); a, b, c = [None if t == 'None' else int(t) for t in p[1:4]]
    try:
        print(','.join(str(v) for v in list(range(n))[a:b:c]))
    except ValueError:
        print('ValueError')
"#;
    let mut child = std::process::Command::new("python3")
        .arg("-c")
        .arg(script)
        .stdin(std::process::Stdio::piped())
        .stdout(std::process::Stdio::piped())
        .stderr(std::process::Stdio::null())
        .spawn()
        .map_err(|e| format!("python3 not runnable: {e}"))?;
    let mut stdin = child.stdin.take().unwrap();
    let payload = lines.clone();
    let w = std::thread::spawn(move || {
        let _ = stdin.write_all(payload.as_bytes());
    });
    let out = child.wait_with_output().map_err(|e| format!("python3 failed: {e}"))?;
    let _ = w.join();
    let text = String::from_utf8_lossy(&out.stdout);
    let got: Vec<&str> = text.lines().collect();
    if got.len() != wants.len() {
        return Err(format!("python3 answered {} lines for {} cases", got.len(), wants.len()));
    }
    let inputs: Vec<&str> = lines.lines().collect();
    for (i, (g, w)) in got.iter().zip(wants.iter()).enumerate() {
        if g != w {
            return Ok((wants.len() as u64, Some(format!("len/start/stop/step = `{}`: python3 `{g}`, Rust oracle `{w}`", inputs[i]))));
        }
    }
    // and the Lean specification (Spec/PySlice.lean, evaluated by the driver) against python3
    let spec_reqs: Vec<String> = inputs.iter().map(|l| format!("pyspec {l}")).collect();
    let spec = driver::run_batch_parallel(exe, &spec_reqs, threads)?;
    for (i, (g, sp)) in got.iter().zip(spec.iter()).enumerate() {
        let want = if *g == "ValueError" { "ValueError".to_string() } else { format!("ok {g}") };
        if sp.trim_end() != want.trim_end() {
            return Ok((wants.len() as u64, Some(format!("len/start/stop/step = `{}`: python3 `{g}`, Lean PySlice.select `{sp}`", inputs[i]))));
        }
    }
    Ok((wants.len() as u64, None))
}

#[derive(Default)]
struct Acc {
    distinct: HashSet<u64>,
    oracle_fails: Vec<(Case, String, String)>,
    mismatches: Vec<(Case, usize, String)>,
    reached: u64,
    total: u64,
    samples: Vec<serde_json::Value>,
    driver_down: bool,
}

fn hash_str(s: &str) -> u64 {
    use std::hash::{Hash, Hasher};
    let mut h = std::collections::hash_map::DefaultHasher::new();
    s.hash(&mut h);
    h.finish()
}

/// Evaluate a batch on the implementation and on the model, judge it with the oracle, and fold
/// the results into the report.
fn process_batch(tera: &Tera, exe: &std::path::Path, threads: usize, cases: Vec<Case>, report: &mut Report, acc: &mut Acc) {
    let evals = evaluate_all(tera, &cases, threads);

    // model answers
    let mut req_lines: Vec<String> = Vec::new();
    let mut req_owner: Vec<(usize, usize)> = Vec::new();
    for (i, ev) in evals.iter().enumerate() {
        for (k, r) in ev.reqs.iter().enumerate() {
            req_lines.push(r.0.clone());
            req_owner.push((i, k));
        }
    }
    let model = match driver::run_batch_parallel(exe, &req_lines, threads) {
        Ok(m) => m,
        Err(e) => {
            if !acc.driver_down {
                report.notes.push(format!("model driver unavailable: {e}"));
                report.violation("model-mismatch", format!("model driver could not be run: {e}"), serde_json::json!({"stage": "driver", "error": e}));
            }
            acc.driver_down = true;
            Vec::new()
        }
    };
    for (li, ans) in model.iter().enumerate() {
        let (i, k) = req_owner[li];
        report.model_comparisons += 1;
        // an error whose message the harness does not recognise is still an error: it agrees
        // with any error of the model (messages are not part of the property)
        if evals[i].reqs[k].1 == "err other" && ans.starts_with("err ") {
            report.count("model.error-message-not-recognised");
            continue;
        }
        if *ans != evals[i].reqs[k].1 {
            report.model_disagreements += 1;
            if acc.mismatches.len() < 50 {
                acc.mismatches.push((cases[i].clone(), k, ans.clone()));
            }
        }
    }

    // the property itself on the implementation's answers
    for (c, ev) in cases.iter().zip(evals.iter()) {
        report.evaluations += 1;
        acc.total += 1;
        let class = if ev.imp.starts_with("err") { ev.imp.clone() } else { ev.imp.split(' ').next().unwrap_or("").to_string() };
        let kind = match c.kind { Kind::Idx => "index", Kind::Slice(_) => "slice", Kind::Len => "length", Kind::Rev => "reverse", Kind::Iter => "for", Kind::ForMeta => "for-loop-vars", Kind::Comp(_) => "comprehension", Kind::Trunc(_) => "truncate" };
        report.count(&format!("outcome.{kind}.{class}"));
        report.count(&format!("stream.{}", c.stream));
        if let Kind::Slice(f) = c.kind {
            report.count(&format!("slice.form.{}{}", ["[:]", "[a:]", "[:b]", "[a:b]", "[::c]", "[a::c]", "[:b:c]", "[a:b:c]"][f as usize], if c.opt { "?" } else { "" }));
        }
        let bucket = |n: usize| if n <= 8 { n.to_string() } else if n <= 64 { "9-64".into() } else { "65+".to_string() };
        match recv_of(&c.x) {
            Recv::Arr(a) => report.count(&format!("receiver.array.len{}", bucket(a.len()))),
            Recv::Str(s, safe) => {
                report.count(&format!("receiver.{}string.len{}", if safe { "safe" } else { "" }, bucket(s.len())));
                if s.iter().any(|c| c.len_utf8() > 1) {
                    report.count("receiver.string.multibyte");
                }
            }
            Recv::UndefOrNone => report.count("receiver.none-or-undefined"),
            Recv::Other => report.count("receiver.other-kind"),
        }
        if ev.imp.starts_with("ok") {
            acc.reached += 1;
        }
        match oracle(c, &ev.imp) {
            Ok(true) => {
                report.oracle_checks += 1;
                let key = match ev.reqs.first() {
                    Some(r) => format!("{}|{}", c.lit, r.0),
                    None => format!("{}|{}|{}|{}|{}", case_src(c), c.x.wire(), c.a.wire(), c.b.wire(), c.c.wire()),
                };
                if acc.distinct.insert(hash_str(&key)) {
                    report.distinct_nontrivial += 1;
                }
            }
            Ok(false) => report.count("oracle.left-open"),
            Err(d) => {
                report.oracle_checks += 1;
                report.oracle_failures += 1;
                if acc.oracle_fails.len() < 50 {
                    acc.oracle_fails.push((c.clone(), ev.imp.clone(), d));
                }
            }
        }
    }
    if !cases.is_empty() {
        for i in [0usize, cases.len() / 3, cases.len() * 2 / 3, cases.len() - 1] {
            if acc.samples.len() < 12 {
                let (c, ev) = (&cases[i], &evals[i]);
                acc.samples.push(serde_json::json!({
                    "template": case_src(c), "x": c.x.wire(), "a": c.a.wire(), "b": c.b.wire(), "c": c.c.wire(),
                    "implementation": ev.imp, "model_request": ev.reqs.first().map(|r| r.0.clone()),
                }));
            }
        }
    }
}

fn main() {
    quiet_panics();
    let env = Env::from_env();
    let mut report = Report::new("C14");
    let tera = Arc::new(engine());
    let exe = driver::driver_path(&env.verif_dir, "drv_c14");

    if let Some(path) = replay_path() {
        let text = std::fs::read_to_string(&path).expect("replay file");
        let j: serde_json::Value = serde_json::from_str(&text).expect("replay json");
        // accepted shapes: the case itself, the file the check writes for a property violation
        // ({"replay": case}), or for a broken correspondence ({"no_longer_checks": [{"case": case}, ..]})
        let is_case = |v: &serde_json::Value| v.get("kind").and_then(|k| k.as_str()).is_some_and(|k| ["idx", "slice", "len", "rev", "iter", "formeta", "comp", "trunc"].contains(&k));
        let j = if is_case(&j) {
            j
        } else if is_case(&j["replay"]) {
            j["replay"].clone()
        } else {
            match j["no_longer_checks"].as_array().and_then(|a| a.iter().find(|e| is_case(&e["case"]))) {
                Some(e) => e["case"].clone(),
                None => {
                    println!("this replay file holds no C14 case (it names a proof or translator step that no longer checks):\n{text}");
                    return;
                }
            }
        };
        let c = case_from_replay(&j);
        let imp = match run_case_guarded(&tera, &c, Duration::from_secs(3)) {
            Some(i) => i,
            None => {
                println!("template: {}", case_src(&c));
                println!("x = {}  a = {}  b = {}  c = {}", c.x.wire(), c.a.wire(), c.b.wire(), c.c.wire());
                println!("implementation: hang (no answer within 3 s)");
                std::process::exit(0);
            }
        };
        let reqs = model_reqs(&c, &imp);
        println!("template: {}", case_src(&c));
        println!("x = {}  a = {}  b = {}  c = {}", c.x.wire(), c.a.wire(), c.b.wire(), c.c.wire());
        println!("implementation: {imp}");
        let lines: Vec<String> = reqs.iter().map(|r| r.0.clone()).collect();
        match driver::run_batch(&exe, &lines) {
            Ok(ans) => {
                for (a, r) in ans.iter().zip(reqs.iter()) {
                    println!("model request: {}\nmodel: {a}\nimplementation (same format): {}", r.0, r.1);
                }
            }
            Err(e) => println!("model driver unavailable: {e}"),
        }
        println!("oracle (Python semantics, characters): {:?}", oracle(&c, &imp));
        return;
    }

    let mut rng = Rng::new(env.seed);
    let threads = std::thread::available_parallelism().map(|n| n.get()).unwrap_or(8).min(16);

    // the zero-step guard first, one case at a time with a deadline
    for c in canaries() {
        if run_case_guarded(&tera, &c, Duration::from_secs(30)).is_none() {
            report_hang_and_exit(&c, 30.0);
        }
    }
    report.count_n("canary.zero-step-cases-answered", canaries().len() as u64);

    let mut acc = Acc::default();
    // batch 0: the exhaustive grids, operand kinds, literals, text operations
    {
        let mut cases: Vec<Case> = Vec::new();
        gen_grid(&mut rng, &mut cases);
        gen_index_grid(&mut cases);
        gen_kinds(&mut rng, env.budget(8_000, 100_000), &mut cases);
        gen_literals(&mut rng, env.budget(6_000, 100_000), &mut cases);
        gen_text_ops(&mut rng, env.budget(400, 8_000), env.budget(40, 300), &mut cases);
        process_batch(&tera, &exe, threads, cases, &mut report, &mut acc);
    }
    // random batches (bounded memory): quick 1 x 200k (receivers up to 160 elements), thorough 48 x 500k (up to 600) with longer receivers
    let (batches, per_batch, max_len) = if env.quick() { (1, 200_000, 160) } else { (48, 500_000, 600) };
    for _ in 0..batches {
        if acc.driver_down {
            break;
        }
        let mut cases: Vec<Case> = Vec::new();
        gen_random(&mut rng, per_batch, max_len, &mut cases);
        process_batch(&tera, &exe, threads, cases, &mut report, &mut acc);
    }
    report.count_n("reached-code-under-study.ok-results", acc.reached);
    report.count_n("reached-code-under-study.per-mille", if acc.total == 0 { 0 } else { acc.reached * 1000 / acc.total });

    // python3 cross-check of the oracle
    match python_crosscheck(&mut rng.fork(), env.budget(6_000, 400_000), &exe, threads) {
        Ok((n, None)) => {
            report.count_n("python3-crosscheck.cases-agreeing", n);
        }
        Ok((_, Some(d))) => {
            report.violation("model-mismatch", format!("python3 itself disagrees with the Rust oracle or the Lean specification: {d}"), serde_json::json!({"stage": "spec-and-oracle-vs-python3", "detail": d}));
        }
        Err(e) => report.notes.push(format!("python3 cross-check skipped: {e}")),
    }

    // violations: shrink, then report
    let mut seen_summaries: HashSet<String> = HashSet::new();
    for (c, imp0, d) in acc.oracle_fails.iter().take(4) {
        let small = shrink(&tera, &exe, c, true);
        let imp = run_case(&tera, &small);
        let d2 = oracle(&small, &imp).err().unwrap_or_else(|| d.clone());
        if seen_summaries.insert(d2.clone()) {
            report.violation("property", d2.clone(), replay_json(&small, &imp, serde_json::json!({"oracle": d2, "original_case": replay_json(c, imp0, serde_json::json!(null))})));
        }
    }
    if acc.oracle_fails.is_empty() && !acc.mismatches.is_empty() {
        // only the model disagrees: look for an input on which the property itself fails, around
        // the disagreeing cases, with ten times the quick random budget
        let mut burst: Vec<Case> = Vec::new();
        let mut brng = rng.fork();
        for (base, _, _) in acc.mismatches.iter().take(10) {
            for _ in 0..2_000 {
                let mut c2 = base.clone();
                for slot in 0..3 {
                    let o = match slot { 0 => &mut c2.a, 1 => &mut c2.b, _ => &mut c2.c };
                    if let Opnd::Val(v) = o {
                        if let Some(n) = v.as_i128() {
                            if brng.chance(1, 2) {
                                *o = Opnd::Val(enc_int(n.saturating_add(brng.range(-3, 3) as i128), brng.below(4)));
                            }
                        }
                    }
                }
                burst.push(c2);
            }
        }
        gen_random(&mut brng, 1_500_000, 60, &mut burst);
        let bevals = evaluate_all(&tera, &burst, threads);
        let found = burst.iter().zip(bevals.iter()).find_map(|(c, ev)| oracle(c, &ev.imp).err().map(|d| (c.clone(), d)));
        report.count_n("burst.cases", burst.len() as u64);
        if let Some((c, d)) = found {
            let small = shrink(&tera, &exe, &c, true);
            let imp = run_case(&tera, &small);
            let d2 = oracle(&small, &imp).err().unwrap_or(d);
            report.violation("property", d2.clone(), replay_json(&small, &imp, serde_json::json!({"oracle": d2, "found_by": "burst around a model disagreement"})));
        } else {
            for (c, k, ans) in acc.mismatches.iter().take(3) {
                let small = shrink(&tera, &exe, c, false);
                let imp = run_case(&tera, &small);
                let reqs = model_reqs(&small, &imp);
                let lines: Vec<String> = reqs.iter().map(|r| r.0.clone()).collect();
                let m = driver::run_batch(&exe, &lines).unwrap_or_default();
                let stage = match c.kind {
                    Kind::Idx => "correspondence:get_item",
                    Kind::Slice(_) => "correspondence:slice",
                    Kind::Len | Kind::Rev => "correspondence:len-reverse",
                    Kind::Iter | Kind::ForMeta | Kind::Comp(_) => "correspondence:string-iteration",
                    Kind::Trunc(_) => "correspondence:truncate",
                };
                // the shrunk case may disagree on another of its requests: report the first that does
                let kk = (0..reqs.len()).find(|&q| m.get(q).is_some_and(|a| *a != reqs[q].1)).unwrap_or(*k);
                report.violation(
                    "model-mismatch",
                    format!("model `{}` vs implementation `{}` on `{}`", m.get(kk).unwrap_or(ans), reqs.get(kk).map(|r| r.1.as_str()).unwrap_or(&imp), reqs.get(kk).map(|r| r.0.as_str()).unwrap_or("?")),
                    replay_json(&small, &imp, serde_json::json!({"stage": stage, "model": m, "requests": lines})),
                );
            }
        }
    }

    for smp in acc.samples.iter() {
        report.sample(smp.clone());
    }
    report.exhaustive = true;
    report.notes.push("exhaustive part: lengths 0..6 x start/stop in {absent, -9..9, +-2^63, +-(2^127-1), -2^127} x step in {absent, +-1..4, +-2^126, +-(2^127-1), -2^127, 0} on arrays and strings (every third point on safe strings); index grid lengths 0..8 x {-12..12, +-2^63, +-2^64, 128-bit extremes, u128 above i128} in every integer encoding".into());
    report.rule = "a case is one template evaluation x[i] / x?[i] / x[a:b:c] (all 8 written/unwritten forms, optional or not, operands as variables or literals) / length / reverse / for / truncate on an array or a string of 1-4 byte characters; it is non-trivial when the property prescribes its outcome (Python's selection, undefined, or an error) and the oracle checked it; distinct by the request line (operation, receiver, operands with their encodings)".into();
    report.write(&out_path());
}
