//! C07 (phase 2) — stage diff "real compiler vs Lean model of the compiler".
//!
//! For every template source the REAL parser's AST (`verif_hooks::compile_stage_wire`, kwargs in
//! the real compile order) is handed to the Lean model of the bytecode compiler (`drv_c07c`,
//! request `compile <template_wire>`); what the model emits must equal what the REAL compiler
//! emitted, instruction for instruction, for the main chunk, every block chunk, every component
//! chunk and the call tables (spans compared by presence only).
//!
//!  * second tie (independent of the Lean model, keeps the hook honest): for every template set
//!    that registers, `call_tables` / `stored_chunks_wire` of the registered template (with the
//!    optimisation pass switched off in this process) against the hook's tables / chunks;
//!  * on a mismatch: shrink, then look for a failure of the property itself on the real engine
//!    (optimisation ON, in a child process): renders under adversarial contexts must not panic,
//!    final stacks (0,0,0), every stored chunk passes the verified checker (`drv_c07 wf`), every
//!    call name is in the call tables; also on mutated neighbours of the shrunk source.
use std::collections::{BTreeMap, HashMap, HashSet};
use std::time::{Duration, Instant};
use tera::verif_hooks as hooks;
use tera::{Context, Delimiters, Tera};
use tera_verif_harness::bcgen::*;
use tera_verif_harness::childrun::{child_main, run_batch, Batch, Capped};
use tera_verif_harness::report::{out_path, replay_path, Report};
use tera_verif_harness::rng::Rng;
use tera_verif_harness::wire::{decode, hex};
use tera_verif_harness::{catch, driver, quiet_panics, Env};

const CHILD_FLAG: &str = "--child-oracle";
const BIN: &str = "c07c";

// ------------------------------------------------------------------------------ small helpers

fn unhex(s: &str) -> String {
    String::from_utf8(tera_verif_harness::wire::unhex(s).unwrap_or_default()).unwrap_or_else(|_| format!("hex:{s}"))
}

fn first_line(s: &str) -> String {
    s.lines().next().unwrap_or("").chars().take(200).collect()
}

fn clip(s: &str, n: usize) -> String {
    if s.chars().count() <= n { s.to_string() } else { format!("{}… ({} characters)", s.chars().take(n).collect::<String>(), s.chars().count()) }
}

fn par_map<T: Sync, R: Send>(items: &[T], threads: usize, f: impl Fn(usize, &T) -> R + Sync) -> Vec<R> {
    if items.is_empty() {
        return Vec::new();
    }
    let chunk = items.len().div_ceil(threads.max(1)).max(1);
    let f = &f;
    std::thread::scope(|s| {
        let hs: Vec<_> = items
            .chunks(chunk)
            .enumerate()
            .map(|(ci, c)| s.spawn(move || c.iter().enumerate().map(|(k, x)| f(ci * chunk + k, x)).collect::<Vec<R>>()))
            .collect();
        hs.into_iter().flat_map(|h| h.join().unwrap()).collect()
    })
}

fn split_tok(tok: &str) -> (&str, &str) {
    let head = tok.split_once('@').map(|x| x.0).unwrap_or(tok);
    head.split_once(':').unwrap_or((head, ""))
}

// ------------------------------------------------------------------------------ real side

struct Compiled {
    wire: String,
    chunks: Vec<(String, Vec<String>)>,
    tables: Vec<(String, Vec<String>)>,
}

enum RealOut {
    Compiled(Box<Compiled>),
    Rejected(String),
    Panic(String),
}

fn real_side(name: &str, src: &str) -> RealOut {
    match catch(std::panic::AssertUnwindSafe(|| hooks::compile_stage_wire(name, src, Delimiters::default()))) {
        Ok(Ok(st)) => RealOut::Compiled(Box::new(Compiled { wire: st.template_wire, chunks: st.chunks, tables: st.tables })),
        Ok(Err(e)) => RealOut::Rejected(catch(std::panic::AssertUnwindSafe(|| format!("{e}"))).unwrap_or_else(|p| format!("panic while displaying the error: {p}"))),
        Err(p) => RealOut::Panic(p),
    }
}

type Sections = Vec<(String, Vec<String>)>;

fn canon_tok(tok: &str) -> String {
    match tok.split_once('@') {
        Some((head, spans)) => format!("{head}@{}", if spans.is_empty() { "" } else { "s" }),
        None => format!("{tok}@"),
    }
}

fn canon_label(l: &str) -> String {
    if let Some(n) = l.strip_prefix("block:") {
        format!("block:{}", hex(n.as_bytes()))
    } else if let Some(n) = l.strip_prefix("component:") {
        format!("component:{}", hex(n.as_bytes()))
    } else {
        l.to_string()
    }
}

/// the real compiler's output in exactly the text form the driver answers with
fn canon_real(c: &Compiled) -> Sections {
    let mut out: Sections = Vec::new();
    for (l, toks) in &c.chunks {
        out.push((canon_label(l), toks.iter().map(|t| canon_tok(t)).collect()));
    }
    for (l, names) in &c.tables {
        let label = if l == "component" { "component_calls".to_string() } else { l.clone() };
        out.push((label, names.iter().map(|n| hex(n.as_bytes())).collect()));
    }
    out
}

fn sections_text(s: &Sections) -> String {
    s.iter().map(|(l, t)| if t.is_empty() { l.clone() } else { format!("{l} {}", t.join(" ")) }).collect::<Vec<_>>().join(" | ")
}

fn n_instructions(c: &Compiled) -> usize {
    c.chunks.iter().map(|(_, t)| t.len()).sum()
}

// ------------------------------------------------------------------------------ model side

enum Model {
    Ok { scoped: bool, sections: Sections },
    Panic(String),
    BadRequest,
    Garbage(String),
}

fn parse_model(line: &str) -> Model {
    let line = line.trim();
    if line == "bad-request" {
        return Model::BadRequest;
    }
    if let Some(site) = line.strip_prefix("panic") {
        return Model::Panic(site.trim().to_string());
    }
    let mut parts = line.split('|').map(|p| p.trim());
    let head = parts.next().unwrap_or("");
    let scoped = match head {
        "ok scoped=1" => true,
        "ok scoped=0" => false,
        _ => return Model::Garbage(clip(line, 300)),
    };
    let mut sections = Vec::new();
    for p in parts {
        let mut ws = p.split_whitespace();
        let Some(label) = ws.next() else { return Model::Garbage(clip(line, 300)) };
        sections.push((label.to_string(), ws.map(|w| w.to_string()).collect()));
    }
    Model::Ok { scoped, sections }
}

fn stage_of_label(label: &str) -> String {
    if label == "main" {
        "compile:main".into()
    } else if let Some(h) = label.strip_prefix("block:") {
        format!("compile:block:{}", unhex(h))
    } else if let Some(h) = label.strip_prefix("component:") {
        format!("compile:component:{}", unhex(h))
    } else {
        format!("compile:calls:{label}")
    }
}

/// stage without the block / component name (for capping reports by kind)
fn stage_kind(stage: &str) -> String {
    let p: Vec<&str> = stage.splitn(3, ':').collect();
    if p.len() == 3 && (p[1] == "block" || p[1] == "component") { format!("{}:{}", p[0], p[1]) } else { stage.to_string() }
}

/// None = agreement; Some((stage, what differs))
fn compare(real: &Sections, model_line: &str) -> Option<(String, String)> {
    match parse_model(model_line) {
        Model::BadRequest => Some(("compile:bad-request".into(), "the model driver cannot read the AST wire of a template the real parser accepted".into())),
        Model::Garbage(l) => Some(("compile:driver".into(), format!("unreadable driver answer: {l}"))),
        Model::Panic(site) => Some(("compile:panic".into(), format!("the model compiler panics at {site}; the real compiler did not"))),
        Model::Ok { scoped, sections } => {
            if !scoped {
                return Some(("compile:scoped".into(), "scoped=0: the model's syntactic precondition (break/continue only directly inside loops, no blocks inside component definitions) fails on an AST the real parser produced".into()));
            }
            let mut rl: Vec<&String> = real.iter().map(|s| &s.0).collect();
            let mut ml: Vec<&String> = sections.iter().map(|s| &s.0).collect();
            rl.sort();
            ml.sort();
            if rl != ml {
                return Some(("compile:sections".into(), format!("real sections {:?}, model sections {:?}", rl, ml)));
            }
            let m: HashMap<&String, &Vec<String>> = sections.iter().map(|(l, t)| (l, t)).collect();
            for (l, rt) in real {
                let mt = m[l];
                if rt != mt {
                    let k = rt.iter().zip(mt.iter()).position(|(a, b)| a != b).unwrap_or(rt.len().min(mt.len()));
                    return Some((
                        stage_of_label(l),
                        format!("first difference at index {k}: real {:?} model {:?} (lengths {} and {})", rt.get(k), mt.get(k), rt.len(), mt.len()),
                    ));
                }
            }
            None
        }
    }
}

// ------------------------------------------------------------------------------ engine

fn build(templates: &[(String, String)]) -> Result<Tera, String> {
    let r = catch(std::panic::AssertUnwindSafe(|| {
        let mut t = Tera::default();
        t.add_raw_templates(templates.iter().map(|(n, s)| (n.as_str(), s.as_str()))).map(|_| t)
    }));
    match r {
        Ok(Ok(t)) => Ok(t),
        Ok(Err(e)) => Err(catch(std::panic::AssertUnwindSafe(|| format!("{e}"))).unwrap_or_else(|p| format!("panic while displaying the error: {p}"))),
        Err(p) => Err(format!("panic {p}")),
    }
}

// ------------------------------------------------------------------------------ input streams

#[derive(Clone)]
struct TSet {
    stream: &'static str,
    origin: String,
    templates: Vec<(String, String)>,
}

fn split_multi_templates(body: &str) -> Vec<(String, String)> {
    body.split("$$ ")
        .skip(1)
        .map(|part| {
            let (name, rest) = part.split_once('\n').unwrap_or((part, ""));
            (name.trim_end_matches('\r').to_string(), rest.trim().to_string())
        })
        .collect()
}

fn walk(dir: &std::path::Path, out: &mut Vec<std::path::PathBuf>) {
    let Ok(rd) = std::fs::read_dir(dir) else { return };
    let mut entries: Vec<_> = rd.filter_map(|e| e.ok()).map(|e| e.path()).collect();
    entries.sort();
    for p in entries {
        if p.is_dir() {
            walk(&p, out);
        } else {
            out.push(p);
        }
    }
}

/// the repository's own snapshot inputs, bench and documentation templates
fn repo_sets(report: &mut Report) -> Vec<TSet> {
    let repo = std::path::PathBuf::from(std::env::var("REPO_DIR").unwrap_or_else(|_| "/repo".into()));
    let mut files = Vec::new();
    for d in ["parser_inputs", "rendering_inputs", "compiler_inputs", "lexer_inputs", "build_errors"] {
        walk(&repo.join("tera/src/snapshot_tests").join(d), &mut files);
    }
    let mut extra = Vec::new();
    walk(&repo.join("tera/benches"), &mut extra);
    walk(&repo.join("docs/templates"), &mut extra);
    files.extend(extra.into_iter().filter(|p| matches!(p.extension().and_then(|e| e.to_str()), Some("html" | "txt" | "tera" | "xml"))));
    let mut out = Vec::new();
    for p in files {
        let Ok(bytes) = std::fs::read(&p) else {
            report.count("repo.unreadable");
            continue;
        };
        if bytes.len() > 200_000 {
            report.count("repo.too_large");
            continue;
        }
        let Ok(text) = String::from_utf8(bytes) else {
            report.count("repo.not_utf8");
            continue;
        };
        let text = text.replace("\r\n", "\n");
        let rel = p.strip_prefix(&repo).unwrap_or(&p).display().to_string();
        let fname = p.file_name().map(|f| f.to_string_lossy().to_string()).unwrap_or_else(|| "f".into());
        report.count("repo.files");
        if text.contains("$$ ") {
            let tpls = split_multi_templates(&text);
            if !tpls.is_empty() {
                out.push(TSet { stream: "repo", origin: rel.clone(), templates: tpls });
            }
        }
        out.push(TSet { stream: "repo", origin: rel.clone(), templates: vec![(fname.clone(), text.clone())] });
        // every line of a file of one-line examples is a template of its own
        let lines: Vec<&str> = text.lines().filter(|l| !l.trim().is_empty() && !l.starts_with("$$ ")).collect();
        if lines.len() > 1 && lines.len() <= 400 {
            for (k, l) in lines.iter().enumerate() {
                if l.contains("{{") || l.contains("{%") {
                    out.push(TSet { stream: "repo-line", origin: format!("{rel}:{k}"), templates: vec![(format!("{fname}.l{k}"), l.to_string())] });
                }
            }
        }
    }
    out
}

// ------------------------------------------------------------------------------ directed stream

fn directed_helpers() -> Vec<(String, String)> {
    vec![
        (
            "dh".to_string(),
            "{% component Comp(a=1, b=2, c=3) %}[{{ a }}{{ b }}{{ c }}{{ body }}]{% endcomponent Comp %}\
             {% component Card(title=\"t\", ...rest) %}<{{ title }}{{ rest | length }}{{ body }}>{% endcomponent Card %}\
             {% component ui.btn(label: string = \"l\", n: integer = 1) %}{{ label }}{{ n }}{% endcomponent ui.btn %}"
                .to_string(),
        ),
        ("inc.html".to_string(), "inc{{ a }}".to_string()),
        ("base.html".to_string(), "B{% block k %}b{% block k2 %}n{% endblock k2 %}{% endblock k %}M{% block j %}{% endblock %}E".to_string()),
        ("mid.html".to_string(), "{% extends \"base.html\" %}{% block k %}m{{ super() }}{% endblock %}".to_string()),
    ]
}

/// every construct of the compiler at least once, in awkward shapes
fn directed_sources() -> Vec<String> {
    let mut v: Vec<String> = Vec::new();
    let mut add = |s: &str| v.push(s.to_string());
    // ---- calls with 0, 1, 2, 3, 5 kwargs (the compile order of several kwargs is the HashMap's)
    for call in [
        "a | upper", "a | upper()", "a | default(value=1)", "a | replace(from=\"a\", to=\"b\")", "a | truncate(length=2, end=\"..\", zz=1)",
        "a | replace(from=\"a\", to=b, k3=c, k4=[1, 2], k5={\"x\": a})", "a | indent(width=2, first=true, blank=false, w4=a.b, w5=a[0], w6=-1)",
        "a is defined", "a is divisible_by(divisor=2)", "a is containing(pat=\"x\", q=1)", "a is starting_with(pat=a, q=b, r=c)",
        "a is ending_with(pat=a ~ b, q=b | upper, r=c is defined, s=range(end=2), t=1 if a else 2)", "a is not defined", "a is not containing(pat=b, x=1)",
        "range(end=3)", "range(start=1, end=3)", "range(start=1, end=9, step_by=2)", "range(start=a, end=b, step_by=c, x=1, y=2)", "throw(message=\"m\")", "utcnow()",
        // nested calls inside kwarg values
        "a | default(value=b | default(value=range(end=3) | length), boolean=c is defined)",
        "range(start=1 if a else 2, end=[x for x in a if x] | length, step_by=a and b or 1)",
        "a | replace(from=b | replace(from=\"x\", to=\"y\"), to=c | replace(from=c | upper, to=a is string))",
        "a | get(key=\"k\", default=<Comp a={ a | default(value=1, boolean=true) }/>)",
        "a | join(sep=b if c else (a if b else c)) | upper | truncate(length=a or b and c, end=not a)",
        "range(end=range(end=range(end=2) | length, start=0) | length, start=a | default(value=0, boolean=b))",
        "a is divisible_by(divisor=b is divisible_by(divisor=c is odd, x=1), y=[a is even])",
        "a | default(value={\"k\": b | default(value=1), ...c}, boolean=[...a, b | upper])",
    ] {
        add(&format!("{{{{ {call} }}}}"));
        add(&format!("{{% if {call} %}}y{{% else %}}n{{% endif %}}"));
    }
    // ---- boolean operators, ternaries
    for e in [
        "a and b or c and not d", "a or b or c or d", "a and b and c and d", "(a or b) and (c or d)", "not (a and b)", "a and (b or c) and d", "not a or not b and not not c",
        "a or (b and (c or (d and a)))", "(a and b)[\"k\"] or c.d", "a and b | default(value=c or d)", "a if b else c", "a if b else c if d else e", "(a if b else c) if d else e",
        "a if (b if c else d) else e", "(a if b else c).x", "a if b and c else d or e", "[a if b else c, d if e else f]", "{\"k\": a if b else c}", "a ~ (b if c else d) ~ e",
        "(a or b) if (c and d) else (e or f)", "not a if b else not c", "-a if b else -c",
    ] {
        add(&format!("{{{{ {e} }}}}"));
    }
    // ---- arrays and maps, spreads
    for e in [
        "[]", "[1]", "[1, 2, 3]", "[1, ...a, 2]", "[...a]", "[...a, ...b]", "[[...a], [1, [2, ...b]]]", "[1, \"s\", true, none, 1.5, -2, a.b]", "[a and b, c or d]",
        "{}", "{\"a\": 1}", "{\"a\": 1, \"b\": [1, 2], \"c\": {\"d\": a}}", "{\"a\": 1, ...m}", "{...m}", "{...m, ...n, \"k\": [1, {\"x\": a, ...b}]}", "{1: a, true: b, \"s\": c}",
        "{\"k\": a and b, ...(m if c else n)}", "[...[1, 2], ...[x for x in a]]", "{\"a\": {\"b\": {\"c\": {...d}}}}", "[{...a}, {\"k\": [...b]}]", "{...a | default(value={})}",
        "{\"é😀\": \"ü\", \"\": \"\"}", "[-1, - 1, 1 - 1, -a, - -a]", "[1_000, 0.5, 1e3, 170141183460469231731687303715884105727, 18446744073709551616]",
        "[\"a\\nb\", 'single', `back`, \"q\\\"q\", \"t\\tt\"]", "[true, True, false, False, none, None, null]",
    ] {
        add(&format!("{{{{ {e} }}}}"));
        add(&format!("{{% set v = {e} %}}{{{{ v }}}}"));
    }
    // ---- subscripts, slices (every subset of start / end / step), optional forms
    for recv in ["a", "a.b", "a?.b", "(a | reverse)", "a[0]", "a?.b?.c", "range(end=5)"] {
        for sl in ["[:]", "[1:]", "[:2]", "[::3]", "[1:2]", "[1::3]", "[:2:3]", "[1:2:3]", "[::]", "[0]", "[-1]", "[b]", "[b:c:d]", "[b and c:]", "[:b if c else d]", "[\"k\"]", "[b[0]]", "[b[1:][0]]"] {
            add(&format!("{{{{ {recv}{sl} }}}}"));
            add(&format!("{{{{ {recv}?{sl} }}}}"));
        }
    }
    for e in ["a?.b", "a?.b.c", "a.b?.c?.d", "a?[0]?.x?[1:]", "a?.b?[c?.d]", "a.b.c.d.e", "a[\"b\"][\"c\"].d[0][1:2].e", "__tera_context", "__tera_context.a?.b", "loop.index", "a?[1:]?[::2]"] {
        add(&format!("{{{{ {e} }}}}"));
    }
    // ---- binary / unary operators
    for op in ["+", "-", "*", "/", "//", "%", "**", "~", "in", "not in", "<", "<=", ">", ">=", "==", "!=", "and", "or"] {
        add(&format!("{{{{ a {op} b }}}}"));
        add(&format!("{{{{ a {op} b {op} c }}}}"));
        add(&format!("{{{{ (a {op} 1) | str ~ (2 {op} b.c) }}}}"));
    }
    for e in ["-a", "not a", "-(a + b)", "not (a in b)", "- a ** 2", "a + b * c - d / e // f % g ** h", "(a + b) * (c - d)", "a ~ b ~ c ~ 1 ~ \"s\"", "a < b and b <= c or c > d and d >= e", "a == b != c", "1 + 2 * 3", "\"a\" ~ \"b\"", "a in [1, 2] and b not in {\"k\": 1}", "a | length + 1", "a | length * b | length", "-a | abs", "(-a) | abs", "not a is defined", "not (a is defined)"] {
        add(&format!("{{{{ {e} }}}}"));
    }
    // ---- list comprehensions
    for e in [
        "[x * 2 for x in items if x > 1]", "[k ~ v for k, v in m]", "[x for x in a]", "[x for x in a if x]", "[[y for y in x] for x in a]", "[x for x in [y for y in ys if y > 0]]",
        "[x if a > b else y for x in xs if x > 0]", "[name | upper for name in names | unique]", "[{\"k\": k, \"v\": v} for k, v in m if v is defined and k != \"x\"]",
        "[x for x in (a if c else b)]", "[<Comp a={x}/> for x in a]", "[x | default(value=a, boolean=b) for x in range(end=3, start=1)]", "[x and y or z for x in a if x or y and z]",
        "[x for x in a] | length", "[x for x in a][0]", "[x for x in a][1:]", "[...a, ...[x for x in b]]", "[[k, v] for k, v in m | default(value={})] | first", "[x for x in a if x is containing(pat=\"a\", k=1)]",
        "[[a for a in x if a] for x in [y for y in b if y] if x]",
    ] {
        add(&format!("{{{{ {e} }}}}"));
        add(&format!("{{% for z in {e} %}}{{{{ z }}}}{{% endfor %}}"));
    }
    // ---- component calls
    for e in [
        "{{ <Comp/> }}", "{{ <Comp /> }}", "{{ <Comp a={1} b={x}/> }}", "{{ <Comp a={1} b={x} c={[1, ...y]}/> }}", "{{ <Comp a b c/> }}", "{{ <Comp a=\"s\" b='t' c={a ~ b}/> }}", "{{ <Comp {...m}/> }}",
        "{{ <Comp {...m} a={1} {...n} b/> }}", "{{ <Card title=\"x\" k1={1} k2={2} k3={3} k4={4}/> }}", "{{ <ui.btn label=\"hello\\nworld\" n={ 1 + 2 }/> }}", "{{ <Comp a={ <Comp a={ <Comp/> }/> }/> }}",
        "{{ <Comp a={ a if b else c } b={ a and b } c={ [x for x in a if x] }/> }}", "{{ <Comp/> | upper }}", "{{ <Comp/> ~ <Card/> }}", "{{ [<Comp/>, <Card title={a}/>] }}", "{% set v = <Comp a={1}/> %}{{ v }}",
        "{% <Comp> %}{% </Comp> %}", "{% <Comp> %}body{% </Comp> %}", "{% <Comp a={1} b={x}> %}b{{ a }}{% </Comp> %}", "{% <Comp {...m} c=\"s\"> %}{% if a %}{{ b }}{% endif %}{% </Comp> %}",
        "{% <Card title={a}> %}{% for x in a %}{{ x }}{% if x %}{% break %}{% endif %}{% endfor %}{% </Card> %}", "{% <Comp> %}{% <Card> %}{% <ui.btn> %}deep{% </ui.btn> %}{% </Card> %}{{ <Comp/> }}{% </Comp> %}",
        "{% <Comp> %}{% block inbody %}blk{{ a }}{% endblock %}{% </Comp> %}", "{% <Comp> %}{% include \"inc.html\" %}{% set v %}x{% endset %}{{ v }}{% filter upper %}f{% endfilter %}{% </Comp> %}",
        "{% for x in a %}{% <Comp a={x}> %}{% for y in x %}{% if y %}{% continue %}{% endif %}{{ y }}{% endfor %}{% </Comp> %}{% endfor %}", "{% if a %}{% <Comp> %}a{% </Comp> %}{% else %}{% <Card> %}b{% </Card> %}{% endif %}",
        "{{ a | default(value=<Comp a={ b | default(value=<Card/>) }/>) }}", "{{ range(end=<Comp/> | length) }}",
    ] {
        add(e);
    }
    // ---- component definitions
    for e in [
        "{% component c1() %}{% endcomponent %}", "{% component c1() %}x{% endcomponent c1 %}{{ <c1/> }}", "{% component c1(a, b=1, c=\"s\", d=[], e={}, f=none, g=1.5, h=true) %}{{ a }}{{ b }}{% endcomponent %}",
        "{% component c1(a: string, b: integer = 1, c: map = {}, d: array = [1], e: bool = false, f: float = 0.5) %}{{ a }}{% endcomponent c1 %}", "{% component c1(a, ...rest) %}{{ rest | length }}{% endcomponent %}",
        "{% component c1(greeting: string) {\"css\": \"./a.css\", \"n\": 1} %}Hello{% endcomponent %}", "{% component x.y.z(label=\"hello\\nworld\") %}{{ label }}{% endcomponent x.y.z %}",
        "{% component c1(items) %}{% for i in items %}{% if i.x %}{{ i | upper | truncate(length=2, end=\"\") }}{% elif i.y %}{% include \"inc.html\" %}{% else %}{{ <c2 v={i}/> }}{% endif %}{% else %}none{% endfor %}{% endcomponent c1 %}{% component c2(v) %}{{ v }}{% <c1 items={[]}> %}b{% </c1> %}{% endcomponent c2 %}{{ <c1 items={a}/> }}",
        "{% component c1() %}{% set v | upper | replace(from=\"a\", to=\"b\") %}{{ body }}{% endset %}{{ v }}{% filter trim(pat=\"x\") %}{{ body }}{% endfilter %}{% endcomponent %}pre{% component c2() %}{{ <c1/> }}{{ range(end=2) }}{{ a is odd }}{% endcomponent %}post{{ <c2/> }}",
        "{% component c1(n) %}{% if n > 0 %}{{ n }}{{ <c1 n={n - 1}/> }}{% endif %}{% endcomponent c1 %}{{ <c1 n={3}/> }}", "{% component c1() %}{% for x in a %}{% for y in x %}{% if y %}{% break %}{% elif x %}{% continue %}{% endif %}{% endfor %}{% if x %}{% continue %}{% endif %}{% endfor %}{% endcomponent %}",
        "{% component c1() %}{% block inside %}x{% endblock %}{% endcomponent %}", "{% component c1() %}a{% endcomponent %}{% component c1() %}b{% endcomponent %}", "{% if a %}{% component c1() %}x{% endcomponent %}{% endif %}",
        "{% component c1() %}{{ [x for x in a if x is defined] }}{{ {...m, \"k\": a | default(value=1, boolean=true)} }}{{ a[1:2]?.b }}{% endcomponent %}",
    ] {
        add(e);
    }
    // ---- if chains
    for e in [
        "{% if a %}{% endif %}", "{% if a %}{% else %}{% endif %}", "{% if a %}x{% endif %}", "{% if a %}x{% else %}y{% endif %}", "{% if a %}{% elif b %}{% endif %}", "{% if a %}{% elif b %}{% elif c %}{% else %}{% endif %}",
        "{% if a %}1{% elif b %}2{% elif c %}3{% elif d %}4{% else %}5{% endif %}6", "{% if a %}1{% elif b %}{% elif c %}3{% endif %}", "{% if a %}{% if b %}{% if c %}x{% else %}y{% endif %}{% elif d %}z{% endif %}{% else %}{% if e %}w{% endif %}{% endif %}",
        "{% if a and b or c %}x{% elif not a %}y{% endif %}", "{% if a if b else c %}x{% endif %}", "{% if a is defined and a | length > 2 %}{{ a }}{% endif %}", "{% if true %}t{% endif %}{% if false %}f{% else %}e{% endif %}{% if none %}{% endif %}{% if 1 %}{% endif %}",
        "{% if a %}x{% else %}{% endif %}", "{% if a %}{% else %}y{% endif %}", "{% if [x for x in a if x] %}x{% elif <Comp/> %}y{% endif %}",
    ] {
        add(e);
    }
    // ---- loops, break / continue
    for e in [
        "{% for x in a %}{% endfor %}", "{% for x in a %}{{ x }}{% endfor %}", "{% for k, v in m %}{{ k }}={{ v }}{% endfor %}", "{% for x in a %}{{ x }}{% else %}empty{% endfor %}", "{% for k, v in m %}{% else %}{% endfor %}",
        "{% for x in a %}{% break %}{% endfor %}", "{% for x in a %}{% continue %}{% endfor %}", "{% for x in a %}{% if x %}{% break %}{% endif %}{{ x }}{% if not x %}{% continue %}{% endif %}z{% endfor %}",
        "{% for x in a %}{% if x %}{% if x.y %}{% if x.y.z %}{% break %}{% else %}{% continue %}{% endif %}{% endif %}{% elif b %}{% continue %}{% else %}{% break %}{% endif %}{% endfor %}",
        "{% for x in a %}{% for y in x %}{% for z in y %}{% if z %}{% break %}{% endif %}{{ z }}{% endfor %}{% if y %}{% continue %}{% endif %}{% else %}{% if x %}{% break %}{% endif %}{% endfor %}{% continue %}{% endfor %}",
        "{% for x in a %}{% for y in b %}{{ y }}{% else %}{% continue %}{% endfor %}{% endfor %}", "{% for x in a %}{% for y in b %}{{ y }}{% else %}{% break %}{% endfor %}{% else %}e{% endfor %}",
        "{% for x in a %}x{% else %}{% break %}{% endfor %}", "{% for x in a %}x{% else %}{% continue %}{% endfor %}", "{% for x in a %}x{% else %}{% if b %}{% continue %}{% endif %}{% endfor %}",
        "{% for x in a %}{% block inloop %}{% continue %}{% endblock %}{% endfor %}", "{% for x in a %}{% block inloop %}{% break %}{% endblock %}{% endfor %}", "{% for x in a %}{% block inloop %}{% if x %}{% continue %}{% endif %}{% endblock %}{% endfor %}",
        "{% for x in a %}{% block inloop %}{% for y in x %}{% continue %}{% endfor %}{% endblock %}{% endfor %}", "{% for x in a %}{{ [y for y in x if y] }}{% if x %}{% continue %}{% endif %}{% endfor %}",
        "{% for x in a %}{% filter upper %}{% for y in x %}{% break %}{% endfor %}{% endfilter %}{% break %}{% endfor %}", "{% for x in a %}{% set v %}{% for y in x %}{% if y %}{% continue %}{% endif %}{% endfor %}{% endset %}{% endfor %}",
        "{% for x in a %}{% filter upper %}{% break %}{% endfilter %}{% endfor %}", "{% for x in a %}{% set v %}{% continue %}{% endset %}{% endfor %}", "{% for x in a %}{% <Comp> %}{% break %}{% </Comp> %}{% endfor %}",
        "{% break %}", "{% continue %}", "{% if a %}{% break %}{% endif %}", "{% block b %}{% continue %}{% endblock %}",
        "{% for x in range(end=3) %}{{ loop.index }}{{ loop.index0 }}{{ loop.first }}{{ loop.last }}{{ loop.length }}{% endfor %}", "{% for x in [1, 2, 3] | reverse %}{{ x }}{% endfor %}", "{% for x in a if b else c %}{{ x }}{% endfor %}",
        "{% for x in a and b %}{{ x }}{% endfor %}", "{% for x in a[1:] %}{% for x in x %}{{ x }}{% endfor %}{{ x }}{% endfor %}", "{% for k, v in {\"a\": 1, ...m} %}{{ k }}{% endfor %}", "{% for c in \"héllo\" %}{{ c }}{% endfor %}",
        "{% for x in a %}{% set y = x %}{% set_global g = y %}{% endfor %}{{ g }}", "{% for x in a -%} {{ x }} {%- else -%} e {%- endfor %}",
    ] {
        add(e);
    }
    // ---- set, set_global, set blocks, filter sections, include
    for e in [
        "{% set x = 1 %}{{ x }}", "{% set x = a and b %}", "{% set_global x = a if b else c %}", "{% set x = (b + 1) | round %}", "{% set x = [x for x in a] %}", "{% set x = {\"k\": x} %}{% set x = x %}",
        "{% set x %}{% endset %}", "{% set x %}body{{ a }}{% endset %}{{ x }}", "{% set_global x %}g{% endset %}", "{% set x | upper %}Hello{% endset %}", "{% set x | upper | replace(from=\"a\", to=\"b\") %}a{{ a }}{% endset %}",
        "{% set_global x | upper(with=1) | trim(pat='fr', q=a, r=b and c) | safe %}Hello{% endset %}", "{% set x | default(value=a if b else c, boolean=[y for y in a]) %}{% if a %}{{ b }}{% endif %}{% endset %}",
        "{% set x %}{% set y %}{% set z | upper %}in{% endset %}{{ z }}{% endset %}{{ y }}{% endset %}{{ x }}", "{% set x %}{% block inset %}blk{% endblock %}{% endset %}{{ x }}", "{% set x %}{% for i in a %}{{ i }}{% else %}e{% endfor %}{% endset %}",
        "{% filter upper %}{% endfilter %}", "{% filter upper %}x{{ a }}{% endfilter %}", "{% filter safe %} hello {% endfilter %}", "{% filter upper(hey=1) -%} hello {%- endfilter %}", "{% filter replace(from=\"a\", to=\"b\") %}a{% endfilter %}",
        "{% filter truncate(length=a | length, end=b if c else d, k3=[1]) %}{% if true %}a{% endif %}{% endfilter %}", "{% filter upper %}{% filter lower %}{% filter trim %} x {% endfilter %}{% endfilter %}{% endfilter %}",
        "{% filter upper %}{% block infilter %}blk{{ a }}{% endblock %}{% endfilter %}", "{% filter upper %}{% set v %}x{% endset %}{{ v }}{% include \"inc.html\" %}{{ <Comp/> }}{% endfilter %}",
        "{% include \"inc.html\" %}", "{% include \"inc.html\" %}{% include \"inc.html\" %}{% include \"base.html\" %}", "{% if a %}{% include \"inc.html\" %}{% endif %}{% for x in a %}{% include \"inc.html\" %}{% endfor %}", "{% include 'inc.html' %}",
    ] {
        add(e);
    }
    // ---- blocks, extends, super
    for e in [
        "{% block k %}{% endblock %}", "{% block k %}x{% endblock k %}", "a{% block k %}b{% block k2 %}c{% block k3 %}d{% endblock %}e{% endblock k2 %}f{% endblock %}g", "{% block k %}1{% endblock %}{% block j %}2{% endblock %}",
        "{% block k %}{{ a | upper }}{% if a is defined %}{{ range(end=2) }}{% endif %}{% include \"inc.html\" %}{{ <Comp/> }}{% endblock %}", "{% if a %}{% block k %}x{% endblock %}{% endif %}", "{% for x in a %}{% block k %}{{ x }}{% endblock %}{% endfor %}",
        "{% for x in a %}x{% else %}{% block k %}e{% endblock %}{% endfor %}", "{% block k %}{% filter upper %}{% block k2 %}{% set v %}{% block k3 %}x{% endblock %}{% endset %}{% endblock %}{% endfilter %}{% endblock %}",
        "{% extends \"base.html\" %}", "{% extends \"base.html\" %}{% block k %}c{% endblock %}", "{% extends \"base.html\" %}{% block k %}c{{ super() }}{% endblock %}", "{% extends \"base.html\" %}{% block k %}{{ super() }}{{ super() }}{% block k2 %}{{ super() }}{% endblock %}{% endblock %}{% block j %}j{% endblock %}",
        "{% extends \"mid.html\" %}{% block k %}{{ super() | upper }}{% if a %}{{ super() }}{% endif %}{% endblock %}", "{% extends \"base.html\" %}ignored{{ a }}{% block k %}c{% endblock %}ignored too{% set x = 1 %}", "{# c #}{% extends \"base.html\" %}",
        "{% extends 'base.html' %}{% block j %}{% for x in a %}{{ super() }}{% if x %}{% break %}{% endif %}{% endfor %}{% endblock j %}", "{% block k %}{{ super() }}{% endblock %}", "{{ super() }}", "{% block k %}a{% endblock %}{% block k %}b{% endblock %}",
        "{% block k %}{% block k %}x{% endblock %}{% endblock %}", "{% extends \"base.html\" %}{% extends \"mid.html\" %}", "x{% extends \"base.html\" %}",
    ] {
        add(e);
    }
    // ---- raw, comments, whitespace control, text
    for e in [
        "", "plain text only", "{% raw %}{{ a }}{% if %}{% endraw %}", "a{% raw %} {{ x }} {% endraw %}b{{ a }}", "{# comment #}", "a{# c #}b{#- c -#}c", "{#- https://x #}", "  {{- a -}}  {%- if a -%}  x  {%- endif -%}  ",
        "{{ a }}\n{{- b }}\n{%- set x = 1 -%}\n{{ x -}}\n end", "é😀{{ \"ü\" }}{% if a %}ß{% endif %}", "{{a}}{{b}}{%if a%}x{%endif%}", "{ { a } } {% raw %}{% endraw %}", "{{ \"{{ not a tag }}\" }}", "line1\r\nline2{{ a }}\r\n",
        "{{ a }}{{ a }}{{ a.b }}{{ a.b }}txt{{ a.b.c }}", "x{{ 1 }}y{{ \"s\" }}z{{ true }}{{ none }}{{ 1.5 }}{{ -1 }}",
    ] {
        add(e);
    }
    // ---- everything at once
    add("{% extends \"base.html\" %}{% block k %}{% for k, v in m | default(value={\"a\": [1, 2]}, boolean=true) %}{% if v is iterable and v | length > 1 or k in [\"x\", ...ks] %}{% set s | upper | truncate(length=3, end=\"\") %}{{ k ~ \":\" ~ (v[0] if v else none) }}{% endset %}{{ s }}{% <Card title={k} n={loop.index} {...v?.extra}> %}{% for i in v[::2] %}{% if i is odd %}{% continue %}{% elif i > 10 %}{% break %}{% endif %}{{ <ui.btn label={i | str} n={i ** 2 // 3}/> }}{% else %}{{ super() }}{% endfor %}{% </Card> %}{% elif not v %}{% filter replace(from=\"a\", to=k) %}{% include \"inc.html\" %}{% endfilter %}{% else %}{{ [x * 2 for x in v if x > 1] | join(sep=\",\") }}{% endif %}{% else %}{% set_global none_seen = true %}{% endfor %}{% endblock %}");
    v
}

fn directed_sets() -> Vec<TSet> {
    let helpers = directed_helpers();
    let mut out = vec![TSet { stream: "directed", origin: "helpers".into(), templates: helpers.clone() }];
    for (k, src) in directed_sources().into_iter().enumerate() {
        // autoescaped and not, alternately (no effect on the compiler; the names differ)
        let name = if k % 2 == 0 { format!("d{k}.html") } else { format!("d{k}") };
        let mut t = helpers.clone();
        t.push((name, src));
        out.push(TSet { stream: "directed", origin: format!("directed#{k}"), templates: t });
    }
    out
}

// ------------------------------------------------------------------------------ mutation stream

/// `{% … %}`, `{{ … }}`, `{# … #}` and the text between them
fn segments(src: &str) -> Vec<String> {
    let b = src.as_bytes();
    let mut out = Vec::new();
    let mut i = 0;
    let mut text_start = 0;
    while i + 1 < b.len() {
        let close = match (b[i], b[i + 1]) {
            (b'{', b'%') => "%}",
            (b'{', b'{') => "}}",
            (b'{', b'#') => "#}",
            _ => {
                i += 1;
                continue;
            }
        };
        let Some(rel) = src[i + 2..].find(close) else { break };
        let end = i + 2 + rel + 2;
        if text_start < i {
            out.push(src[text_start..i].to_string());
        }
        out.push(src[i..end].to_string());
        i = end;
        text_start = end;
    }
    if text_start < src.len() {
        out.push(src[text_start..].to_string());
    }
    out
}

fn tag_word(seg: &str) -> Option<String> {
    let inner = seg.strip_prefix("{%")?.trim_start_matches('-').trim_start();
    if inner.starts_with("</") {
        return Some("</".into());
    }
    if inner.starts_with('<') {
        return Some("<".into());
    }
    let w: String = inner.chars().take_while(|c| c.is_alphanumeric() || *c == '_').collect();
    Some(w)
}

/// index of the tag closing the one opened at `i` (by nesting depth of opening / closing words)
fn matching_close(segs: &[String], i: usize) -> Option<usize> {
    let opens = |s: &str| -> bool {
        match tag_word(s).as_deref() {
            Some("if" | "for" | "block" | "filter" | "component" | "<" | "raw") => true,
            Some("set" | "set_global") => !s.contains('='),
            _ => false,
        }
    };
    let closes = |s: &str| matches!(tag_word(s).as_deref(), Some("endif" | "endfor" | "endblock" | "endfilter" | "endcomponent" | "</" | "endraw" | "endset"));
    if !opens(&segs[i]) {
        return None;
    }
    let mut depth = 0usize;
    for (j, s) in segs.iter().enumerate().skip(i) {
        if opens(s) {
            depth += 1;
        } else if closes(s) {
            depth -= 1;
            if depth == 0 {
                return Some(j);
            }
        }
    }
    None
}

/// one light mutation at the level of tags; returns (operator, new source)
fn mutate(rng: &mut Rng, src: &str) -> Option<(&'static str, String)> {
    let mut segs = segments(src);
    if segs.is_empty() {
        return None;
    }
    let tags: Vec<usize> = (0..segs.len()).filter(|i| segs[*i].starts_with("{%")).collect();
    let any: Vec<usize> = (0..segs.len()).filter(|i| segs[*i].starts_with('{')).collect();
    let ranges: Vec<(usize, usize)> = tags.iter().filter_map(|i| matching_close(&segs, *i).map(|j| (*i, j))).collect();
    let op = rng.below(13);
    let name: &'static str;
    match op {
        0 | 1 if !tags.is_empty() => {
            name = "delete-tag";
            segs.remove(*rng.pick(&tags));
        }
        2 if !tags.is_empty() => {
            name = "duplicate-tag";
            let i = *rng.pick(&tags);
            segs.insert(i, segs[i].clone());
        }
        3 if tags.len() >= 2 => {
            name = "swap-tags";
            let (i, j) = (*rng.pick(&tags), *rng.pick(&tags));
            segs.swap(i, j);
        }
        4 if !ranges.is_empty() => {
            name = "delete-range";
            let (i, j) = *rng.pick(&ranges);
            segs.drain(i..=j);
        }
        5 if !ranges.is_empty() => {
            name = "duplicate-range";
            let (i, j) = *rng.pick(&ranges);
            let copy: Vec<String> = segs[i..=j].to_vec();
            let at = if rng.chance(1, 2) { j + 1 } else { rng.below(segs.len() + 1) };
            for (k, s) in copy.into_iter().enumerate() {
                segs.insert(at + k, s);
            }
        }
        6 | 7 => {
            name = "wrap-range";
            let (i, j) = if !ranges.is_empty() && rng.chance(2, 3) { *rng.pick(&ranges) } else { let i = rng.below(segs.len()); (i, i) };
            let (open, close) = *rng.pick(&[
                ("{% if a %}", "{% endif %}"),
                ("{% if a %}x{% else %}", "{% endif %}"),
                ("{% for q in a %}", "{% endfor %}"),
                ("{% for q in a %}z{% else %}", "{% endfor %}"),
                ("{% filter upper %}", "{% endfilter %}"),
                ("{% set w9 %}", "{% endset %}"),
                ("{% block mb9 %}", "{% endblock %}"),
                ("{% <Comp> %}", "{% </Comp> %}"),
                ("{% component mc9() %}", "{% endcomponent %}"),
            ]);
            segs.insert(j + 1, close.to_string());
            segs.insert(i, open.to_string());
        }
        8 => {
            name = "insert-tag";
            let t = *rng.pick(&["{% break %}", "{% continue %}", "{% else %}", "{% elif b %}", "{% set q = a %}", "{% include \"inc.html\" %}", "{{ super() }}", "{% endif %}", "{% endfor %}", "{% if a %}", "{% for q in a %}", "{{ a | upper(x=1, y=2) }}"]);
            let at = rng.below(segs.len() + 1);
            segs.insert(at, t.to_string());
        }
        9 if !tags.is_empty() => {
            name = "move-tag";
            let i = *rng.pick(&tags);
            let s = segs.remove(i);
            let at = rng.below(segs.len() + 1);
            segs.insert(at, s);
        }
        10 if !any.is_empty() => {
            name = "delete-segment";
            segs.remove(*rng.pick(&any));
        }
        11 if any.len() >= 2 => {
            name = "swap-segments";
            let (i, j) = (*rng.pick(&any), *rng.pick(&any));
            segs.swap(i, j);
        }
        _ if !ranges.is_empty() => {
            name = "move-range";
            let (i, j) = *rng.pick(&ranges);
            let part: Vec<String> = segs.drain(i..=j).collect();
            let at = rng.below(segs.len() + 1);
            for (k, s) in part.into_iter().enumerate() {
                segs.insert(at + k, s);
            }
        }
        _ => {
            name = "duplicate-segment";
            let i = rng.below(segs.len());
            segs.insert(i, segs[i].clone());
        }
    }
    let out = segs.concat();
    if out == src { None } else { Some((name, out)) }
}

fn mutation_sets(rng: &mut Rng, base: &[TSet], n: usize) -> Vec<TSet> {
    let mut out = Vec::new();
    if base.is_empty() {
        return out;
    }
    let mut tries = 0;
    while out.len() < n && tries < n * 4 {
        tries += 1;
        let s = rng.pick(base);
        if s.templates.is_empty() {
            continue;
        }
        // mostly the main (last) template of the set
        let k = if rng.chance(3, 4) { s.templates.len() - 1 } else { rng.below(s.templates.len()) };
        let mut src = s.templates[k].1.clone();
        let mut ops = Vec::new();
        for _ in 0..(1 + rng.below(2)) {
            if let Some((op, m)) = mutate(rng, &src) {
                ops.push(op);
                src = m;
            }
        }
        if ops.is_empty() || src.len() > 100_000 {
            continue;
        }
        let mut t = s.clone();
        t.stream = "mutation";
        t.origin = format!("{} [{}]", s.origin, ops.join("+"));
        // a name of its own: the set may be registered next to its original in the oracle
        t.templates[k].1 = src;
        // the mutated template comes last so that `cases` sees it as the case of this set
        let m = t.templates.remove(k);
        t.templates.push(m);
        out.push(t);
    }
    out
}

// @@TIE@@

// @@ORACLE@@

// @@SHRINK@@

// @@REPLAY@@

// ------------------------------------------------------------------------------ main

fn main() {
    quiet_panics();
    let args: Vec<String> = std::env::args().collect();
    let env = Env::from_env();
    // c07c never needs optimised code in this process (children of the oracle keep it on)
    hooks::set_skip_optimize(true);
    let threads = std::thread::available_parallelism().map(|n| n.get()).unwrap_or(8).min(16);
    let exe = driver::driver_path(&env.verif_dir, "drv_c07c");
    let _ = (&args, &exe, threads);
}
